# coding: utf-8
"""E5 -- syntax-tree / call-graph rules: write-set with provenance (E5d),
inheritable-memo rule (E5e), raise inventory (E5h), builtin-method lint (E5g),
registry sibling agreement (C20) and registry data lint (E6)."""
from __future__ import annotations

import ast
import os
import re
from typing import Dict, List, Optional, Set, Tuple

from .loader import AnalysisError, ClassInfo, Ext, FuncInfo, ModRef, Program, func_params

MUTATORS = {"append", "extend", "insert", "pop", "remove", "clear", "sort", "reverse", "update", "setdefault", "add",
            "discard", "popitem"}
FRESH_CALLS = {"dict", "list", "set", "tuple", "SeqRecord", "CircularRecord", "SeqFeature", "FeatureLocation",
               "CompoundLocation", "Seq", "deepcopy", "copy", "sorted", "str", "int", "len", "format", "join"}
PASS_THROUGH = {"enumerate", "iter", "reversed", "iteritems", "itervalues", "iterkeys", "zip", "filter", "map"}
ELEMENT_METHODS = {"get", "setdefault", "pop", "values", "items", "keys", "popitem", "__getitem__"}


def chain_of(e: ast.expr) -> Tuple[Optional[str], List[str]]:
    """root name and the attribute/subscript path of an access expression"""
    path: List[str] = []
    while True:
        if isinstance(e, ast.Attribute):
            path.append("." + e.attr)
            e = e.value
        elif isinstance(e, ast.Subscript):
            k = e.slice
            if isinstance(k, ast.Constant):
                path.append("[%r]" % (k.value,))
            elif isinstance(k, ast.Slice):
                path.append("[:]")
            else:
                path.append("[*]")
            e = e.value
        elif isinstance(e, ast.Name):
            return e.id, list(reversed(path))
        else:
            return None, list(reversed(path))


def _starred(root: str) -> str:
    """mark a provenance root as "reached as an element of it" (fresh and global roots carry no mark)"""
    if root == "fresh" or root.startswith("global:") or root.endswith("*"):
        return root
    return root + "*"


class FuncFacts(object):
    """Flow-insensitive provenance of locals and the mutation sites of one function."""

    def __init__(self, eff: "Effects", fi: FuncInfo):
        self.eff = eff
        self.fi = fi
        self.params = [p.lstrip("*") for p in func_params(fi.node)]
        self.self_name = self.params[0] if (fi.owner is not None and fi.kind in ("method", "property", "classmethod") and self.params) else None
        self.assigns: Dict[str, List[ast.expr]] = {}
        self.elem_of: Dict[str, List[ast.expr]] = {}
        self.stored_into: Dict[str, List[ast.expr]] = {}
        self._prov_cache: Dict[str, Set[str]] = {}
        self._collect()

    def _collect(self):
        for node in ast.walk(self.fi.node):
            if isinstance(node, ast.Assign):
                for t in node.targets:
                    self._bind(t, node.value)
            elif isinstance(node, ast.AnnAssign) and node.value is not None:
                self._bind(node.target, node.value)
            elif isinstance(node, ast.AugAssign):
                if isinstance(node.target, ast.Name):
                    self.assigns.setdefault(node.target.id, []).append(node.value)
            elif isinstance(node, (ast.For, ast.comprehension)):
                self._bind_elem(node.target, node.iter)
            elif isinstance(node, ast.With):
                for it in node.items:
                    if it.optional_vars is not None:
                        self._bind(it.optional_vars, it.context_expr)
            elif isinstance(node, ast.ExceptHandler) and node.name:
                self.assigns.setdefault(node.name, []).append(ast.Constant(None))
            elif isinstance(node, ast.Lambda):
                # lambda e=elem: ... -- the parameter names what its default names
                a = node.args
                ps = a.posonlyargs + a.args
                for prm, d in zip(ps[len(ps) - len(a.defaults):], a.defaults):
                    self.assigns.setdefault(prm.arg, []).append(d)
            elif isinstance(node, ast.Call) and isinstance(node.func, ast.Attribute) and node.func.attr in (
                    "append", "add", "setdefault", "insert", "extend", "update"):
                root, _ = chain_of(node.func.value)
                if root:
                    for a in node.args:
                        self.stored_into.setdefault(root, []).append(a)
        for node in ast.walk(self.fi.node):
            if isinstance(node, ast.Assign):
                for t in node.targets:
                    if isinstance(t, ast.Subscript):
                        root, _ = chain_of(t.value)
                        if root:
                            self.stored_into.setdefault(root, []).append(node.value)

    def _bind(self, target, value):
        if isinstance(target, ast.Name):
            self.assigns.setdefault(target.id, []).append(value)
        elif isinstance(target, (ast.Tuple, ast.List)):
            if isinstance(value, (ast.Tuple, ast.List)) and len(value.elts) == len(target.elts):
                for t, v in zip(target.elts, value.elts):
                    self._bind(t, v)
            else:
                for t in target.elts:
                    self._bind_elem(t, value)

    def _bind_elem(self, target, it):
        if isinstance(target, ast.Name):
            self.elem_of.setdefault(target.id, []).append(it)
        elif isinstance(target, (ast.Tuple, ast.List)):
            for t in target.elts:
                self._bind_elem(t, it)

    def _is_slice_value(self, e: ast.expr, depth: int = 2) -> bool:
        """the index is a slice object: `slice(a, b)` spelled out, a local bound only to such, or a parameter every caller
        in the code base passes one for (rec[region] with region = slice(None, n))"""
        if isinstance(e, ast.Call) and isinstance(e.func, ast.Name) and e.func.id == "slice":
            return True
        if not isinstance(e, ast.Name) or depth <= 0:
            return False
        vals = self.assigns.get(e.id, [])
        if vals:
            return all(self._is_slice_value(v, depth - 1) for v in vals)
        if e.id in self.params and e.id != self.self_name:
            a = self.fi.node.args
            positional = [x.arg for x in a.posonlyargs + a.args]
            idx = positional.index(e.id) if e.id in positional else None
            bound = self.self_name is not None
            seen = 0
            for g in self.eff.all_functions():
                for c in ast.walk(g.node):
                    if not isinstance(c, ast.Call):
                        continue
                    f = c.func
                    nm = f.attr if isinstance(f, ast.Attribute) else f.id if isinstance(f, ast.Name) else None
                    if nm != self.fi.name:
                        continue
                    arg = next((k.value for k in c.keywords if k.arg == e.id), None)
                    if arg is None and idx is not None:
                        j = idx - (1 if (bound and isinstance(f, ast.Attribute)) else 0)
                        if 0 <= j < len(c.args):
                            arg = c.args[j]
                    if arg is None:
                        return False
                    gf = self.eff.facts(g)
                    if not gf._is_slice_value(arg, depth - 1):
                        return False
                    seen += 1
            return seen > 0
        return False

    # -- provenance ---------------------------------------------------------

    def own_prov(self, name: str) -> Set[str]:
        """provenance of the object a local names, ignoring what was stored
        into it (a fresh container holding inputs is itself fresh)"""
        return self.eff.in_own_mode(lambda: self.prov_name(name))

    def own_prov_expr(self, e: ast.expr) -> Set[str]:
        return self.eff.in_own_mode(lambda: self.prov(e))

    def prov_name(self, name: str, stack=()) -> Set[str]:
        own = self.eff.own_mode
        ck = (name, own)
        if ck in self._prov_cache:
            return self._prov_cache[ck]
        if name in stack:
            return set()
        out: Set[str] = set()
        if name in self.params:
            out.add("self" if name == self.self_name else "param:" + name)
        stack = stack + (name,)
        for v in self.assigns.get(name, []):
            out |= self.prov(v, stack)
        for v in self.elem_of.get(name, []):
            # an element of a container is what the container holds, also when only the named object itself is asked for;
            # roots reached this way are marked (*) so that callers keep asking for the content further up
            saved, self.eff.own_mode = self.eff.own_mode, False
            try:
                got = self.prov(v, stack)
            finally:
                self.eff.own_mode = saved
            out |= {(_starred(x) if saved else x) for x in got}
        if not own:
            for v in self.stored_into.get(name, []):
                out |= {x for x in self.prov(v, stack) if x != "fresh"}
        if not out:
            if name in self.assigns or name in self.elem_of:
                out.add("fresh")
            else:
                out.add("global:" + name)
        if not stack[:-1]:
            self._prov_cache[ck] = out
        return out

    def prov(self, e: ast.expr, stack=()) -> Set[str]:
        if isinstance(e, ast.Name):
            return self.prov_name(e.id, stack)
        if isinstance(e, ast.Attribute):
            base = self.prov(e.value, stack)
            out = set()
            for b in base:
                if b.rstrip("*") == "self":
                    out.add("self." + e.attr + ("*" if b.endswith("*") else ""))
                else:
                    out.add(b)
            return out
        if isinstance(e, ast.Subscript):
            if isinstance(e.slice, ast.Slice) or self._is_slice_value(e.slice):
                # records: CircularRecord.__getitem__ deep-copies (rule getitem.deepcopy); lists/str: new object
                return {"fresh"}
            if self.eff.own_mode:
                # an element taken out of a container: what the container holds counts again
                saved, self.eff.own_mode = True, False
                try:
                    return {_starred(x) for x in self.prov(e.value, stack)}
                finally:
                    self.eff.own_mode = saved
            return self.prov(e.value, stack)
        if isinstance(e, ast.Call):
            f = e.func
            nm = f.attr if isinstance(f, ast.Attribute) else (f.id if isinstance(f, ast.Name) else None)
            if isinstance(f, ast.Name):
                # aliases: module-level bindings and imports local to the function
                b = self.fi.module.bindings.get(f.id)
                if isinstance(b, tuple) and b and b[0] == "from":
                    nm = b[2]
                for n2 in ast.walk(self.fi.node):
                    if isinstance(n2, ast.ImportFrom):
                        for al in n2.names:
                            if (al.asname or al.name) == f.id:
                                nm = al.name
            shares = None
            if isinstance(f, ast.Call) and isinstance(f.func, ast.Name) and f.func.id == "type":
                shares = True  # type(self)(...): a record constructor
            elif nm in ("SeqRecord", "SeqFeature", "CompoundLocation"):
                shares = True
            elif nm == "CircularRecord":
                shares = not (len(e.args) == 1 and not e.keywords)  # the one-argument copy path deep-copies (rule ctor.deepcopy)
            if shares:
                # a library constructor keeps the containers it is handed: the new object shares them with their owner
                out = {"fresh"}
                for a in list(e.args) + [k.value for k in e.keywords]:
                    if isinstance(a, (ast.Attribute, ast.Name, ast.Subscript)) and not (isinstance(a, ast.Subscript) and isinstance(a.slice, ast.Slice)):
                        out |= {x for x in self.prov(a, stack) if x != "fresh" and not x.startswith("global:")}
                return out
            if nm in ("list", "tuple", "set", "frozenset", "sorted") and len(e.args) == 1 and not self.eff.own_mode and isinstance(f, ast.Name):
                # a new container with the elements of the old one: itself fresh, its content what the argument held
                return {"fresh"} | {_starred(x) for x in self.prov(e.args[0], stack) if x != "fresh" and not x.startswith("global:")}
            if nm in FRESH_CALLS:
                return {"fresh"}
            if nm in PASS_THROUGH:
                out = set()
                for a in e.args:
                    out |= self.prov(a, stack)
                return out or {"fresh"}
            if isinstance(f, ast.Attribute) and nm in ELEMENT_METHODS:
                out = set(self.prov(f.value, stack))
                if nm in ("get", "setdefault", "pop") and len(e.args) > 1:
                    out |= self.prov(e.args[1], stack)
                return out
            # a class of the code base instantiated: a new object, which holds what its constructor was handed
            if isinstance(f, ast.Name):
                tgt = self.eff.p.lookup(self.fi.module.name, f.id)
                if isinstance(tgt, ClassInfo) and tgt.module is not None:
                    if self.eff.own_mode:
                        return {"fresh"}
                    out = {"fresh"}
                    for a in list(e.args) + [k.value for k in e.keywords]:
                        out |= {x for x in self.prov(a, stack) if x != "fresh" and not x.startswith("global:")}
                    return out
            # repo callee: what it returns
            callees = self.eff.resolve_call(self.fi, e)
            if callees:
                out = set()
                for g in callees:
                    ret = self.eff.returns(g)
                    gf = self.eff.facts(g)
                    for r in ret:
                        if r == "fresh" or r.startswith("global:"):
                            out.add("fresh")
                        else:
                            out |= self._actual(e, gf, r, stack)
                return out or {"fresh"}
            if isinstance(f, ast.Attribute):
                # unknown method of an object: conservatively the object itself
                return set(self.prov(f.value, stack)) | {"fresh"}
            return {"fresh"}
        if isinstance(e, ast.BinOp):
            if isinstance(e.op, (ast.LShift, ast.RShift)):
                return set(self.prov(e.left, stack))  # rotation by a multiple of n returns the record itself
            return self.prov(e.left, stack) | self.prov(e.right, stack)
        if isinstance(e, ast.IfExp):
            return self.prov(e.body, stack) | self.prov(e.orelse, stack)
        if isinstance(e, ast.BoolOp):
            out = set()
            for v in e.values:
                out |= self.prov(v, stack)
            return out
        if isinstance(e, (ast.List, ast.Tuple, ast.Set)):
            if self.eff.own_mode:
                return {"fresh"}  # the display itself is a new object, whatever it holds
            out = {"fresh"}
            for v in e.elts:
                out |= {x for x in self.prov(v, stack) if x != "fresh"}
            return out
        if isinstance(e, ast.Starred):
            return self.prov(e.value, stack)
        if isinstance(e, (ast.GeneratorExp, ast.ListComp, ast.SetComp)):
            # a new container / iterator over images of the elements of its source
            if self.eff.own_mode:
                return {"fresh"}
            return {"fresh"} | {x for x in self.prov(e.elt, stack) if x != "fresh"}
        return {"fresh"}

    def _actual(self, call: ast.Call, gf: "FuncFacts", root: str, stack) -> Set[str]:
        """provenance (in the caller) of the callee root ``root``"""
        if root.endswith("*"):
            # the callee reached it as the content of what it was given: ask for the content here too
            saved, self.eff.own_mode = self.eff.own_mode, False
            try:
                got = self._actual(call, gf, root.rstrip("*"), stack)
            finally:
                self.eff.own_mode = saved
            return {(_starred(x) if saved else x) for x in got}
        if root == "self" or root.startswith("self."):
            f = call.func
            if isinstance(f, ast.Attribute):
                base = self.prov(f.value, stack)
                if root == "self":
                    return set(base)
                return {(b + root[4:]) if b == "self" else b for b in base}
            return {"fresh"}
        if root.startswith("param:"):
            pname = root[6:]
            a = gf.fi.node.args
            positional = [x.arg for x in a.posonlyargs + a.args]
            bound = gf.self_name is not None and (isinstance(call.func, ast.Attribute) or gf.fi.name == "__init__")
            if bound and positional:
                positional = positional[1:]
            if a.kwarg is not None and a.kwarg.arg == pname:
                return {"fresh"}  # the **kwargs dict is created by the call
            if a.vararg is not None and a.vararg.arg == pname:
                out = {"fresh"}
                for x in call.args[len(positional):]:
                    out |= {y for y in self.prov(x, stack) if y != "fresh"}
                return out
            if pname in positional:
                idx = positional.index(pname)
                if idx < len(call.args) and not any(isinstance(x, ast.Starred) for x in call.args[: idx + 1]):
                    return self.prov(call.args[idx], stack)
                for kw in call.keywords:
                    if kw.arg == pname:
                        return self.prov(kw.value, stack)
            for kw in call.keywords:
                if kw.arg == pname:
                    return self.prov(kw.value, stack)
            return {"fresh"}
        return {root}


class Site(object):
    def __init__(self, fi: FuncInfo, node: ast.AST, kind: str, target: ast.expr, roots: Set[str], via: str = "", own: bool = False):
        self.fi, self.node, self.kind, self.target, self.roots, self.via, self.own = fi, node, kind, target, roots, via, own

    @property
    def where(self):
        return "%s:%d" % (self.fi.module.relpath, self.node.lineno)

    def text(self):
        return re.sub(r"\s+", " ", self.fi.module.segment(self.node) or "")[:120]

    def path(self):
        return chain_of(self.target)


class Effects(object):
    def __init__(self, program: Program):
        self.p = program
        self._facts: Dict[int, FuncFacts] = {}
        self._returns: Dict[tuple, Set[str]] = {}
        self.own_mode = False
        self._by_name: Dict[str, List[FuncInfo]] = {}
        for ci in program.all_classes():
            if not ci.module.name.startswith("moclo"):
                continue
            for a, v in ci.attrs.items():
                if isinstance(v, FuncInfo):
                    self._by_name.setdefault(a, []).append(v)

    def all_functions(self) -> List[FuncInfo]:
        out = getattr(self, "_all_functions", None)
        if out is None:
            out = []
            for mn, m in self.p.modules.items():
                if mn.startswith("moclo"):
                    out.extend(m.functions.values())
                    for ci in m.classes.values():
                        out.extend(v for v in ci.attrs.values() if isinstance(v, FuncInfo))
            self._all_functions = out
        return out

    def facts(self, fi: FuncInfo) -> FuncFacts:
        k = id(fi)
        if k not in self._facts:
            self._facts[k] = FuncFacts(self, fi)
        return self._facts[k]

    def attr_container_fresh(self, ci, attr: str) -> bool:
        """is the container the instances of ``ci`` keep under ``attr`` always one the class created itself (every
        `self.attr = <expr>` in its methods binds a new object)?  Then writing into it touches nothing handed in."""
        if ci is None:
            return False
        cache = self.__dict__.setdefault("_attr_fresh", {})
        k = (id(ci), attr)
        if k in cache:
            return cache[k]
        cache[k] = False
        binds = 0
        ok = True
        for c in self.p.mro(ci):
            if not isinstance(c, ClassInfo):
                continue
            for raw in c.attrs.values():
                if not isinstance(raw, FuncInfo) or not raw.node.args.args:
                    continue
                me = raw.node.args.args[0].arg
                gf = self.facts(raw)
                for n in ast.walk(raw.node):
                    tgts = n.targets if isinstance(n, ast.Assign) else [n.target] if isinstance(n, (ast.AnnAssign, ast.AugAssign)) else []
                    for t in tgts:
                        for tt in (t.elts if isinstance(t, (ast.Tuple, ast.List)) else [t]):
                            if isinstance(tt, ast.Attribute) and tt.attr == attr and isinstance(tt.value, ast.Name) and tt.value.id == me:
                                binds += 1
                                v = getattr(n, "value", None)
                                if v is None or isinstance(n, ast.AugAssign) or not isinstance(t, ast.Attribute):
                                    ok = False
                                elif self.in_own_mode(lambda: gf.prov(v)) - {"fresh"}:
                                    ok = False
        cache[k] = bool(binds) and ok
        return cache[k]

    def in_own_mode(self, fn):
        saved, self.own_mode = self.own_mode, True
        try:
            return fn()
        finally:
            self.own_mode = saved

    def returns(self, fi: FuncInfo) -> Set[str]:
        k = (id(fi), self.own_mode)
        if k in self._returns:
            return self._returns[k]
        self._returns[k] = {"fresh"}  # recursion guard
        ff = self.facts(fi)
        out: Set[str] = set()
        for node in ast.walk(fi.node):
            if isinstance(node, ast.Return) and node.value is not None:
                out |= ff.prov(node.value)
            elif isinstance(node, (ast.Yield, ast.YieldFrom)) and node.value is not None:
                out |= ff.prov(node.value)  # a generator hands out what it yields
        self._returns[k] = out or {"fresh"}
        return self._returns[k]

    # -- call resolution ------------------------------------------------------

    COMMON = {"get", "pop", "append", "format", "join", "items", "values", "keys", "upper", "lower", "match", "group",
              "search", "span", "start", "end", "setdefault", "index", "find", "strip", "split", "startswith",
              "read", "open", "extend", "remove", "add", "update", "copy", "count", "catalyse", "elucidate", "warn",
              "reverse_complement", "complement"}

    def resolve_call(self, fi: FuncInfo, call: ast.Call) -> List[FuncInfo]:
        f = call.func
        p = self.p
        if isinstance(f, ast.Name):
            r = p.lookup(fi.module.name, f.id)
            if isinstance(r, FuncInfo):
                return [r]
            if isinstance(r, ClassInfo):
                _, init = p.class_attr_def(r, "__init__")
                return [init] if isinstance(init, FuncInfo) else []
            return []
        if isinstance(f, ast.Attribute):
            # self.method / cls.method
            if isinstance(f.value, ast.Name) and fi.owner is not None and fi.node.args.args and f.value.id == fi.node.args.args[0].arg:
                out = []
                for ci in [fi.owner] + p.subclasses(fi.owner):
                    _, raw = p.class_attr_def(ci, f.attr)
                    if isinstance(raw, FuncInfo) and raw not in out:
                        out.append(raw)
                return out
            if isinstance(f.value, ast.Call) and isinstance(f.value.func, ast.Name) and f.value.func.id == "super" and fi.owner is not None:
                out = []
                for ci in [fi.owner] + p.subclasses(fi.owner):
                    _, raw = p.class_attr_def(ci, f.attr, after=fi.owner) if p.is_subclass(ci, fi.owner) else (None, None)
                    if isinstance(raw, FuncInfo) and raw not in out:
                        out.append(raw)
                return out
            base = p.resolve_expr(fi.module, f.value) if isinstance(f.value, (ast.Name, ast.Attribute)) and _is_module_path(p, fi, f.value) else None
            if isinstance(base, ModRef):
                r = p.lookup(base.name, f.attr)
                if isinstance(r, FuncInfo):
                    return [r]
                if isinstance(r, ClassInfo):
                    _, init = p.class_attr_def(r, "__init__")
                    return [init] if isinstance(init, FuncInfo) else []
                return []
            if isinstance(base, ClassInfo):
                _, raw = p.class_attr_def(base, f.attr)
                return [raw] if isinstance(raw, FuncInfo) else []
            if f.attr in self.COMMON:
                return []
            return list(self._by_name.get(f.attr, []))
        return []

    # -- mutation sites ---------------------------------------------------------

    def local_sites(self, fi: FuncInfo) -> List[Site]:
        ff = self.facts(fi)
        out: List[Site] = []
        for node in ast.walk(fi.node):
            targets = []
            if isinstance(node, ast.Assign):
                targets = [(t, "store") for t in node.targets]
            elif isinstance(node, ast.AugAssign):
                targets = [(node.target, "augstore")]
            elif isinstance(node, ast.AnnAssign) and node.value is not None:
                targets = [(node.target, "store")]
            elif isinstance(node, ast.Delete):
                targets = [(t, "del") for t in node.targets]
            for t, kind in targets:
                for tt in (t.elts if isinstance(t, (ast.Tuple, ast.List)) else [t]):
                    if isinstance(tt, (ast.Attribute, ast.Subscript)):
                        own = isinstance(tt.value, ast.Name)
                        if isinstance(tt, ast.Subscript) and isinstance(tt.value, ast.Attribute) and isinstance(tt.value.value, ast.Name) \
                                and tt.value.value.id == ff.self_name:
                            # self.table[key] = value: a container attribute of the object itself is written; what it
                            # holds (keys, values) is not what is mutated
                            roots = {"self." + tt.value.attr}
                            if fi.owner is not None and fi.owner.name != "AssemblyManager" and self.attr_container_fresh(fi.owner, tt.value.attr):
                                roots = {"fresh"}  # a table the class made itself
                        else:
                            roots = ff.own_prov(tt.value.id) if own else ff.prov(tt.value)
                        out.append(Site(fi, node, kind, tt, roots, own=own))
            if isinstance(node, ast.Call) and isinstance(node.func, ast.Attribute) and node.func.attr in MUTATORS:
                recv = node.func.value
                root, path = chain_of(recv)
                if root is None:
                    continue
                if self._repo_method_receiver(fi, ff, recv, node.func.attr):
                    continue  # `self._digestion.insert()`: a method of an object of the code base that happens to be named like a container's
                bound = fi.module.bindings.get(root)
                if root not in ff.params and root not in ff.assigns and root not in ff.elem_of and isinstance(bound, (ModRef, Ext)):
                    continue  # module function such as warnings.warn
                own = isinstance(recv, ast.Name)
                if isinstance(recv, ast.Attribute) and isinstance(recv.value, ast.Name) and recv.value.id == ff.self_name:
                    # a container attribute of the object itself: what it holds is not what is mutated
                    roots = {"self." + recv.attr}
                    if fi.owner is not None and fi.owner.name != "AssemblyManager" and self.attr_container_fresh(fi.owner, recv.attr):
                        roots = {"fresh"}  # a table the class made itself
                elif not own and path and all(step.startswith(".") for step in path) and root != ff.self_name:
                    # x.a.b.append(v): the container is reached from x by attributes only -- what was stored *into* x (or
                    # into one of its containers) earlier is not on the way
                    roots = self.in_own_mode(lambda: ff.prov(recv))
                    own = True  # ... and callers are asked the same question: which object, not what it holds
                else:
                    roots = ff.own_prov(recv.id) if own else ff.prov(recv)
                out.append(Site(fi, node, "call:" + node.func.attr, node.func, roots, own=own))
        return out

    def _repo_method_receiver(self, fi: FuncInfo, ff, recv: ast.expr, meth: str) -> bool:
        """the receiver is an instance of a class of the code base that defines `meth` itself: `self.<property>` whose every
        return constructs that class, or a local bound to such a constructor call"""
        p = self.p

        def built_class(call):
            if not isinstance(call, ast.Call):
                return None
            try:
                c = p.resolve_expr(fi.module, call.func)
            except Exception:
                c = None
            return c if isinstance(c, ClassInfo) else None

        cls = None
        if isinstance(recv, ast.Attribute) and isinstance(recv.value, ast.Name) and recv.value.id == ff.self_name and fi.owner is not None:
            raw = p.class_attr_def(fi.owner, recv.attr)[1]
            if isinstance(raw, FuncInfo) and raw.kind == "property":
                rets = [n.value for n in ast.walk(raw.node) if isinstance(n, ast.Return) and n.value is not None]
                classes = set()
                for v in rets:
                    try:
                        c = p.resolve_expr(raw.module, v.func) if isinstance(v, ast.Call) else None
                    except Exception:
                        c = None
                    classes.add(c if isinstance(c, ClassInfo) else None)
                if len(classes) == 1 and None not in classes:
                    cls = classes.pop()
        elif isinstance(recv, ast.Name):
            binds = [n.value for n in ast.walk(fi.node) if isinstance(n, ast.Assign) and len(n.targets) == 1
                     and isinstance(n.targets[0], ast.Name) and n.targets[0].id == recv.id]
            classes = {built_class(b) for b in binds}
            if binds and len(classes) == 1 and None not in classes:
                cls = classes.pop()
        if cls is None:
            return False
        if any(isinstance(c, Ext) and c.dotted not in ("builtins.object", "object", "typing.Generic") for c in p.mro(cls)):
            return False  # derives from a library container: the name may well be the container's method
        return isinstance(p.class_attr_def(cls, meth)[1], FuncInfo)

    def _context_classes(self, fi: FuncInfo, ff, call: ast.Call):
        """[(class, provenance of what its constructor was given)] for the object a `with` item evaluates to: the class
        called directly, or a helper all of whose returns construct it"""
        p = self.p
        out = []

        def given_of(facts, ctor: ast.Call) -> Set[str]:
            g: Set[str] = set()
            for a in list(ctor.args) + [k.value for k in ctor.keywords]:
                g |= {x for x in facts.prov(a) if x != "fresh"}
            return g

        f = call.func
        target = None
        try:
            if isinstance(f, ast.Name):
                target = p.lookup(fi.module.name, f.id)
            elif isinstance(f, ast.Attribute) and isinstance(f.value, ast.Name) and fi.owner is not None and ff.self_name and f.value.id == ff.self_name:
                _, target = p.class_attr_def(fi.owner, f.attr)
        except Exception:
            target = None
        if isinstance(target, ClassInfo):
            out.append((target, given_of(ff, call)))
        elif isinstance(target, FuncInfo):
            gf = self.facts(target)
            for n in ast.walk(target.node):
                if isinstance(n, ast.Return) and isinstance(n.value, ast.Call) and isinstance(n.value.func, ast.Name):
                    C = p.lookup(target.module.name, n.value.func.id)
                    if isinstance(C, ClassInfo):
                        given: Set[str] = set()
                        for r in given_of(gf, n.value):
                            given |= {x for x in ff._actual(call, gf, r, ()) if x != "fresh"}
                        out.append((C, given))
        return out

    def property_getters(self, name: str) -> List[FuncInfo]:
        cache = getattr(self, "_prop_cache", None)
        if cache is None:
            cache = self._prop_cache = {}
            for ci in self.p.all_classes():
                if ci.synthetic:
                    continue
                for nm, v in ci.attrs.items():
                    if isinstance(v, FuncInfo) and v.kind == "property":
                        cache.setdefault(nm, []).append(v)
        return cache.get(name, [])

    def transitive_sites(self, fi: FuncInfo, depth: int = 6, _stack=()) -> List[Site]:
        """mutation sites of ``fi`` and of everything it calls, with roots
        expressed in terms of ``fi``'s own parameters / self paths"""
        if id(fi) in _stack or depth < 0:
            return []
        ff = self.facts(fi)
        out = list(self.local_sites(fi))
        called_funcs = {id(n.func) for n in ast.walk(fi.node) if isinstance(n, ast.Call)}
        with_calls = {id(it.context_expr) for n in ast.walk(fi.node) if isinstance(n, ast.With) for it in n.items if isinstance(it.context_expr, ast.Call)}
        for node in ast.walk(fi.node):
            if isinstance(node, ast.Attribute) and isinstance(node.ctx, ast.Load) and id(node) not in called_funcs:
                # reading a property of the repository runs its getter on the receiver
                getters = self.property_getters(node.attr)
                if not getters:
                    continue
                pseudo = ast.Call(func=node, args=[], keywords=[])
                ast.copy_location(pseudo, node)
                callees, node = getters, pseudo
            elif isinstance(node, ast.Call):
                callees = self.resolve_call(fi, node)
            else:
                continue
            # with <instance of a repo class>: its __enter__ / __exit__ run; what they reach through self is what the
            # constructor was given
            if isinstance(node, ast.Call) and id(node) in with_calls:
                for C, given in self._context_classes(fi, ff, node):
                    for mname in ("__enter__", "__exit__"):
                        _, m_ = self.p.class_attr_def(C, mname)
                        if not isinstance(m_, FuncInfo) or id(m_) in _stack:
                            continue
                        for s in self.transitive_sites(m_, depth - 1, _stack + (id(fi),)):
                            roots = set()
                            for r in s.roots:
                                if r.rstrip("*") == "self" or r.startswith("self.") or r.startswith("param:"):
                                    roots |= given or {"fresh"}
                                else:
                                    roots.add(r)
                            out.append(Site(s.fi, s.node, s.kind, s.target, roots, via=(s.via + " <- " if s.via else "") + fi.qualname + " (with block)", own=s.own))
            # functions handed on as values (map(f, xs), _each(records, f), callback registration): whoever receives them
            # may call them on anything else it was given -- their parameters stand for the other arguments of this call
            if isinstance(node, ast.Call):
                others = [a for a in list(node.args) + [k.value for k in node.keywords]]
                for a in others:
                    g = None
                    if isinstance(a, ast.Name) and a.id not in ff.params and a.id not in ff.assigns:
                        r_ = self.p.lookup(fi.module.name, a.id)
                        g = r_ if isinstance(r_, FuncInfo) else None
                    elif isinstance(a, ast.Attribute) and isinstance(a.value, ast.Name) and fi.owner is not None and ff.self_name and a.value.id == ff.self_name:
                        _, r_ = self.p.class_attr_def(fi.owner, a.attr)
                        g = r_ if isinstance(r_, FuncInfo) and r_.kind != "property" else None
                    if g is None or g is fi or id(g) in _stack:
                        continue
                    given: Set[str] = set()
                    for b in others:
                        if b is not a:
                            given |= {x for x in ff.prov(b) if x != "fresh"}
                    for s in self.transitive_sites(g, depth - 1, _stack + (id(fi),)):
                        roots = set()
                        for r in s.roots:
                            if r.startswith("param:") or r == "self" or r.startswith("self."):
                                roots |= given or {"fresh"}
                            else:
                                roots.add(r)
                        out.append(Site(s.fi, s.node, s.kind, s.target, roots, via=(s.via + " <- " if s.via else "") + fi.qualname + " (handed on as a value)", own=s.own))
            for g in callees:
                if g is fi:
                    continue
                gf = self.facts(g)
                for s in self.transitive_sites(g, depth - 1, _stack + (id(fi),)):
                    roots: Set[str] = set()
                    for r in s.roots:
                        if r == "fresh" or r.startswith("global:"):
                            roots.add(r)
                        elif s.own:
                            roots |= self.in_own_mode(lambda: ff._actual(node, gf, r, ()))
                        else:
                            roots |= ff._actual(node, gf, r, ())
                    if g.name == "__init__" and isinstance(node.func, (ast.Name, ast.Attribute)) and not (
                            isinstance(node.func, ast.Attribute) and node.func.attr == "__init__"):
                        # constructor call: the callee's self is a fresh object
                        roots = {("fresh" if (r == "self" or r.startswith("self.")) and s.roots & {"self"} | {x for x in s.roots if x.startswith("self.")} else r) for r in roots} if False else roots
                    out.append(Site(s.fi, s.node, s.kind, s.target, roots, via=(s.via + " <- " if s.via else "") + fi.qualname, own=s.own))
        return out


def _is_module_path(p: Program, fi: FuncInfo, e: ast.expr) -> bool:
    root, _ = chain_of(e)
    if root is None:
        return False
    if root in [a.arg for a in fi.node.args.args]:
        return False
    b = p.lookup(fi.module.name, root)
    return isinstance(b, (ModRef, ClassInfo))


# ---------------------------------------------------------------------------
# C07 / C08


INPUT_ROOTS = ("self.vector", "self.modules", "self.elements", "param:module", "param:modules", "param:vector")


def effective_path(site: Site) -> str:
    """attribute/subscript path of the mutated object, seen through a local
    alias of a qualifier list (citations = feature.qualifiers.get("citation", []))"""
    root, path = site.path()
    pstr = "".join(path)
    if root and ".qualifiers" not in pstr:
        for n in ast.walk(site.fi.node):
            if isinstance(n, ast.Assign) and any(isinstance(t, ast.Name) and t.id == root for t in n.targets):
                src = site.fi.module.segment(n.value) or ""
                if ".qualifiers" in src:
                    m = re.search(r"\.qualifiers(\.get\(\s*['\"](\w+)['\"]|\[\s*['\"](\w+)['\"]\s*\])?", src)
                    key = (m.group(2) or m.group(3)) if m else None
                    pstr = ".qualifiers" + ("['%s']" % key if key else "") + pstr
    return pstr


def classify_input_write(site: Site) -> Optional[str]:
    """Name of the allowed idiom a write to an input belongs to, or None."""
    from .roles import citation_functions

    deref_f, ref_f = citation_functions(site.fi.module.program)
    seg = site.text()
    root, path = site.path()
    pstr = effective_path(site)
    is_deref, is_ref = site.fi is deref_f, site.fi is ref_f
    slot = site.kind == "store" and pstr.rstrip().endswith("]") and ((".qualifiers" in pstr and "citation" in pstr) or _is_citation_list(site, root))
    if site.kind == "store":
        from .roles import citation_private_helpers
        if id(site.fi) in citation_private_helpers(site.fi.module.program) and (slot or ("[" in pstr and pstr.rstrip().endswith("]"))):
            return "A1/A2 citation slot store in a helper only the citation rewrite runs (%s)" % site.fi.name
        from .roles import citation_value_stores
        callers = citation_value_stores(site.fi.module.program).get(id(site.fi))
        if callers is not None and callers and all(f is deref_f or f is ref_f for f in callers):
            return "A1/A2 citation slot store through the citation value object (called by %s only)" % ", ".join(sorted(f.name for f in callers))
    if is_deref and slot:
        return "A1 citation slot store (dereference)"
    if is_ref and slot:
        return "A2 citation slot store (re-reference)"
    from .roles import citation_private_helpers as _cph
    in_pair = is_ref or id(site.fi) in _cph(site.fi.module.program)
    if in_pair and site.kind == "call:setdefault" and ("annotations" in pstr or "annotations" in seg) and "'references'" in seg.replace('"', "'"):
        return "A3 annotations.setdefault('references', []) (explicitly tolerated: absent == empty)"
    if not in_pair and site.kind == "call:append":
        # a list-merging helper the re-reference function shares with others (merge(references, extra)): the guarded
        # append of the idiom, wherever it was factored out to
        from .roles import reach as _reach
        in_pair = any(g is site.fi for g in _reach(site.fi.module.program, ref_f))
    if site.kind == "call:append" and (is_ref and root == "references" or (not is_ref and in_pair and _is_reference_list(site, root))):
        return "A4 references.append(ref) guarded by 'ref not in references' (never fires for an input: its citations came from its own list)"
    return None


def _is_reference_list(site: Site, root: Optional[str]) -> bool:
    """in a helper of the citation pair: the local appended to is the reference list (named so, or taken from an
    attribute / annotation named references), and the append is guarded by a membership test of what is appended"""
    if not root:
        return False
    fn = site.fi.node
    named = "reference" in root.lower() or "known" in root.lower()
    for n in ast.walk(fn):
        if isinstance(n, ast.Assign) and any(isinstance(t, ast.Name) and t.id == root for t in n.targets):
            src = ast.unparse(n.value)
            if "references" in src:
                named = True
    if not named:
        return False
    if any(isinstance(n, ast.For) and any(isinstance(x, ast.Name) and x.id == root for x in ast.walk(n.iter)) for n in ast.walk(fn)):
        # a hand-written search of the list precedes the append; what it establishes is K13.append-once's business (the
        # helper is evaluated there as part of the re-reference function), as it is for an append written in that function
        return True
    guards = [n for n in ast.walk(fn) if isinstance(n, ast.Compare) and any(isinstance(op, (ast.In, ast.NotIn)) for op in n.ops)
              and any(isinstance(c, ast.Name) and c.id == root for c in n.comparators)]
    # ... or found out by the one-scan form: try: <root>.index(x) / except ValueError: <root>.append(x)
    for t in ast.walk(fn):
        if isinstance(t, ast.Try) and any(isinstance(c, ast.Call) and isinstance(c.func, ast.Attribute) and c.func.attr == "index"
                                          and isinstance(c.func.value, ast.Name) and c.func.value.id == root for b in t.body for c in ast.walk(b)):
            if any(h.type is not None and "ValueError" in ast.unparse(h.type) for h in t.handlers):
                guards.append(t)
    return bool(guards)


def _is_citation_list(site: Site, root: Optional[str]) -> bool:
    """the local `root` is bound (assignment or for target) to a feature's
    citation list, possibly handed out by a helper generator of the layer"""
    from .roles import touches_citation

    if not root:
        return False
    fi = site.fi
    p = fi.module.program
    for n in ast.walk(fi.node):
        src = None
        if isinstance(n, ast.Assign) and any(isinstance(t, ast.Name) and t.id == root for t in n.targets):
            src = n.value
        elif isinstance(n, (ast.For, ast.comprehension)) and any(isinstance(x, ast.Name) and x.id == root for x in ast.walk(n.target)):
            src = n.iter
        if src is None:
            continue
        if any(isinstance(c, ast.Constant) and c.value == "citation" for c in ast.walk(src)):
            return True
        for c in ast.walk(src):
            # a class-level / module-level getter object that names the qualifier (operator.methodcaller("get", "citation", ...))
            raw = None
            if isinstance(c, ast.Attribute) and isinstance(c.value, ast.Name) and c.value.id in ("self", "cls") and fi.owner is not None:
                raw = fi.owner.attrs.get(c.attr)
            elif isinstance(c, ast.Name):
                raw = fi.module.assigns.get(c.id)
            if isinstance(raw, ast.AST) and any(isinstance(x, ast.Constant) and x.value == "citation" for x in ast.walk(raw)):
                return True
        for c in ast.walk(src):
            if isinstance(c, ast.Call) and isinstance(c.func, (ast.Name, ast.Attribute)):
                g = None
                if isinstance(c.func, ast.Name):
                    g = p.resolve_expr(fi.module, c.func)
                elif isinstance(c.func.value, ast.Name) and c.func.value.id in ("self", "cls") and fi.owner is not None:
                    _, g = p.class_attr_def(fi.owner, c.func.attr)
                if isinstance(g, FuncInfo) and touches_citation(p, g, 1):
                    return True
    return False


def assembly_write_set(ctx, rule_prefix: str):
    """E5d from the assembly entry points: every mutation whose target is
    input-derived must be one of the citation idioms A1-A4."""
    p = ctx.program
    r = ctx.report
    eff = Effects(p)
    entry = p.get_func("moclo.core._assembly.AssemblyManager.assemble")
    entry2 = p.get_func("moclo.core.vectors.AbstractVector.assemble")
    init = p.get_func("moclo.core._assembly.AssemblyManager.__init__")
    sites = []
    for e in (entry, init):
        sites += eff.transitive_sites(e)
    for s in eff.local_sites(entry2):
        sites.append(s)
    seen = set()
    n_input = 0
    listing = []
    mgr_cls = entry.owner

    def through_properties(roots, depth=2):
        """self.<name> where <name> is a (cached) property of the manager: what the property hands out"""
        out = set()
        for x in roots:
            attr = x[5:].rstrip("*").split(".")[0].split("[")[0] if x.startswith("self.") else None
            _, raw = p.class_attr_def(mgr_cls, attr) if attr else (None, None)
            if isinstance(raw, FuncInfo) and raw.kind == "property" and depth > 0:
                got = eff.returns(raw)
                got = {(_starred(y) if x.endswith("*") else y) for y in got}
                out |= through_properties(got, depth - 1)
            else:
                out.add(x)
        return out

    for s in sites:
        key = (s.where, s.kind, s.text())
        s.roots = through_properties(s.roots)
        hits = sorted(x for x in s.roots if x.startswith(INPUT_ROOTS) or (x.startswith("param:") and s.fi in (entry2,)) )
        if s.fi is init:
            # the manager under construction: stores into self.<attr> are stores into the fresh manager
            root, path = s.path()
            if root == "self" and s.kind == "store" and len(path) == 1:
                continue
        if not hits:
            continue
        root0, _p0 = s.path()
        if s.fi.kind == "classmethod" and s.fi.node.args.args and root0 == s.fi.node.args.args[0].arg:
            continue  # a store on the class object (per-class state: the persistent-state rule of C06), not on an input
        if key in seen:
            continue
        seen.add(key)
        n_input += 1
        idiom = classify_input_write(s)
        listing.append("%s %s [%s] roots=%s" % (s.where, s.text(), idiom or "NOT ALLOWED", hits))
        r.ob(rule_prefix + ".input-write", "%s@%s" % (s.fi.qualname, _norm_stmt(s.text())), idiom is not None,
             "a record passed to assemble() is written to: `%s` (reaches %s%s); only the citation rewrite may touch an input"
             % (s.text(), ", ".join(hits), (" via " + s.via) if s.via else ""), s.where)
    r.analysed["input_write_sites"] = listing
    r.floor(rule_prefix + ".input-write", 2)  # the two citation slot stores; the list idioms (setdefault / append) may be spelled otherwise
    return eff, sites


def _norm_stmt(t: str) -> str:
    return re.sub(r"[^A-Za-z0-9_.\[\]=+]", "", t)[:60]


def _is_value_store(p, s: Site) -> bool:
    from .roles import citation_value_stores, citation_private_helpers
    return id(s.fi) in citation_value_stores(p) or (id(s.fi) in citation_private_helpers(p) and isinstance(s.target, ast.Subscript))


def _default_false(eff: "Effects", g: FuncInfo, e: ast.expr, depth: int) -> bool:
    """is the expression false when every option involved is left at its default?  A false constant, a parameter that
    defaults to something false (and is only ever passed such expressions), a local bound once to such an expression,
    `<option> == <constant other than its default>`."""
    if isinstance(e, ast.Constant):
        return not e.value
    a = g.node.args
    pos = a.posonlyargs + a.args
    defaults = {prm.arg: d for prm, d in list(zip(pos[len(pos) - len(a.defaults):], a.defaults)) + [(k, d) for k, d in zip(a.kwonlyargs, a.kw_defaults) if d is not None]}
    if isinstance(e, ast.Name):
        if e.id in defaults:
            d = defaults[e.id]
            return isinstance(d, ast.Constant) and not d.value and (depth <= 0 or _callers_pass_falsy(eff, g, e.id, depth - 1))
        binds = [n.value for n in ast.walk(g.node) if isinstance(n, ast.Assign) and len(n.targets) == 1 and isinstance(n.targets[0], ast.Name) and n.targets[0].id == e.id]
        return len(binds) == 1 and _default_false(eff, g, binds[0], depth)
    if isinstance(e, ast.Compare) and len(e.ops) == 1 and isinstance(e.ops[0], (ast.Eq, ast.Is)) and isinstance(e.comparators[0], ast.Constant):
        left = e.left
        dv = None
        if isinstance(left, ast.Name) and left.id in defaults and isinstance(defaults[left.id], ast.Constant):
            dv = ("v", defaults[left.id].value)
        elif isinstance(left, ast.Attribute) and isinstance(left.value, ast.Name) and g.owner is not None and pos and left.value.id == pos[0].arg:
            _, init = eff.p.class_attr_def(g.owner, "__init__")
            if isinstance(init, FuncInfo):
                ia = init.node.args
                ipos = ia.posonlyargs + ia.args
                idef = {prm.arg: d.value for prm, d in list(zip(ipos[len(ipos) - len(ia.defaults):], ia.defaults)) + [
                    (k, d) for k, d in zip(ia.kwonlyargs, ia.kw_defaults) if d is not None] if isinstance(d, ast.Constant)}
                for n in ast.walk(init.node):
                    if isinstance(n, ast.Assign) and any(isinstance(t, ast.Attribute) and t.attr == left.attr for t in n.targets):
                        names = [x.id for x in ast.walk(n.value) if isinstance(x, ast.Name) and x.id in idef]
                        if len(names) == 1:
                            dv = ("v", idef[names[0]])
        return dv is not None and dv[1] != e.comparators[0].value
    return False


def _callers_pass_falsy(eff: "Effects", fi: FuncInfo, param: str, depth: int) -> bool:
    """every call of fi in the code base that passes `param` passes something false by default"""
    a = fi.node.args
    positional = [x.arg for x in a.posonlyargs + a.args]
    bound = fi.owner is not None and fi.kind in ("method", "classmethod", "property")
    for g in eff.all_functions():
        for c in ast.walk(g.node):
            if not isinstance(c, ast.Call):
                continue
            f = c.func
            nm = f.attr if isinstance(f, ast.Attribute) else f.id if isinstance(f, ast.Name) else None
            if nm != fi.name:
                continue
            arg = next((k.value for k in c.keywords if k.arg == param), None)
            if arg is None and param in positional:
                j = positional.index(param) - (1 if (bound and isinstance(f, ast.Attribute)) else 0)
                if 0 <= j < len(c.args) and not any(isinstance(x, ast.Starred) for x in c.args[: j + 1]):
                    arg = c.args[j]
            if arg is not None and not _default_false(eff, g, arg, depth):
                return False
    return True


def _opt_in_guarded(eff: "Effects", fi: FuncInfo, node: ast.AST, depth: int = 2) -> Optional[str]:
    """the statement only runs when a parameter of its function that defaults to something false (flag=False, mode=None)
    was given a true value -- or its function is only ever called from such places: an opt-in path next to the existing
    behaviour.  Returns the flag's name."""
    parents: Dict[int, ast.AST] = {}
    for n in ast.walk(fi.node):
        for ch in ast.iter_child_nodes(n):
            parents[id(ch)] = n
    a = fi.node.args
    pos = a.posonlyargs + a.args
    falsy = {}
    for prm, d in list(zip(pos[len(pos) - len(a.defaults):], a.defaults)) + [(k, d) for k, d in zip(a.kwonlyargs, a.kw_defaults) if d is not None]:
        if isinstance(d, ast.Constant) and not d.value:
            falsy[prm.arg] = True
    def default_of(e: ast.expr):
        """(name, default constant) of a parameter, or of an instance attribute the constructor fills from a parameter
        (self.mode = check(mode) counts: the checker hands the value on or raises)"""
        if isinstance(e, ast.Name):
            for prm, d in list(zip(pos[len(pos) - len(a.defaults):], a.defaults)) + [(k, d) for k, d in zip(a.kwonlyargs, a.kw_defaults) if d is not None]:
                if prm.arg == e.id and isinstance(d, ast.Constant):
                    return e.id, d.value
        if isinstance(e, ast.Attribute) and isinstance(e.value, ast.Name) and fi.owner is not None and pos and e.value.id == pos[0].arg:
            _, init = eff.p.class_attr_def(fi.owner, "__init__")
            if isinstance(init, FuncInfo):
                ia = init.node.args
                ipos = ia.posonlyargs + ia.args
                idef = {prm.arg: d.value for prm, d in list(zip(ipos[len(ipos) - len(ia.defaults):], ia.defaults)) + [
                    (k, d) for k, d in zip(ia.kwonlyargs, ia.kw_defaults) if d is not None] if isinstance(d, ast.Constant)}
                for n in ast.walk(init.node):
                    if isinstance(n, ast.Assign) and any(isinstance(t, ast.Attribute) and t.attr == e.attr and isinstance(t.value, ast.Name) for t in n.targets):
                        names = [x.id for x in ast.walk(n.value) if isinstance(x, ast.Name) and x.id in idef]
                        if len(names) == 1:
                            return "%s.%s" % (e.value.id, e.attr), idef[names[0]]
        return None

    cur = node
    while id(cur) in parents:
        par = parents[id(cur)]
        if isinstance(par, ast.If) and cur in par.body:
            t = par.test
            if isinstance(t, ast.Compare) and len(t.ops) == 1 and isinstance(t.ops[0], (ast.Eq, ast.Is)) and isinstance(t.comparators[0], ast.Constant):
                d = default_of(t.left)
                if d is not None and d[1] != t.comparators[0].value:
                    return d[0]  # runs only for a value of the option other than its default
            if isinstance(t, ast.Name) and t.id in falsy and _callers_pass_falsy(eff, fi, t.id, depth):
                return t.id
            if isinstance(t, ast.Compare) and isinstance(t.left, ast.Name) and t.left.id in falsy and len(t.ops) == 1 \
                    and isinstance(t.ops[0], (ast.IsNot, ast.NotEq)) and isinstance(t.comparators[0], ast.Constant) and not t.comparators[0].value \
                    and _callers_pass_falsy(eff, fi, t.left.id, depth):
                return t.left.id
        cur = par
    if depth <= 0:
        return None
    # every call site of the function in the code base is on such a path
    flags = []
    seen = 0
    for g in eff.all_functions():
        for c in ast.walk(g.node):
            if isinstance(c, ast.Call):
                f = c.func
                nm = f.attr if isinstance(f, ast.Attribute) else f.id if isinstance(f, ast.Name) else None
                if nm == fi.name and g is not fi:
                    seen += 1
                    fl = _opt_in_guarded(eff, g, c, depth - 1)
                    if fl is None:
                        return None
                    flags.append("%s of %s" % (fl, g.name))
    return flags[0] if seen else None


def feature_writers(ctx, rule: str, eff: Effects, sites: List[Site]):
    """C08 (c): along the assembly path the only writer of a feature list is
    add_as_source (append) and the only writer of a qualifier is the citation
    rewrite."""
    r = ctx.report
    seen = set()
    for s in sites:
        root, path = s.path()
        pstr = effective_path(s)
        key = (s.where, s.kind)
        if key in seen:
            continue
        if ".features" in pstr and not ".qualifiers" in pstr:
            seen.add(key)
            from .roles import source_annotator
            ok = s.fi is source_annotator(eff.p) and s.kind == "call:append"
            if not ok:
                flag = _opt_in_guarded(eff, s.fi, s.node)
                if flag is not None:
                    raise AnalysisError("%s: the feature list is modified on a path that only runs when the option `%s` is switched on "
                                        "(`%s`); what that opt-in mode does to the inherited annotations is not decided here" % (s.where, flag, s.text()))
            r.ob(rule + ".feature-list-writer", "%s@%s" % (s.fi.qualname, _norm_stmt(s.text())), ok,
                 "the feature list of a record on the assembly path is modified outside add_as_source's append: `%s`" % s.text(), s.where)
        elif ".qualifiers" in pstr or (s.kind == "store" and _is_citation_list(s, root)) or (s.kind == "store" and _is_value_store(eff.p, s)):
            seen.add(key)
            ok = (classify_input_write(s) or "").startswith(("A1 citation slot store", "A2 citation slot store", "A1/A2 citation slot store"))
            if not ok:
                flag = _opt_in_guarded(eff, s.fi, s.node)
                if flag is not None:
                    raise AnalysisError("%s: a qualifier is modified on a path that only runs when the option `%s` is switched on (`%s`); "
                                        "what that opt-in mode does to the inherited annotations is not decided here" % (s.where, flag, s.text()))
            r.ob(rule + ".qualifier-writer", "%s@%s" % (s.fi.qualname, _norm_stmt(s.text())), ok,
                 "an inherited qualifier is modified outside the citation rewrite: `%s`" % s.text(), s.where)
    r.floor(rule + ".feature-list-writer", 1)
    r.floor(rule + ".qualifier-writer", 1)  # one shared slot store when the rewrite goes through a value object


# ---------------------------------------------------------------------------
# C06  persistent state / inheritable memo


def _names(e: ast.AST) -> Set[str]:
    return {n.id for n in ast.walk(e) if isinstance(n, ast.Name)}


def _bare_names(e: ast.AST) -> Set[str]:
    """names used as themselves (not only as the base of an attribute)"""
    out = set()
    attr_bases = {id(n.value) for n in ast.walk(e) if isinstance(n, ast.Attribute)}
    for n in ast.walk(e):
        if isinstance(n, ast.Name) and id(n) not in attr_bases:
            out.add(n.id)
    return out


def persistent_state_rule(ctx, rule: str, scope_modules=("moclo.core._structured", "moclo.core.modules", "moclo.core.vectors",
                                                         "moclo.core.parts", "moclo.regex", "moclo.record", "moclo.core._utils")):
    p = ctx.program
    r = ctx.report
    n_class_slots = 0
    fixture = _memo_fixture()
    # functions applied as class decorators (`@patch class C`, or the factory of one: `@embedding(BsaI) class C`): what they
    # store on the class they receive is stored once, when the class is created -- the class's own attribute (entered into
    # the class table by the folder, or the class is marked as not evaluated), not a memo written at call time
    class_decorators: Set[int] = set()
    for ci_ in p.all_classes():
        if ci_.node is None:
            continue
        for dec in ci_.node.decorator_list:
            target = dec.func if isinstance(dec, ast.Call) else dec
            try:
                g_ = p.resolve_expr(ci_.module, target)
            except Exception:
                g_ = None
            if isinstance(g_, FuncInfo):
                class_decorators.add(id(g_.node))
    for label, tree_funcs in (("repo", None), ("fixture", fixture)):
        funcs: List[Tuple[str, Optional[FuncInfo], ast.FunctionDef, Optional[str], str, object]] = []
        if tree_funcs is None:
            # the modules named at the pinned commit, and whatever module the typing code has been moved into since: every
            # module of the core package and the private modules next to regex.py / record.py (a digestion helper, a scanner)
            scope_now = list(scope_modules) + sorted(
                mn for mn in p.modules
                if mn not in scope_modules and mn != "moclo.core._assembly" and (mn.startswith("moclo.core.") or (mn.startswith("moclo._") and mn.count(".") == 1)))
            for mn in scope_now:
                m = p.modules.get(mn)
                if m is None:
                    # a helper module may be folded into another one; the modules that define the classes must exist
                    if mn in ("moclo.core._structured", "moclo.regex", "moclo.record"):
                        raise AnalysisError("anchor vanished: module %s" % mn)
                    continue
                for ci in m.classes.values():
                    for a, v in ci.attrs.items():
                        if isinstance(v, FuncInfo):
                            funcs.append((v.qualname, v, v.node, v.kind, v.where(), m))
                for v in m.functions.values():
                    funcs.append((v.qualname, v, v.node, "function", v.where(), m))
        else:
            funcs = tree_funcs
        for qn, fi, fn, kind, where, mod in funcs:
            params = [a.arg for a in fn.args.args]
            first = params[0] if params else None
            cls_like: Set[str] = set()
            if kind == "classmethod" and first:
                cls_like.add(first)
            if first and (fn.name in ("__new__", "__init_subclass__", "__class_getitem__") or first in ("cls", "klass", "mcs")):
                cls_like.add(first)  # implicitly receives the class
            # type(self) / self.__class__ aliases
            for node in ast.walk(fn):
                if isinstance(node, ast.Assign) and len(node.targets) == 1 and isinstance(node.targets[0], ast.Name):
                    if _is_type_of_self(node.value, first):
                        cls_like.add(node.targets[0].id)
            slot_writes = []
            for node in ast.walk(fn):
                tgts = []
                if isinstance(node, ast.Assign):
                    tgts = node.targets
                elif isinstance(node, ast.AugAssign):
                    tgts = [node.target]
                for t in tgts:
                    if isinstance(t, ast.Attribute) and _is_class_expr(t.value, cls_like, first, kind):
                        slot_writes.append((t.attr, node, "attr", t))
                    elif isinstance(t, ast.Subscript) and isinstance(t.value, ast.Attribute) and _is_class_expr(t.value.value, cls_like, first, kind):
                        slot_writes.append((t.value.attr, node, "keyed", t))
                    elif isinstance(t, ast.Subscript) and isinstance(t.value, ast.Attribute) and isinstance(t.value.value, ast.Name) \
                            and t.value.value.id == first and kind == "method" and fi is not None and fi.owner is not None \
                            and _class_level_container(p, fi.owner, t.value.attr):
                        # self.table[key] = value where `table` is a container made in a class body and never rebound on the
                        # instance: one table shared by every instance of the class *and of its subclasses*
                        slot_writes.append((t.value.attr, node, "keyed-shared", t))
                if isinstance(node, ast.Call) and isinstance(node.func, ast.Name) and node.func.id == "setattr" and node.args and _is_class_expr(node.args[0], cls_like, first, kind):
                    slot_writes.append(("<setattr>", node, "attr", None))
            for slot, node, how, tgt in slot_writes:
                if fn.name == "__init_subclass__" and how != "keyed":
                    continue  # runs once for every class when it is created: the class's own attribute, not a memo
                if id(fn) in class_decorators and how != "keyed" and kind == "function":
                    continue  # a class decorator: runs once on the finished class (see above)
                value = node.value if isinstance(node, (ast.Assign, ast.AugAssign)) else node
                deps = _names(value)
                inst_dep = kind != "classmethod" and first in deps and not _is_class_expr_only(value, first)
                if label == "repo":
                    n_class_slots += 1
                construct = "%s#%s" % (qn, slot)
                if how == "keyed-shared":
                    key = tgt.slice
                    ok, vd, kd = _keyed_ok(fn, mod, key, value)
                    # a value computed through self.<method>() depends on which class the instance is of (the method may be
                    # overridden): the key must name the instance's class as well
                    me_calls = [c for c in ast.walk(value) if isinstance(c, ast.Call) and isinstance(c.func, ast.Attribute)
                                and isinstance(c.func.value, ast.Name) and c.func.value.id == first]
                    overridden = [c.func.attr for c in me_calls if any(
                        isinstance(sub.attrs.get(c.func.attr), FuncInfo) for sub in p.subclasses(fi.owner))]
                    names_class = any(_is_type_of_self(x, first) for x in ast.walk(key)) or any(
                        isinstance(x, ast.Name) and x.id == first for x in ast.walk(key))
                    if overridden and not names_class:
                        ok = False
                        vd = set(vd) | {"type(%s)" % first}
                    _emit(r, label, rule + ".class-slot", construct, ok,
                          "a table made in the class body (`%s`, shared by every instance of the class and of its subclasses) is written at "
                          "call time under a key that does not name everything the value depends on (value computed from %s, key from %s)"
                          % (slot, sorted(vd), sorted(kd)), where, node)
                    continue
                if how == "keyed":
                    key = tgt.slice
                    ok, vd, kd = _keyed_ok(fn, mod, key, value)
                    _emit(r, label, rule + ".class-slot", construct, ok,
                          "class-level container written at call time is not keyed by everything its value depends on (value computed from %s, key from %s)"
                          % (sorted(vd), sorted(kd)), where, node)
                    continue
                if inst_dep:
                    _emit(r, label, rule + ".class-slot", construct, False,
                          "a result computed from one instance (%s) is stored on the class and outlives the call" % first, where, node)
                    continue
                # value depends on the class only: the slot must be read in the class's own namespace
                mro_reads = []
                for n2 in ast.walk(fn):
                    if isinstance(n2, (ast.If, ast.IfExp, ast.While)):
                        for n3 in ast.walk(n2.test):
                            if isinstance(n3, ast.Attribute) and n3.attr == slot and _is_class_expr(n3.value, cls_like, first, kind) and isinstance(n3.ctx, ast.Load):
                                mro_reads.append(n3)
                            if isinstance(n3, ast.Call) and isinstance(n3.func, ast.Name) and n3.func.id in ("getattr", "hasattr") and len(n3.args) >= 2 \
                                    and _is_class_expr(n3.args[0], cls_like, first, kind) and isinstance(n3.args[1], ast.Constant) and n3.args[1].value == slot:
                                mro_reads.append(n3)
                reset = _has_init_subclass_reset(p, fi, slot)  # every class is given its own slot when it is created
                own = _has_own_namespace_guard(fn, slot, cls_like, first, kind) or reset
                ok = own and (reset or not mro_reads)
                why = ("the guard reads `%s` through the MRO (a subclass sees its parent's value)" % slot) if mro_reads else \
                      ("the write of `%s` is not guarded by a read in the class's own namespace (cls.__dict__ / vars(cls))" % slot)
                _emit(r, label, rule + ".class-slot", construct, ok,
                      "per-class memo %s: %s" % (construct, why), where, node)
            # module-level mutable state written at call time
            gl = set()
            for node in ast.walk(fn):
                if isinstance(node, ast.Global):
                    gl |= set(node.names)
            local = set(params)
            for node in ast.walk(fn):
                if isinstance(node, ast.Assign):
                    for t in node.targets:
                        for n in ast.walk(t):
                            if isinstance(n, ast.Name) and isinstance(n.ctx, ast.Store):
                                local.add(n.id)
                if isinstance(node, (ast.For, ast.comprehension)):
                    for n in ast.walk(node.target):
                        if isinstance(n, ast.Name):
                            local.add(n.id)
            mod_assigns = mod.assigns if hasattr(mod, "assigns") else mod
            for node in ast.walk(fn):
                hit = None
                if isinstance(node, ast.Assign):
                    for t in node.targets:
                        if isinstance(t, ast.Name) and t.id in gl:
                            hit = (t.id, node, None, node.value)
                        if isinstance(t, ast.Subscript):
                            root, _ = chain_of(t.value)
                            if root and root not in local and root in mod_assigns:
                                hit = (root, node, t.slice, node.value)
                if isinstance(node, ast.Call) and isinstance(node.func, ast.Attribute) and node.func.attr in MUTATORS:
                    root, _ = chain_of(node.func.value)
                    if root and root not in local and root in mod_assigns:
                        key = node.args[0] if node.func.attr == "setdefault" and node.args else None
                        val = node.args[1] if node.func.attr == "setdefault" and len(node.args) > 1 else node
                        hit = (root, node, key, val)
                if hit:
                    name, nd, key, val = hit
                    if key is not None:
                        ok, vd, kd = _keyed_ok(fn, mod, key, val)
                        det = "module-level cache `%s` written at call time is not keyed by everything its value depends on (value computed from %s, key from %s)" % (
                            name, sorted(vd), sorted(kd))
                    elif isinstance(nd, ast.Call) and isinstance(nd.func, ast.Attribute) and nd.func.attr == "add" and len(nd.args) == 1:
                        # a set of inputs already dealt with (vetted enzymes): sound when every parameter the function's
                        # decisions read is part of what is recorded
                        tests = [t.test for t in ast.walk(fn) if isinstance(t, (ast.If, ast.IfExp, ast.While))]
                        import builtins
                        consts = _module_consts(mod) | set(dir(builtins))
                        decided = set()
                        for t in tests:
                            decided |= _param_deps(fn, t) - consts
                        kd = _param_deps(fn, nd.args[0]) - consts
                        ok = decided <= kd
                        det = "module-level set `%s` records %s but the function's decisions also read %s: a later call is skipped on too little" % (
                            name, sorted(kd), sorted(decided - kd))
                    else:
                        ok = False
                        det = "module-level state `%s` is modified at call time and outlives the call" % name
                    _emit(r, label, rule + ".module-state", "%s#%s" % (qn, name), ok, det, where, nd)
    r.analysed["class_level_slots_written_at_call_time"] = n_class_slots
    # an object of the code base created once and kept at class or module level (a default options object, a table
    # object) is shared by every call: its own methods must not write to it
    ctx.guard(shared_instance_rule, ctx, rule + ".shared-instance", scope_modules)
    # library memo decorators are persistent state too (the evaluators look through them)
    ctx.guard(memo_purity_rule, ctx, rule + ".memo-purity")
    # ... and so is what a descriptor class of the code base keeps on the class it is read from
    ctx.guard(descriptor_cache_rule, ctx, rule + ".class-slot")
    if n_class_slots < 1:
        # no cache at all is an accepted idiom, but then the anchor must say so
        from .roles import regex_getter

        gr = regex_getter(p)
        r.ob(rule + ".class-slot", gr.qualname + "#<none>", True, "", gr.where())
    if not getattr(r, "_fixture_fired", False):
        raise AnalysisError("the positive fixture of the persistent-state rule did not match: the rule is dead")
    # ... and what the class-level memo of the compiled pattern *does* over a history of calls (kernel K23)
    from .kernels4 import k23_own_pattern

    ctx.guard(k23_own_pattern, ctx, rule.rsplit(".", 1)[0] + ".K23.own-pattern-history")


def _pure_chain(e: ast.AST) -> bool:
    while isinstance(e, ast.Attribute):
        e = e.value
    return isinstance(e, ast.Name)


def _bare_key_names(key: ast.AST) -> Set[str]:
    """what a cache key contains *as the objects themselves*: the key, an element of a key tuple, id(<x>) or str(<x>) of
    one (text keys: what is formatted into the value is its str()), an attribute chain standing as an element
    (`cls.cutter`: the atom "cls.cutter").  A name that only occurs under a call or a subscript, or an attribute of it
    where the value uses the object itself, is a projection (cls.__name__, cutter.site) and does not count"""
    out: Set[str] = set()
    if isinstance(key, ast.Name):
        out.add(key.id)
    elif isinstance(key, ast.Attribute) and _pure_chain(key):
        out.add(ast.unparse(key))
    elif isinstance(key, (ast.Tuple, ast.List)):
        for x in key.elts:
            out |= _bare_key_names(x)
    elif isinstance(key, ast.Call) and isinstance(key.func, ast.Name) and key.func.id in ("id", "str") and len(key.args) == 1 and not key.keywords:
        out |= _bare_key_names(key.args[0])
    elif isinstance(key, ast.Starred):
        out |= _bare_key_names(key.value)
    return out


def _atoms_in(e: ast.AST, stop: Optional[Set[str]]) -> List[str]:
    """names an expression mentions; an attribute chain that is itself an atom of `stop` counts as that atom (the object
    it hangs on is then not mentioned by it)"""
    out: List[str] = []
    todo = [e]
    while todo:
        n = todo.pop()
        if stop and isinstance(n, ast.Attribute) and _pure_chain(n) and ast.unparse(n) in stop:
            out.append(ast.unparse(n))
            continue
        if isinstance(n, ast.Name):
            out.append(n.id)
            continue
        todo.extend(ast.iter_child_nodes(n))
    return out


def _param_deps(fn: ast.FunctionDef, e: ast.AST, _seen=None, stop: Optional[Set[str]] = None) -> Set[str]:
    """the names an expression depends on, locals replaced (transitively) by what they were computed from -- the values
    bound to them and the tests that choose between bindings: parameters, module-level names and builtins remain (atoms
    in `stop` are not looked through)"""
    params = {a.arg for a in fn.args.posonlyargs + fn.args.args + fn.args.kwonlyargs}
    if fn.args.vararg:
        params.add(fn.args.vararg.arg)
    if fn.args.kwarg:
        params.add(fn.args.kwarg.arg)
    binds: Dict[str, List[ast.AST]] = {}
    parents: Dict[int, ast.AST] = {}
    for n in ast.walk(fn):
        for ch in ast.iter_child_nodes(n):
            parents[id(ch)] = n

    def choosing_tests(node) -> List[ast.AST]:
        """tests of the if/while statements a binding sits in (in a branch, not in the test); a branch whose sibling only
        raises or returns does not choose between bindings, but counting its test errs on the safe side only when the
        test reads something the key lacks -- guards like `if x is None:` around the computation read the memo itself"""
        out = []
        cur = node
        while id(cur) in parents:
            par = parents[id(cur)]
            if isinstance(par, (ast.If, ast.While)) and cur is not par.test:
                out.append(par.test)
            if isinstance(par, ast.IfExp) and cur is not par.test:
                out.append(par.test)
            if par is fn:
                break
            cur = par
        return out

    multi: Dict[str, int] = {}
    for n in ast.walk(fn):
        if isinstance(n, ast.Assign):
            for t in n.targets:
                for x in ast.walk(t):
                    if isinstance(x, ast.Name) and isinstance(x.ctx, ast.Store):
                        binds.setdefault(x.id, []).append(n.value)
                        multi[x.id] = multi.get(x.id, 0) + 1
        elif isinstance(n, ast.AugAssign) and isinstance(n.target, ast.Name):
            binds.setdefault(n.target.id, []).append(n.value)
            multi[n.target.id] = multi.get(n.target.id, 0) + 1
        elif isinstance(n, (ast.For, ast.comprehension)):
            for x in ast.walk(n.target):
                if isinstance(x, ast.Name):
                    binds.setdefault(x.id, []).append(n.iter)
        elif isinstance(n, ast.NamedExpr):
            binds.setdefault(n.target.id, []).append(n.value)
        elif isinstance(n, ast.withitem) and n.optional_vars is not None:
            for x in ast.walk(n.optional_vars):
                if isinstance(x, ast.Name):
                    binds.setdefault(x.id, []).append(n.context_expr)
    # a name bound in several places: which binding reaches a use is chosen by the tests around them
    for n in ast.walk(fn):
        if isinstance(n, (ast.Assign, ast.AugAssign)):
            tgts = n.targets if isinstance(n, ast.Assign) else [n.target]
            for t in tgts:
                for x in ast.walk(t):
                    if isinstance(x, ast.Name) and isinstance(x.ctx, ast.Store) and multi.get(x.id, 0) > 1:
                        binds[x.id].extend(choosing_tests(n))
    out: Set[str] = set()
    seen = set() if _seen is None else _seen
    todo = _atoms_in(e, stop)
    while todo:
        nm = todo.pop()
        if nm in seen:
            continue
        seen.add(nm)
        if nm in params or nm not in binds or (stop and nm in stop):
            out.add(nm)
            continue
        for v in binds[nm]:
            todo.extend(_atoms_in(v, stop))
    return out


def _class_level_container(p, ci, attr: str) -> bool:
    """`attr` is bound in a class body on the MRO to a fresh container ({} / [] / set() / dict() ...) and no method of those
    classes rebinds it on the instance (self.attr = ...)"""
    found = False
    for c in p.mro(ci):
        if not isinstance(c, ClassInfo):
            continue
        raw = c.attrs.get(attr)
        if isinstance(raw, (ast.Dict, ast.List, ast.Set)) and not getattr(raw, "keys", getattr(raw, "elts", None)):
            found = True
        elif isinstance(raw, ast.Call) and not raw.args and not raw.keywords and ast.unparse(raw.func) in (
                "dict", "list", "set", "collections.OrderedDict", "OrderedDict", "collections.defaultdict", "weakref.WeakKeyDictionary", "weakref.WeakValueDictionary"):
            found = True
        for m in c.attrs.values():
            if isinstance(m, FuncInfo) and m.node.args.args:
                me = m.node.args.args[0].arg
                for n in ast.walk(m.node):
                    if isinstance(n, ast.Attribute) and n.attr == attr and isinstance(n.ctx, ast.Store) and isinstance(n.value, ast.Name) and n.value.id == me:
                        return False
    return found


def _keyed_ok(fn: ast.FunctionDef, mod, key: ast.AST, val: ast.AST) -> Tuple[bool, Set[str], Set[str]]:
    import builtins

    consts = _module_consts(mod) | set(dir(builtins)) | {"DNARegex", "re"}
    # the key must contain, as the objects themselves, everything the value is computed from; a local that is an element
    # of the key stands for itself (whatever it was derived from), a projection of a dependency (cls.__name__) does not
    kd = _bare_key_names(key)
    if isinstance(key, ast.Name):
        # key = <local>: what the local was bound to decides (a tuple of names is as good as the tuple itself)
        binds = [n.value for n in ast.walk(fn) if isinstance(n, ast.Assign) and len(n.targets) == 1 and isinstance(n.targets[0], ast.Name) and n.targets[0].id == key.id]
        if len(binds) == 1 and isinstance(binds[0], (ast.Tuple, ast.Name, ast.Attribute)):
            kd = kd | _bare_key_names(binds[0])
    vd = _param_deps(fn, val, stop=kd) - consts
    return vd <= kd, vd, kd


def _emit(r, label, rule, construct, ok, detail, where, node):
    if label == "fixture":
        if not ok:
            r._fixture_fired = True
        return
    r.ob(rule, construct, ok, detail, "%s" % where.rsplit(":", 1)[0] + ":%d" % node.lineno)


def _is_type_of_self(e, first) -> bool:
    if isinstance(e, ast.Call) and isinstance(e.func, ast.Name) and e.func.id == "type" and len(e.args) == 1 and isinstance(e.args[0], ast.Name) and e.args[0].id == first:
        return True
    if isinstance(e, ast.Attribute) and e.attr == "__class__" and isinstance(e.value, ast.Name) and e.value.id == first:
        return True
    return False


def _is_class_expr(e, cls_like, first, kind) -> bool:
    if isinstance(e, ast.Name) and e.id in cls_like:
        return True
    if kind != "classmethod" and _is_type_of_self(e, first):
        return True
    if isinstance(e, ast.Name) and e.id[:1].isupper() and e.id not in ("True", "False", "None"):
        return True  # ClassName.attr = ...
    return False


def _is_class_expr_only(value, first) -> bool:
    """value mentions ``self`` only through type(self)/self.__class__"""
    for n in ast.walk(value):
        if isinstance(n, ast.Name) and n.id == first:
            return False
    return True


def _has_own_namespace_guard(fn, slot, cls_like, first, kind) -> bool:
    """the slot is read in the class's own namespace somewhere in the
    function: cls.__dict__.get("slot") / "slot" in cls.__dict__ / vars(cls)["slot"]
    (possibly bound to a local that the guard then tests)"""
    for n in ast.walk(fn):
        if isinstance(n, (ast.Call, ast.Compare, ast.Subscript)):
            has_slot = any(isinstance(x, ast.Constant) and x.value == slot for x in ast.walk(n))
            if not has_slot:
                continue
            src = ast.dump(n)
            if "attr='__dict__'" in src or "id='vars'" in src:
                return True
    return False


def _has_init_subclass_reset(p, fi, slot) -> bool:
    if fi is None or fi.owner is None:
        return False
    for c in p.mro(fi.owner):
        if isinstance(c, ClassInfo):
            isub = c.attrs.get("__init_subclass__")
            if isinstance(isub, FuncInfo) and isub.node.args.args:
                me = isub.node.args.args[0].arg
                # the reset must reach every subclass: a statement of the function body itself, unconditional or guarded
                # only by "the class body did not bind the slot" (slot not in cls.__dict__ / vars(cls))
                for st in isub.node.body:
                    assigns = []
                    if isinstance(st, ast.Assign):
                        assigns = [st]
                    elif isinstance(st, ast.If) and not st.orelse and _own_namespace_test(st.test, slot, me):
                        assigns = [x for x in st.body if isinstance(x, ast.Assign)]
                    for a in assigns:
                        for t in a.targets:
                            if isinstance(t, ast.Attribute) and t.attr == slot and isinstance(t.value, ast.Name) and t.value.id == me \
                                    and isinstance(a.value, ast.Constant) and a.value.value is None:
                                # ... and reaches them only if no class below overrides __init_subclass__ without
                                # chaining to it
                                for d in p.all_classes():
                                    if d is c or d.synthetic or not p.is_subclass(d, c):
                                        continue
                                    other = d.attrs.get("__init_subclass__")
                                    if isinstance(other, FuncInfo) and not any(
                                            isinstance(x, ast.Call) and isinstance(x.func, ast.Attribute) and x.func.attr == "__init_subclass__"
                                            and isinstance(x.func.value, ast.Call) and isinstance(x.func.value.func, ast.Name) and x.func.value.func.id == "super"
                                            for x in ast.walk(other.node)):
                                        return False
                                return True
    return False


def _own_namespace_test(test: ast.expr, slot: str, me: str) -> bool:
    """`"slot" not in cls.__dict__` / `"slot" not in vars(cls)`"""
    if not (isinstance(test, ast.Compare) and len(test.ops) == 1 and isinstance(test.ops[0], ast.NotIn)):
        return False
    if not (isinstance(test.left, ast.Constant) and test.left.value == slot):
        return False
    c = test.comparators[0]
    if isinstance(c, ast.Attribute) and c.attr == "__dict__" and isinstance(c.value, ast.Name) and c.value.id == me:
        return True
    return isinstance(c, ast.Call) and isinstance(c.func, ast.Name) and c.func.id == "vars" and len(c.args) == 1 \
        and isinstance(c.args[0], ast.Name) and c.args[0].id == me


def shared_instance_rule(ctx, rule: str, scope_modules):
    """`_options = SearchOptions()` in a class body, `DEFAULT = Options()` at module level: one object for the whole
    process.  A method of its class (other than the constructor) that assigns one of its attributes, or fills a container
    it holds, changes what every later call sees -- the first record typed decides for the rest."""
    p = ctx.program
    r = ctx.report
    shared = []  # (where it is kept, class of the object)
    for mn in scope_modules:
        m = p.modules.get(mn)
        if m is None:
            continue
        holders = [("%s.%s" % (mn, k), v) for k, v in m.assigns.items()]
        for ci in m.classes.values():
            holders += [("%s.%s" % (ci.qualname, k), v) for k, v in ci.attrs.items() if isinstance(v, ast.AST)]
        for where, v in holders:
            if isinstance(v, ast.Call) and isinstance(v.func, (ast.Name, ast.Attribute)):
                try:
                    c = p.resolve_expr(m, v.func)
                except Exception:
                    c = None
                if isinstance(c, ClassInfo) and c.module is not None and c.module.name.startswith("moclo") and not any(
                        isinstance(b, Ext) and b.dotted not in ("builtins.object",) for b in p.mro(c)):
                    shared.append((where, c))
    for where, c in shared:
        bad = []
        for cc in p.mro(c):
            if not isinstance(cc, ClassInfo):
                continue
            for name, raw in cc.attrs.items():
                if not isinstance(raw, FuncInfo) or name in ("__init__", "__new__", "__set_name__") or not raw.node.args.args or raw.kind in ("classmethod", "staticmethod"):
                    continue
                me = raw.node.args.args[0].arg
                for n in ast.walk(raw.node):
                    tgts = n.targets if isinstance(n, ast.Assign) else [n.target] if isinstance(n, (ast.AugAssign, ast.AnnAssign)) else []
                    for t in tgts:
                        for tt in (t.elts if isinstance(t, (ast.Tuple, ast.List)) else [t]):
                            root, path = chain_of(tt) if isinstance(tt, (ast.Attribute, ast.Subscript)) else (None, [])
                            if root == me and path:
                                bad.append((raw, n))
                    if isinstance(n, ast.Call) and isinstance(n.func, ast.Attribute) and n.func.attr in MUTATORS:
                        root, path = chain_of(n.func.value)
                        if root == me and path:
                            bad.append((raw, n))
        r.ob(rule, "%s#%s" % (where, c.name), not bad,
             "%s keeps one %s for the whole process, and %s writes to it (`%s`): what one call leaves there decides the next" % (
                 where, c.name, bad[0][0].qualname if bad else "", re.sub(r"\s+", " ", ast.unparse(bad[0][1]))[:70] if bad else ""),
             (bad[0][0].where() if bad else c.where()))
    r.analysed["shared_instances"] = [w for w, _c in shared]


def descriptor_cache_rule(ctx, rule: str):
    """A descriptor class of the code base that computes a value from the class it is read on and keeps it on that class
    (`setattr(owner, slot, value)`): the kept value must be looked up in the class's own namespace (vars(owner) /
    owner.__dict__) -- through getattr / hasattr / owner.<slot> a subclass finds its parent's value and never computes
    its own."""
    from .loader import descriptor_kind

    p = ctx.program
    r = ctx.report
    used = set()
    for m in p.modules.values():
        for ci in m.classes.values():
            for raw in ci.attrs.values():
                for q, k in (getattr(raw, "descriptor_kinds", None) or []) if isinstance(raw, FuncInfo) else []:
                    if k == "class-level-cached":
                        used.add(q)
    for q in sorted(used):
        ci = p.get_class(q)
        _, get = p.class_attr_def(ci, "__get__")
        ga = [a.arg for a in get.node.args.posonlyargs + get.node.args.args]
        owner = ga[2] if len(ga) > 2 else None
        own_reads, mro_reads = [], []
        for n in ast.walk(get.node):
            if isinstance(n, ast.Call) and isinstance(n.func, ast.Name) and n.func.id in ("getattr", "hasattr") and n.args \
                    and isinstance(n.args[0], ast.Name) and n.args[0].id == owner:
                mro_reads.append(n)
            if isinstance(n, ast.Call) and isinstance(n.func, ast.Name) and n.func.id == "vars" and n.args and isinstance(n.args[0], ast.Name) and n.args[0].id == owner:
                own_reads.append(n)
            if isinstance(n, ast.Attribute) and n.attr == "__dict__" and isinstance(n.value, ast.Name) and n.value.id == owner:
                own_reads.append(n)
            if isinstance(n, ast.Attribute) and isinstance(n.value, ast.Name) and n.value.id == owner and isinstance(n.ctx, ast.Load) \
                    and n.attr not in ("__dict__", "__name__", "__qualname__", "__module__", "__mro__"):
                mro_reads.append(n)
        if mro_reads:
            r.ob(rule, "%s.__get__#kept-value" % q, False,
                 "the value %s keeps on the class is looked up through the MRO (`%s`): a subclass read after its parent gets the parent's "
                 "value and never computes its own" % (q, ast.unparse(mro_reads[0])[:60]), get.where())
        elif own_reads:
            r.ob(rule, "%s.__get__#kept-value" % q, True, "", get.where())
        else:
            raise AnalysisError("%s: how %s finds the value it keeps on the class is not recognised" % (get.where(), q))


def memo_purity_rule(ctx, rule: str):
    """functools.lru_cache / functools.cache on a function of the code base: the evaluators treat the decorated function as
    if it were called afresh, which is sound when (1) its result is a function of its arguments -- besides them it reads
    only constants (module-level names nobody rebinds or fills at call time, class attributes of an argument), (2) the
    arguments are compared by what they are (a class, an enzyme, a text: not `self` of a record wrapper, whose state the
    first call would freeze), and (3) what it returns cannot be changed by one caller under the feet of the next (text,
    number, tuple, frozenset, compiled pattern).  A mutable result or a dependence on call-time state is the violation; a
    shape not recognised is left undecided."""
    p = ctx.program
    r = ctx.report
    from .decorators import LIB_MEMO

    written_globals: Dict[str, Set[str]] = {}
    for mn, m in p.modules.items():
        if not mn.startswith("moclo"):
            continue
        names = set(m.assigns)
        for f in list(m.functions.values()) + [v for ci in m.classes.values() for v in ci.attrs.values() if isinstance(v, FuncInfo)]:
            for n in ast.walk(f.node):
                if isinstance(n, ast.Global):
                    written_globals.setdefault(mn, set()).update(n.names)
                tgts = n.targets if isinstance(n, ast.Assign) else [n.target] if isinstance(n, ast.AugAssign) else []
                for t in tgts:
                    if isinstance(t, ast.Subscript):
                        root, _ = chain_of(t.value)
                        if root in names:
                            written_globals.setdefault(mn, set()).add(root)
                if isinstance(n, ast.Call) and isinstance(n.func, ast.Attribute) and n.func.attr in MUTATORS:
                    root, _ = chain_of(n.func.value)
                    if root in names:
                        written_globals.setdefault(mn, set()).add(root)
    n_memo = 0
    for mn, m in sorted(p.modules.items()):
        if not mn.startswith("moclo"):
            continue
        for f in list(m.functions.values()) + [v for ci in m.classes.values() for v in ci.attrs.values() if isinstance(v, FuncInfo)]:
            memo = False
            for d in f.node.decorator_list:
                try:
                    dv = p.resolve_expr(m, d.func if isinstance(d, ast.Call) else d)
                except Exception:
                    dv = None
                if isinstance(dv, Ext) and dv.dotted in LIB_MEMO:
                    memo = True
            if not memo:
                continue
            n_memo += 1
            params = [a.arg for a in f.node.args.posonlyargs + f.node.args.args + f.node.args.kwonlyargs]
            if f.owner is not None and f.kind in ("method", "property"):
                raise AnalysisError("%s: %s memoises a method on its instance; whether the instance's state can change between calls "
                                    "is not decided by the memo-purity rule" % (f.where(), f.qualname))
            local = set(params)
            for n in ast.walk(f.node):
                if isinstance(n, ast.Name) and isinstance(n.ctx, ast.Store):
                    local.add(n.id)
            stale = sorted({n.id for n in ast.walk(f.node) if isinstance(n, ast.Name) and isinstance(n.ctx, ast.Load) and n.id not in local
                            and n.id in written_globals.get(mn, set())})
            r.ob(rule, f.qualname + "#inputs", not stale,
                 "%s is memoised on its arguments but also reads %s, which the module changes at call time: a later call is answered "
                 "with what an earlier state gave" % (f.qualname, ", ".join(stale)), f.where())

            def immutable(e, depth=3) -> Optional[bool]:
                if isinstance(e, (ast.Constant, ast.JoinedStr, ast.Compare)):
                    return True  # (a comparison gives a truth value)
                if isinstance(e, ast.UnaryOp) and isinstance(e.op, ast.Not):
                    return True
                if isinstance(e, ast.BoolOp):
                    rs = [immutable(x, depth) for x in e.values]
                    return False if False in rs else (None if None in rs else True)
                if isinstance(e, ast.Tuple):
                    rs = [immutable(x, depth) for x in e.elts]
                    return False if False in rs else (None if None in rs else True)
                if isinstance(e, (ast.List, ast.Dict, ast.Set, ast.ListComp, ast.DictComp, ast.SetComp)):
                    return False
                if isinstance(e, ast.BinOp):
                    a_, b_ = immutable(e.left, depth), immutable(e.right, depth)
                    return True if (a_ and b_) else (False if (a_ is False or b_ is False) else None)
                if isinstance(e, ast.IfExp):
                    a_, b_ = immutable(e.body, depth), immutable(e.orelse, depth)
                    return True if (a_ and b_) else (False if (a_ is False or b_ is False) else None)
                if isinstance(e, ast.Call):
                    fn_ = ast.unparse(e.func)
                    if fn_ in ("str", "int", "len", "tuple", "frozenset", "bool", "float", "repr", "re.compile", "DNARegex", "format") or fn_.endswith(
                            (".join", ".format", ".replace", ".upper", ".lower", ".translate", ".elucidate", ".strip", ".reverse_complement")):
                        return True
                    if fn_ in ("list", "dict", "set", "sorted", "collections.OrderedDict", "OrderedDict", "bytearray"):
                        return False
                    return None
                if isinstance(e, ast.Name) and depth > 0:
                    binds = [n.value for n in ast.walk(f.node) if isinstance(n, ast.Assign) and any(isinstance(t, ast.Name) and t.id == e.id for t in n.targets)]
                    if binds:
                        rs = [immutable(b, depth - 1) for b in binds]
                        return False if False in rs else (None if None in rs else True)
                    unpack = [n for n in ast.walk(f.node) if isinstance(n, ast.Assign) and any(isinstance(t, (ast.Tuple, ast.List)) and any(
                        isinstance(x, ast.Name) and x.id == e.id for x in t.elts) for t in n.targets)]
                    return None
                return None

            rets = [n.value for n in _own_nodes_of(f.node) if isinstance(n, ast.Return) and n.value is not None]
            verdicts = [immutable(v) for v in rets]
            if False in verdicts:
                bad = rets[verdicts.index(False)]
                r.ob(rule, f.qualname + "#result", False,
                     "%s hands every caller the same mutable object (`%s`): what one caller changes, the next one gets" % (f.qualname, ast.unparse(bad)[:80]), f.where())
            elif None in verdicts or not rets:
                raise AnalysisError("%s: whether what the memoised %s returns (`%s`) can be modified by a caller is not recognised"
                                    % (f.where(), f.qualname, ast.unparse(rets[verdicts.index(None)])[:80] if rets else "nothing"))
            else:
                r.ob(rule, f.qualname + "#result", True, "", f.where())
    r.analysed["memoised_functions"] = n_memo


def _own_nodes_of(fn):
    stack = list(fn.body)
    while stack:
        n = stack.pop()
        yield n
        if isinstance(n, (ast.FunctionDef, ast.AsyncFunctionDef, ast.Lambda, ast.ClassDef)):
            continue
        stack.extend(ast.iter_child_nodes(n))


def _module_consts(mod) -> Set[str]:
    names = set(getattr(mod, "bindings", {}) or {}) | set(getattr(mod, "assigns", {}) or {})
    return names | {"True", "False", "None", "str", "len", "tuple"}


_FIXTURE_SRC = '''
_CACHE = {}
class Fixture(object):
    _regex = None
    @classmethod
    def inherited(cls):
        if cls._regex is None:
            cls._regex = DNARegex(cls.structure())
        return cls._regex
    def per_instance(self):
        type(self)._last = self.record
    @classmethod
    def by_role(cls, role):
        _CACHE[role] = DNARegex(cls.structure())
'''


def _memo_fixture():
    tree = ast.parse(_FIXTURE_SRC)
    cls = [n for n in tree.body if isinstance(n, ast.ClassDef)][0]
    out = []
    for fn in cls.body:
        if isinstance(fn, ast.FunctionDef):
            kind = "classmethod" if any(isinstance(d, ast.Name) and d.id == "classmethod" for d in fn.decorator_list) else "method"
            out.append(("fixture.%s" % fn.name, None, fn, kind, "<fixture>:%d" % fn.lineno, {"_CACHE": None}))
    return out


# ---------------------------------------------------------------------------
# C17  raise inventory, builtin-method lint


def exc_class_of(p: Program, fi: FuncInfo, node: ast.Raise, _depth: int = 0):
    e = node.exc
    if e is None:
        return "re-raise"
    if isinstance(e, ast.Call):
        f = e.func
        # six.raise_from(X(...), None)
        if isinstance(f, ast.Attribute) and f.attr == "raise_from" and e.args:
            inner = e.args[0]
            e = inner
            f = inner.func if isinstance(inner, ast.Call) else inner
        # raise self._mismatch(...) / raise _mismatch(...): an error factory -- what its returns construct
        g = None
        if isinstance(f, ast.Attribute) and isinstance(f.value, ast.Name) and fi.node.args.args and f.value.id == fi.node.args.args[0].arg and fi.owner is not None:
            _, g = p.class_attr_def(fi.owner, f.attr)
        elif isinstance(f, ast.Name):
            g = p.resolve_expr(fi.module, f)
        if isinstance(g, FuncInfo) and _depth < 3:
            made = []
            for n in ast.walk(g.node):
                if isinstance(n, ast.Return) and n.value is not None:
                    fake = ast.Raise(exc=n.value, cause=None)
                    made.append(exc_class_of(p, g, fake, _depth + 1))
            classes = [c for c in made if isinstance(c, ClassInfo)]
            if made and len(classes) == len(made):
                # the least specific of what the factory may build decides
                for c in classes:
                    if all(p.is_subclass(d, c) for d in classes):
                        return c
                return classes[0]
            return made[0] if made else None
        r = p.resolve_expr(fi.module, f)
        return r
    return p.resolve_expr(fi.module, e)


def is_moclo_error(p: Program, r, base="moclo.errors.MocloError") -> bool:
    return isinstance(r, ClassInfo) and p.is_subclass(r, p.get_class(base))


def raise_inventory(ctx, rule: str):
    """Every explicit raise in the resolved _match implementations (and the
    helpers defined next to them) is an InvalidSequence; is_valid catches
    that base."""
    p = ctx.program
    r = ctx.report
    seen = set()
    match_funcs = []
    for kc in ctx.inventory:
        if not kc.concrete:
            continue
        ci = kc.ci
        from .roles import match_call_tree

        for raw in match_call_tree(p, ci):
            if id(raw) not in seen:
                seen.add(id(raw))
                match_funcs.append(raw)
    if len(match_funcs) < 1:
        raise AnalysisError("anchor vanished: no _match implementation on the MRO of the kit classes")
    inv_seq = p.get_class("moclo.errors.InvalidSequence")
    for fi in match_funcs:
        for node in ast.walk(fi.node):
            if isinstance(node, ast.Raise):
                cls = exc_class_of(p, fi, node)
                ok = isinstance(cls, ClassInfo) and p.is_subclass(cls, inv_seq)
                r.ob(rule + ".match-raises", "%s@%s" % (fi.qualname, _norm_stmt(fi.module.segment(node))), ok,
                     "an invalid record must surface as InvalidSequence (is_valid turns exactly that into False); this raises %s"
                     % (cls.qualname if isinstance(cls, ClassInfo) else cls), "%s:%d" % (fi.module.relpath, node.lineno))
    r.floor(rule + ".match-raises", 1)  # the structure mismatch; the illegal-site screen may share a helper
    # is_valid's handler
    iv = p.get_func("moclo.core._structured.StructuredRecord.is_valid")
    handlers = [h for n in ast.walk(iv.node) if isinstance(n, ast.Try) for h in n.handlers]
    ok = False
    det = "is_valid has no exception handler around the match"
    for h in handlers:
        if h.type is None:
            ok = True
            continue
        types = h.type.elts if isinstance(h.type, ast.Tuple) else [h.type]
        for t in types:
            cls = p.resolve_expr(iv.module, t)
            if isinstance(cls, ClassInfo) and p.is_subclass(inv_seq, cls):
                ok = True
            elif isinstance(cls, Ext) and cls.dotted in ("builtins.ValueError", "builtins.Exception", "builtins.BaseException"):
                ok = True
            else:
                det = "is_valid only catches %s, which does not cover every InvalidSequence" % (cls.qualname if isinstance(cls, ClassInfo) else cls,)
        returns_false = any(isinstance(s, ast.Return) and isinstance(s.value, ast.Constant) and s.value.value is False for s in h.body)
        if not returns_false:
            ok = False
            det = "the handler in is_valid does not return False"
        extra = [s for s in h.body if not isinstance(s, (ast.Return, ast.Pass)) and not (isinstance(s, ast.Expr) and isinstance(s.value, ast.Constant))]
        if extra:
            ok = False
            det = "the handler in is_valid does more than return False: `%s`" % re.sub(r"\s+", " ", iv.module.segment(extra[0]) or "")[:80]
    if not handlers:
        # with contextlib.suppress(<covering class>): <read the match>; return True  -- then return False
        for n in iv.node.body:
            if isinstance(n, ast.With) and len(n.items) == 1 and isinstance(n.items[0].context_expr, ast.Call) \
                    and ast.unparse(n.items[0].context_expr.func) in ("contextlib.suppress", "suppress"):
                covered = False
                for t in n.items[0].context_expr.args:
                    cls = p.resolve_expr(iv.module, t)
                    if (isinstance(cls, ClassInfo) and p.is_subclass(inv_seq, cls)) or (
                            isinstance(cls, Ext) and cls.dotted in ("builtins.ValueError", "builtins.Exception", "builtins.BaseException")):
                        covered = True
                tail = iv.node.body[iv.node.body.index(n) + 1:]
                falls_false = len(tail) == 1 and isinstance(tail[0], ast.Return) and isinstance(tail[0].value, ast.Constant) and tail[0].value.value is False
                ok = covered and falls_false
                det = "is_valid suppresses %s and then %s" % ("InvalidSequence" if covered else "a class that does not cover InvalidSequence",
                                                               "returns False" if falls_false else "does not simply return False")
    r.ob(rule + ".is-valid-handler", iv.qualname, ok, det, iv.where())
    # no is_valid override in kits that bypasses it
    for kc in ctx.inventory:
        o, raw = p.class_attr_def(kc.ci, "is_valid")
        if raw is not iv:
            r.ob(rule + ".is-valid-handler", kc.name + ".is_valid", False, "is_valid is overridden outside StructuredRecord", kc.ci.where())


def call_arity_rule(ctx, rule: str, scope=("moclo.core", "moclo.regex", "moclo.record", "moclo.errors", "moclo.registry.base")):
    """Every construction of a repo class (exceptions above all) binds to the
    signature of the __init__ it resolves to: a missing or surplus argument is
    a TypeError at the very moment the error should have been reported."""
    p = ctx.program
    r = ctx.report
    n = 0
    for mn, m in sorted(p.modules.items()):
        if not any(mn == s or mn.startswith(s + ".") for s in scope):
            continue
        funcs = list(m.functions.values())
        for ci in m.classes.values():
            funcs += [v for v in ci.attrs.values() if isinstance(v, FuncInfo)]
        for fi in funcs:
            for node in ast.walk(fi.node):
                if not isinstance(node, ast.Call):
                    continue
                if isinstance(node.func, ast.Name) and node.func.id in [a.arg for a in fi.node.args.args]:
                    continue
                root, _ = chain_of(node.func)
                if root in [a.arg for a in fi.node.args.args]:
                    continue
                tgt = p.resolve_expr(fi.module, node.func) if isinstance(node.func, (ast.Name, ast.Attribute)) else None
                if not isinstance(tgt, ClassInfo):
                    continue
                owner, init = p.class_attr_def(tgt, "__init__")
                if not isinstance(init, FuncInfo):
                    continue
                if any(isinstance(a, ast.Starred) for a in node.args) or any(k.arg is None for k in node.keywords):
                    continue
                a = init.node.args
                params = [x.arg for x in a.posonlyargs + a.args][1:]
                ndef = len(a.defaults)
                required = params[: len(params) - ndef] if ndef else list(params)
                kwonly_req = [k.arg for k, d in zip(a.kwonlyargs, a.kw_defaults) if d is None]
                given_kw = {k.arg for k in node.keywords}
                npos = len(node.args)
                why = None
                if npos > len(params) and a.vararg is None:
                    why = "%d positional argument(s) for %d parameter(s)" % (npos, len(params))
                missing = [q for i, q in enumerate(required) if i >= npos and q not in given_kw] + [q for q in kwonly_req if q not in given_kw]
                if missing and why is None:
                    why = "missing required argument(s) %s" % missing
                unknown = [k for k in given_kw if k not in params and k not in [x.arg for x in a.kwonlyargs] and a.kwarg is None]
                if unknown and why is None:
                    why = "unexpected keyword(s) %s" % unknown
                n += 1
                r.ob(rule, "%s@%s" % (fi.qualname, _norm_stmt(fi.module.segment(node))), why is None,
                     "`%s` does not fit %s%s: %s (TypeError at run time)" % (re.sub(r"\s+", " ", fi.module.segment(node) or "")[:80], init.qualname,
                                                                           ast.unparse(init.node.args) and "(" + ast.unparse(init.node.args) + ")", why),
                     "%s:%d" % (m.relpath, node.lineno))
    r.analysed["repo_class_constructions_checked"] = n
    r.floor(rule, 8)


def match_slot_rule(ctx, rule: str):
    """The cached structure match: (1) nobody assigns the `_match` slot -- a
    memoised None or stale value is later dereferenced by the accessors;
    (2) a `_match` that chains to super()._match must be cached per descriptor
    (property_cached) or not at all: functools.cached_property stores under the
    attribute *name* in the instance dict, so the base class's value is cached
    before the subclass's screen runs and the second access skips the screen."""
    p = ctx.program
    r = ctx.report
    from .roles import match_slot

    MATCH = match_slot(p)
    n = 0
    for mn, m in sorted(p.modules.items()):
        if not mn.startswith("moclo.core") and not mn.startswith("moclo.kits"):
            continue
        for node in ast.walk(m.tree):
            tgts = []
            if isinstance(node, ast.Assign):
                tgts = node.targets
            elif isinstance(node, (ast.AugAssign, ast.AnnAssign)):
                tgts = [node.target]
            elif isinstance(node, ast.Delete):
                tgts = node.targets
            for t in tgts:
                if isinstance(t, ast.Attribute) and t.attr == MATCH:
                    r.ob(rule + ".slot-store", "%s@%s" % (mn, _norm_stmt(m.segment(node))), False,
                         "`%s` writes the cached match slot: the accessors read self._match and expect a match or InvalidSequence, nothing else" % re.sub(r"\s+", " ", m.segment(node) or "")[:80],
                         "%s:%d" % (m.relpath, node.lineno))
            if isinstance(node, ast.Call) and isinstance(node.func, ast.Name) and node.func.id == "setattr" and len(node.args) >= 2 \
                    and isinstance(node.args[1], ast.Constant) and node.args[1].value == MATCH:
                r.ob(rule + ".slot-store", "%s@setattr" % mn, False, "setattr(..., '_match', ...) writes the cached match slot", "%s:%d" % (m.relpath, node.lineno))
    from .loader import descriptor_kind

    def kind_of(raw: FuncInfo):
        """(names of the decorators, how the value is kept: 'per-descriptor-instance' | 'name-keyed-instance' | 'uncached-instance' | None)"""
        names, kinds = [], []
        for d in raw.node.decorator_list:
            b = p.resolve_expr(raw.module, d.func if isinstance(d, ast.Call) else d)
            nm = b.dotted if isinstance(b, Ext) else getattr(b, "qualname", repr(b))
            names.append(nm)
            if isinstance(b, Ext):
                kinds.append({"property_cached.cached_property": "per-descriptor-instance", "builtins.property": "uncached-instance",
                              "functools.cached_property": "name-keyed-instance"}.get(b.dotted))
            elif isinstance(b, ClassInfo):
                kinds.append(descriptor_kind(p, b))
            else:
                kinds.append(None)
        return names, (kinds[0] if len(kinds) == 1 else None)

    for ci in p.all_classes():
        raw = ci.attrs.get(MATCH)
        if not isinstance(raw, FuncInfo):
            continue
        n += 1
        names, kind = kind_of(raw)
        # an override that reads super()._match: when the definition it reaches keeps its value in the instance dict under
        # the *name* `_match` (functools.cached_property and its look-alikes), the base class's match is stored before the
        # override's own checks have run, and once they have raised every later access finds that stored, unscreened match
        chains = any(isinstance(x, ast.Attribute) and x.attr == MATCH and isinstance(x.value, ast.Call) and isinstance(x.value.func, ast.Name) and x.value.func.id == "super"
                     for x in ast.walk(raw.node))
        reached, rkind, rnames = None, None, []
        if chains:
            o2, above = p.class_attr_def(ci, MATCH, after=ci)
            if isinstance(above, FuncInfo):
                reached = above
                rnames, rkind = kind_of(above)
        ok = not (chains and rkind == "name-keyed-instance")
        r.ob(rule + ".descriptor-kind", raw.qualname, ok,
             "%s reads super()._match and reaches %s, which is cached with %s: that decorator stores the value in the instance dict under the name `_match`, so the base class's match is cached before the subclass's illegal-site screen runs and a second access returns it unscreened"
             % (raw.qualname, reached.qualname if reached else "?", rnames), raw.where())
        if kind is None:
            raise AnalysisError("%s: _match is decorated with %s; how that decorator keeps the value (per instance and descriptor, per instance and "
                                "name, not at all) is not recognised" % (raw.where(), names))
        r.ob(rule + ".descriptor-kind", raw.qualname + "#known", kind in ("per-descriptor-instance", "uncached-instance", "name-keyed-instance"),
             "_match is decorated with %s (%s)" % (names, kind), raw.where())
    r.floor(rule + ".descriptor-kind", 2)  # the base class's _match; overrides may legitimately come and go


BUILTIN_TYPES = {"list": list, "dict": dict, "str": str, "tuple": tuple, "set": set}


def _literal_type(e: ast.expr) -> Optional[str]:
    if isinstance(e, ast.List) or isinstance(e, ast.ListComp):
        return "list"
    if isinstance(e, (ast.Dict, ast.DictComp)):
        return "dict"
    if isinstance(e, ast.Tuple):
        return "tuple"
    if isinstance(e, (ast.Set, ast.SetComp)):
        return "set"
    if isinstance(e, ast.Constant) and isinstance(e.value, str):
        return "str"
    if isinstance(e, ast.JoinedStr):
        return "str"
    if isinstance(e, ast.Call):
        f = e.func
        if isinstance(f, ast.Name) and f.id in BUILTIN_TYPES and f.id != "str":
            return f.id
        if isinstance(f, ast.Attribute) and f.attr in ("setdefault", "get") and len(e.args) == 2:
            return _literal_type(e.args[1])
        if isinstance(f, ast.Attribute) and f.attr in ("format", "join") and isinstance(f.value, ast.Constant) and isinstance(f.value.value, str):
            return "str"
    return None


def builtin_method_lint(ctx, rule: str, scope=("moclo.core", "moclo.regex", "moclo.record", "moclo._utils", "moclo.registry.base", "moclo.registry._utils")):
    """E5g: a local that is only ever bound to values of one builtin container
    type is only sent methods that type has."""
    p = ctx.program
    r = ctx.report
    n_checked = 0
    for mn, m in sorted(p.modules.items()):
        if not any(mn == s or mn.startswith(s + ".") for s in scope):
            continue
        funcs = list(m.functions.values())
        for ci in m.classes.values():
            funcs += [v for v in ci.attrs.values() if isinstance(v, FuncInfo)]
        for fi in funcs:
            binds: Dict[str, Set[Optional[str]]] = {}
            params = {a.lstrip("*") for a in func_params(fi.node)}
            for node in ast.walk(fi.node):
                if isinstance(node, ast.Assign):
                    for t in node.targets:
                        if isinstance(t, ast.Name):
                            binds.setdefault(t.id, set()).add(_literal_type(node.value))
                        else:
                            for n in ast.walk(t):
                                if isinstance(n, ast.Name) and isinstance(n.ctx, ast.Store):
                                    binds.setdefault(n.id, set()).add(None)
                elif isinstance(node, ast.AugAssign) and isinstance(node.target, ast.Name):
                    binds.setdefault(node.target.id, set()).add(None)
                elif isinstance(node, (ast.For, ast.comprehension)):
                    for n in ast.walk(node.target):
                        if isinstance(n, ast.Name):
                            binds.setdefault(n.id, set()).add(None)
                elif isinstance(node, (ast.With,)):
                    for it in node.items:
                        if it.optional_vars is not None:
                            for n in ast.walk(it.optional_vars):
                                if isinstance(n, ast.Name):
                                    binds.setdefault(n.id, set()).add(None)
            for node in ast.walk(fi.node):
                if isinstance(node, ast.Attribute) and isinstance(node.value, ast.Name) and isinstance(node.ctx, ast.Load):
                    nm = node.value.id
                    if nm in params or nm not in binds:
                        continue
                    tys = binds[nm]
                    if len(tys) == 1 and None not in tys:
                        ty = next(iter(tys))
                        n_checked += 1
                        ok = hasattr(BUILTIN_TYPES[ty], node.attr)
                        r.ob(rule, "%s#%s.%s" % (fi.qualname, nm, node.attr), ok,
                             "`%s` is a %s here and %s has no attribute `%s` (AttributeError at run time)" % (nm, ty, ty, node.attr),
                             "%s:%d" % (m.relpath, node.lineno))
    r.analysed["builtin_method_uses_checked"] = n_checked
    # a lint: the number of sites it applies to may legitimately be zero (helpers extracted, comprehensions instead of
    # locals); what keeps it alive is a built-in example that must be recognised on every run
    fixture = ast.parse("def f():\n    refs = []\n    refs.find(1)\n    refs.append(2)\n").body[0]
    fb = {t.id: _literal_type(n.value) for n in ast.walk(fixture) if isinstance(n, ast.Assign) for t in n.targets if isinstance(t, ast.Name)}
    bad = [n.attr for n in ast.walk(fixture) if isinstance(n, ast.Attribute) and isinstance(n.value, ast.Name) and fb.get(n.value.id) == "list"
           and not hasattr(BUILTIN_TYPES["list"], n.attr)]
    if bad != ["find"]:
        raise AnalysisError("the positive fixture of the builtin-method lint did not match: the lint is dead")
    r.floor(rule, 0)


# ---------------------------------------------------------------------------
# circular records keep no derived state


_STATE_EXEMPT = {"__init__", "__new__", "__setattr__", "__setstate__", "__copy__", "__deepcopy__", "__reduce__"}


def record_instance_state_rule(ctx, rule: str, entries):
    """A CircularRecord is a mutable SeqRecord (seq, features, annotations and
    letter annotations can be reassigned or edited in place), so whatever one
    of its query methods derives from them must be recomputed on every call:
    none of the methods reachable from ``entries`` (through self-calls and
    property reads of the class) stores anything on the receiver.  Explicit
    mutators (the constructor, property setters) are exempt."""
    p = ctx.program
    r = ctx.report
    ci = p.get_class("moclo.record.CircularRecord")
    classes = [ci] + [c for c in p.all_classes() if c is not ci and not c.synthetic and p.is_subclass(c, ci)]
    # ... and the mixins / base classes of the repository the record class is put together from
    classes += [c for c in p.mro(ci) if isinstance(c, ClassInfo) and c not in classes]
    seen, work = set(), []
    for c in classes:
        for name in entries:
            raw = c.attrs.get(name)
            if isinstance(raw, FuncInfo):
                work.append(raw)
    checked = 0
    while work:
        fi = work.pop()
        if fi.qualname in seen:
            continue
        seen.add(fi.qualname)
        fn = fi.node
        params = [a.arg for a in fn.args.posonlyargs + fn.args.args]
        if not params or fi.kind in ("staticmethod", "classmethod"):
            continue
        me = params[0]
        setter = any(isinstance(d, ast.Attribute) and d.attr in ("setter", "deleter") for d in fn.decorator_list)
        for n in ast.walk(fn):
            # follow self.method(...) and self.prop
            if isinstance(n, ast.Attribute) and isinstance(n.value, ast.Name) and n.value.id == me:
                for c in classes:
                    raw = c.attrs.get(n.attr)
                    if isinstance(raw, FuncInfo) and raw.name not in _STATE_EXEMPT:
                        work.append(raw)
        if setter or fi.name in _STATE_EXEMPT:
            continue
        checked += 1
        bad = []

        def is_me(e):
            return isinstance(e, ast.Name) and e.id == me

        def is_ns(e):
            # self.__dict__ / vars(self)
            return (isinstance(e, ast.Attribute) and e.attr == "__dict__" and is_me(e.value)) or \
                   (isinstance(e, ast.Call) and isinstance(e.func, ast.Name) and e.func.id == "vars" and len(e.args) == 1 and is_me(e.args[0]))

        ns_alias = {t.id for a in ast.walk(fn) if isinstance(a, ast.Assign) and is_ns(a.value) for t in a.targets if isinstance(t, ast.Name)}

        def is_nsx(e):
            return is_ns(e) or (isinstance(e, ast.Name) and e.id in ns_alias)

        for n in ast.walk(fn):
            targets = []
            if isinstance(n, ast.Assign):
                targets = n.targets
            elif isinstance(n, (ast.AugAssign, ast.AnnAssign)) and getattr(n, "value", None) is not None:
                targets = [n.target]
            for t in targets:
                for x in ([t] if not isinstance(t, (ast.Tuple, ast.List)) else t.elts):
                    if isinstance(x, ast.Attribute) and is_me(x.value):
                        bad.append((n.lineno, "%s.%s = ..." % (me, x.attr)))
                    if isinstance(x, ast.Subscript) and is_nsx(x.value):
                        bad.append((n.lineno, ast.unparse(x) + " = ..."))
            if isinstance(n, ast.Call):
                f = n.func
                if isinstance(f, ast.Attribute) and f.attr in ("setdefault", "update", "__setitem__") and is_nsx(f.value):
                    bad.append((n.lineno, ast.unparse(f) + "(...)"))
                if isinstance(f, ast.Name) and f.id == "setattr" and n.args and is_me(n.args[0]):
                    bad.append((n.lineno, ast.unparse(n)[:60]))
                if isinstance(f, ast.Attribute) and f.attr == "__setattr__" and n.args and is_me(n.args[0]):
                    bad.append((n.lineno, ast.unparse(n)[:60]))
        r.ob(rule, fi.qualname, not bad,
             "%s keeps state on the record it is asked about (%s): the record's sequence, features and annotations can change "
             "after the call, and a later call is then answered from what was stored instead of from the record's current content"
             % (fi.name, "; ".join("line %d: %s" % b for b in bad)), fi.where())
    if not checked:
        raise AnalysisError("anchor vanished: none of %s is defined in CircularRecord" % (sorted(entries),))


# ---------------------------------------------------------------------------
# itertools.groupby traps (C03: duplicate detection must not depend on order or spelling)


def groupby_rule(ctx, rule: str):
    """itertools.groupby only merges *adjacent* items with equal keys.  In the
    assembly layer every groupby must therefore run over an iterable sorted by
    the very key it groups by: grouping an unsorted input collection, or
    grouping case-insensitively what was sorted case-sensitively, leaves equal
    keys in separate groups -- duplicates go unnoticed for some argument
    orders / spellings.  Other key pairs are not judged (analysis error)."""
    from .roles import layer_functions

    p = ctx.program
    r = ctx.report
    r.ob(rule, "<assembly layer>", True, "", "")  # the rule is alive even when nothing uses groupby
    for fi in layer_functions(p):
        aliases = {}
        for n in ast.walk(fi.node):
            if isinstance(n, ast.Assign) and len(n.targets) == 1 and isinstance(n.targets[0], ast.Name):
                aliases.setdefault(n.targets[0].id, []).append(n.value)

        def inline(e, depth=3):
            e = ast.parse(ast.unparse(e), mode="eval").body  # private copy

            class T(ast.NodeTransformer):
                def visit_Name(self, node):
                    vs = aliases.get(node.id)
                    if isinstance(node.ctx, ast.Load) and vs and len(vs) == 1 and depth > 0:
                        return inline(vs[0], depth - 1)
                    return node

            return T().visit(e)

        for n in ast.walk(fi.node):
            if not (isinstance(n, ast.Call) and (ast.unparse(n.func) in ("itertools.groupby", "groupby")) and n.args):
                continue
            where = "%s:%d" % (fi.module.relpath, n.lineno)
            src = n.args[0]
            gkey = next((k.value for k in n.keywords if k.arg == "key"), n.args[1] if len(n.args) > 1 else None)
            construct = "%s@groupby" % fi.qualname
            if not (isinstance(src, ast.Call) and ast.unparse(src.func) == "sorted"):
                src_i = inline(src)
                if isinstance(src_i, ast.Call) and ast.unparse(src_i.func) == "sorted":
                    src = src_i
                else:
                    r.ob(rule, construct, False,
                         "`%s` groups `%s`, which is not sorted first: groupby merges adjacent items only, so equal keys that are not "
                         "neighbours in the argument order end up in different groups" % (ast.unparse(n)[:80], ast.unparse(src)[:40]), where)
                    continue
            skey = next((k.value for k in src.keywords if k.arg == "key"), None)
            g_i = inline(gkey) if gkey is not None else None
            s_i = inline(skey) if skey is not None else None
            same = (g_i is None and s_i is None) or (g_i is not None and s_i is not None and ast.dump(g_i) == ast.dump(s_i))
            if same:
                r.ob(rule, construct, True, "", where)
                continue
            # group key = case mapping of the sort key?
            verdict = None
            if isinstance(g_i, ast.Lambda) and len(g_i.args.args) == 1 and s_i is not None:
                body, prm = g_i.body, g_i.args.args[0].arg
                if isinstance(body, ast.Call) and isinstance(body.func, ast.Attribute) and body.func.attr in ("upper", "lower", "casefold") and not body.args:
                    inner = body.func.value
                    applied = ast.Call(func=s_i, args=[ast.Name(id=prm, ctx=ast.Load())], keywords=[])
                    if isinstance(s_i, ast.Lambda) and len(s_i.args.args) == 1:
                        # compare bodies with the parameter renamed
                        sb = ast.unparse(s_i.body).replace(s_i.args.args[0].arg, prm)
                        if ast.unparse(inner) == sb:
                            verdict = False
                    elif ast.unparse(inner) == ast.unparse(applied):
                        verdict = False
            if verdict is False:
                r.ob(rule, construct, False,
                     "the items are sorted by `%s` (case-sensitive) but grouped by `%s` (case-insensitive): two spellings of one overhang "
                     "are not adjacent after the sort whenever a third key sorts between them, so they land in separate groups and the "
                     "duplicate is not seen" % (ast.unparse(skey), ast.unparse(gkey)), where)
            else:
                raise AnalysisError("%s: groupby key `%s` over an iterable sorted by `%s`: whether equal group keys are adjacent is not decided"
                                    % (where, ast.unparse(gkey) if gkey is not None else None, ast.unparse(skey) if skey is not None else None))


# ---------------------------------------------------------------------------
# locations the library builds stay movable


_LOCATION_CTORS = {"Bio.SeqFeature.FeatureLocation", "Bio.SeqFeature.SimpleLocation"}


def location_ref_rule(ctx, rule: str):
    """Biopython never shifts nor flips a location that carries a ``ref`` (it
    denotes another entry): a feature the library itself places on a record
    with such a location stays where it was when the record is rotated or
    reverse-complemented.  Every FeatureLocation the repo builds therefore
    passes no ref / ref_db, or carries over the one of the location it
    rebuilds (``ref=part.ref``)."""
    p = ctx.program
    r = ctx.report
    n = 0
    for mn, m in sorted(p.modules.items()):
        if not mn.startswith("moclo"):
            continue
        for node in ast.walk(m.tree):
            if not isinstance(node, ast.Call):
                continue
            try:
                tgt = p.resolve_expr(m, node.func)
            except Exception:
                tgt = None
            if not (isinstance(tgt, Ext) and tgt.dotted in _LOCATION_CTORS):
                continue
            n += 1
            given = {}
            for i, a in enumerate(node.args):
                if isinstance(a, ast.Starred):
                    given["*"] = a
                elif i >= 3:
                    given[("ref", "ref_db")[i - 3] if i < 5 else "extra"] = a
            for k in node.keywords:
                if k.arg is None:
                    given["**"] = k.value
                elif k.arg in ("ref", "ref_db"):
                    given[k.arg] = k.value
            bad = []
            for name, v in given.items():
                if name in ("*", "**"):
                    bad.append("%s%s hides what is passed" % (name, ast.unparse(v)))
                elif isinstance(v, ast.Constant) and v.value is None:
                    continue
                elif isinstance(v, ast.Attribute) and v.attr == name:
                    continue  # carried over from the location being rebuilt
                else:
                    bad.append("%s=%s" % (name, ast.unparse(v)))
            r.ob(rule, "%s#%s" % (mn, _norm_stmt(ast.unparse(node))[:60]), not bad,
                 "a location built by the library refers to another entry (%s): Biopython leaves such a location where it is when the "
                 "record is rotated or reverse-complemented, so the feature then denotes other nucleotides" % "; ".join(bad),
                 "%s:%d" % (m.relpath, node.lineno))
    r.analysed["location_constructions"] = n
    r.floor(rule, 1)


# ---------------------------------------------------------------------------
# the constructor's topology check is the only door to a circular record


def _flat_targets(t):
    if isinstance(t, (ast.Tuple, ast.List)):
        for x in t.elts:
            yield from _flat_targets(x)
    elif isinstance(t, ast.Starred):
        yield from _flat_targets(t.value)
    else:
        yield t


def _safe_topology_value(v) -> bool:
    return isinstance(v, ast.Constant) and isinstance(v.value, str) and v.value.lower() == "circular"


def _safe_annotation_map(v) -> bool:
    """a dict display / dict(k=v) that cannot declare a non-circular topology"""
    if isinstance(v, ast.Dict):
        for k, x in zip(v.keys, v.values):
            if k is None:
                return False
            if not isinstance(k, ast.Constant):
                return False
            if k.value == "topology" and not _safe_topology_value(x):
                return False
        return True
    if isinstance(v, ast.Call) and isinstance(v.func, ast.Name) and v.func.id == "dict" and not v.args:
        return all(k.arg is not None and (k.arg != "topology" or _safe_topology_value(k.value)) for k in v.keywords)
    return False


def gate_bypasses(fn, is_circular_ctor) -> Tuple[Set[str], List[Tuple[int, str]]]:
    """(locals bound to a freshly constructed circular record, [(line, statement that gives one of them annotations the
    constructor never saw)])"""
    circ: Set[str] = set()
    for n in _own_nodes_of(fn):
        if isinstance(n, (ast.Assign, ast.AnnAssign)) and isinstance(n.value, ast.Call) and is_circular_ctor(n.value.func):
            for t in (n.targets if isinstance(n, ast.Assign) else [n.target]):
                if isinstance(t, ast.Name):
                    circ.add(t.id)
        if isinstance(n, ast.NamedExpr) and isinstance(n.value, ast.Call) and is_circular_ctor(n.value.func):
            circ.add(n.target.id)
    if not circ:
        return circ, []

    def is_ann(e):
        return isinstance(e, ast.Attribute) and e.attr == "annotations" and isinstance(e.value, ast.Name) and e.value.id in circ

    alias = set()
    for n in _own_nodes_of(fn):
        if isinstance(n, ast.Assign) and is_ann(n.value):
            alias |= {t.id for t in n.targets if isinstance(t, ast.Name)}

    def is_map(e):
        return is_ann(e) or (isinstance(e, ast.Name) and e.id in alias)

    bad: List[Tuple[int, str]] = []
    for n in _own_nodes_of(fn):
        if isinstance(n, (ast.Assign, ast.AnnAssign, ast.AugAssign)):
            targets = n.targets if isinstance(n, ast.Assign) else [n.target]
            for tt in targets:
                flat = list(_flat_targets(tt))
                for t in flat:
                    if is_ann(t) and isinstance(t.ctx, ast.Store):
                        if len(flat) == 1 and n.value is not None and _safe_annotation_map(n.value) and not isinstance(n, ast.AugAssign):
                            continue
                        bad.append((n.lineno, ast.unparse(n)))
                    elif isinstance(t, ast.Subscript) and is_map(t.value):
                        k = t.slice
                        if isinstance(k, ast.Constant) and k.value != "topology":
                            continue
                        if isinstance(k, ast.Constant) and len(flat) == 1 and n.value is not None and _safe_topology_value(n.value):
                            continue
                        bad.append((n.lineno, ast.unparse(n)))
        elif isinstance(n, ast.Call):
            f = n.func
            if isinstance(f, ast.Attribute) and is_map(f.value) and f.attr in ("update", "setdefault", "__setitem__", "__ior__"):
                if f.attr == "update":
                    if all(_safe_annotation_map(a) for a in n.args) and all(k.arg is not None and (k.arg != "topology" or _safe_topology_value(k.value)) for k in n.keywords):
                        continue
                elif n.args and isinstance(n.args[0], ast.Constant) and (n.args[0].value != "topology" or (len(n.args) > 1 and _safe_topology_value(n.args[1]))):
                    continue
                bad.append((n.lineno, ast.unparse(n)))
            if isinstance(f, ast.Name) and f.id == "setattr" and len(n.args) == 3 and isinstance(n.args[0], ast.Name) and n.args[0].id in circ:
                a = n.args[1]
                if isinstance(a, ast.Constant) and a.value != "annotations":
                    continue
                bad.append((n.lineno, ast.unparse(n)))
            if isinstance(f, ast.Attribute) and f.attr == "update" and isinstance(f.value, ast.Attribute) and f.value.attr == "__dict__" \
                    and isinstance(f.value.value, ast.Name) and f.value.value.id in circ:
                bad.append((n.lineno, ast.unparse(n)))
    return circ, bad


def _own_nodes_of(fn):
    stack = list(fn.body)
    while stack:
        n = stack.pop()
        yield n
        if isinstance(n, (ast.FunctionDef, ast.AsyncFunctionDef, ast.ClassDef)):
            continue
        stack.extend(ast.iter_child_nodes(n))


_GATE_FIXTURE = '''
def bypass(rec):
    record = CircularRecord(rec.seq, rec.id)
    record.features, record.annotations = rec.features, rec.annotations
    return record
def fine(rec):
    record = CircularRecord(rec)
    record.annotations["topology"] = "circular"
    record.annotations["comment"] = rec.id
    return record
'''


def topology_gate_rule(ctx, rule: str):
    """"A record declared linear cannot be wrapped as circular": the check sits
    in CircularRecord's constructor, so it binds only if nothing hands a
    freshly built circular record annotations the constructor never saw.  For
    every function of the repo that builds a CircularRecord (or a subclass)
    into a local: no whole-map store / update / topology write on that local's
    annotations other than a constant that declares a circle."""
    p = ctx.program
    r = ctx.report
    base = p.get_class("moclo.record.CircularRecord")

    # the rule must see its own positive example on every run
    tree = ast.parse(_GATE_FIXTURE)
    fx = {f.name: gate_bypasses(f, lambda e: isinstance(e, ast.Name) and e.id == "CircularRecord") for f in tree.body}
    if not (fx["bypass"][1] and fx["fine"][0] and not fx["fine"][1]):
        raise AnalysisError("topology-gate: the rule no longer recognises its own fixture")
    n = 0
    for mn, m in sorted(p.modules.items()):
        if not mn.startswith("moclo"):
            continue

        def is_ctor(e, m=m):
            try:
                v = p.resolve_expr(m, e)
            except Exception:
                return False
            return isinstance(v, ClassInfo) and p.is_subclass(v, base)

        funcs = list(m.functions.values())
        for ci in m.classes.values():
            funcs += [v for v in ci.attrs.values() if isinstance(v, FuncInfo) and v.module is m]
        for fi in funcs:
            circ, bad = gate_bypasses(fi.node, is_ctor)
            if not circ:
                continue
            n += 1
            r.ob(rule, fi.qualname, not bad,
                 "a freshly built circular record is handed annotations its constructor never checked (a file or record that declares "
                 "itself linear gets through): %s" % "; ".join("line %d `%s`" % b for b in bad), fi.where())
    r.analysed["functions_building_circular_records"] = n
    if n == 0:
        # no function keeps a freshly built circular record in a local (they return it at once): nothing can be handed to
        # it afterwards; the rule saw its positive example above
        r.ob(rule, "<no function binds a fresh CircularRecord to a local>", True, "", "-")
    r.floor(rule, 1)
