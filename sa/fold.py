# coding: utf-8
"""E2 -- constant folder for ``structure()`` class methods.

``structure()`` is a pure function of class constants; this module folds it
from the syntax tree for a given class of the static class table, the way a
compiler folds constants.  Only a whitelist of constructs is understood;
anything else raises AnalysisError (exit 2), never a guess.

Library data consulted (trusted base T4): ``Bio.Restriction`` enzyme
constants and ``Bio.Seq.Seq.reverse_complement``.
"""
from __future__ import annotations

import ast
from typing import Dict, List, Optional

from .loader import (AnalysisError, ClassInfo, Const, Ext, FuncInfo, ModRef, Program, decorator_name, library_constant,
                     LIBRARY_DATA_MODULES)

ENZYME_ATTRS = {
    "site", "fst5", "fst3", "ovhg", "ovhgseq", "size", "scd5", "scd3",
}
ENZYME_METHODS = {
    "elucidate", "is_5overhang", "is_3overhang", "is_blunt", "is_unknown",
    "is_palindromic", "is_ambiguous", "is_defined",
}


SAFE_BUILTINS = {"ord": ord, "chr": chr, "zip": zip, "dict": dict, "str": str, "len": len, "range": range, "enumerate": enumerate,
                 "tuple": tuple, "list": list, "sorted": sorted, "reversed": reversed, "set": set, "frozenset": frozenset, "min": min, "max": max}


def closed_const_eval(node: ast.expr):
    """Evaluate a *closed* constant expression (literals, comprehensions over
    literals, pure builtins such as ord/zip, str methods on literals): plain
    constant folding of a module-level table.  Returns (ok, value)."""
    bound = set()
    for n in ast.walk(node):
        if isinstance(n, ast.comprehension):
            for t in ast.walk(n.target):
                if isinstance(t, ast.Name):
                    bound.add(t.id)
    for n in ast.walk(node):
        if isinstance(n, ast.Name):
            if n.id not in bound and n.id not in SAFE_BUILTINS and n.id not in ("True", "False", "None"):
                return False, None
        elif isinstance(n, ast.Attribute):
            if n.attr.startswith("_") or n.attr not in ("upper", "lower", "join", "format", "replace", "translate", "maketrans", "items", "keys", "values", "strip", "split"):
                return False, None
        elif isinstance(n, (ast.Lambda, ast.Await, ast.Yield, ast.YieldFrom, ast.NamedExpr, ast.Starred)):
            return False, None
        elif isinstance(n, ast.Call) and n.keywords and any(k.arg is None for k in n.keywords):
            return False, None
    try:
        code = compile(ast.Expression(body=node), "<constant>", "eval")
        return True, eval(code, {"__builtins__": {}}, dict(SAFE_BUILTINS))
    except Exception:
        return False, None


class Raises(Exception):
    """The folded function raises this exception class."""

    def __init__(self, exc_name: str, where: str):
        Exception.__init__(self, exc_name)
        self.exc_name = exc_name
        self.where = where


class _Return(Exception):
    def __init__(self, value):
        self.value = value


class SeqVal(object):
    """Bio.Seq.Seq over a folded string."""

    def __init__(self, s: str):
        self.s = s


class Enzyme(object):
    """A Bio.Restriction enzyme (library constant)."""

    _cache: Dict[str, "Enzyme"] = {}

    def __init__(self, name: str):
        import Bio.Restriction

        self.name = name
        self.obj = getattr(Bio.Restriction, name)

    @classmethod
    def get(cls, name: str) -> "Enzyme":
        if name not in cls._cache:
            cls._cache[name] = Enzyme(name)
        return cls._cache[name]

    def __repr__(self):
        return "Enzyme(%s)" % self.name

    def __eq__(self, other):
        return isinstance(other, Enzyme) and other.name == self.name

    def __hash__(self):
        return hash(self.name)


class _Bound(object):
    def __init__(self, kind, target, name):
        self.kind, self.target, self.name = kind, target, name


class FNT(tuple):
    """instance of a namedtuple-based class of the repo (possibly with methods)"""

    ci = None
    fields = ()


class _Auto(object):
    """enum.auto()"""


class FObj(object):
    """instance of a plain value class of the repo: attributes set by its __init__"""

    def __init__(self, ci):
        self.ci = ci
        self.attrs = {}


class _LibModule(object):
    """collections / functools / operator / itertools: the pure helpers among their members are folded"""

    def __init__(self, name):
        self.name = name


class _Partial(object):
    """functools.partial / operator.methodcaller / attrgetter / itemgetter as values"""

    def __init__(self, kind, *data, **kw):
        self.kind, self.data, self.kw = kind, data, kw


_OPERATOR_FUNCS = {"add", "sub", "mul", "mod", "eq", "ne", "lt", "le", "gt", "ge", "is_", "is_not", "not_", "truth", "contains", "getitem", "concat"}


class _ReModule(object):
    """the `re` module: pure functions of constant strings are folded natively"""


SAFE_RE_FUNCS = {"split", "sub", "subn", "match", "search", "fullmatch", "findall", "escape"}
SAFE_RE_FLAGS = {"I", "IGNORECASE", "S", "DOTALL", "M", "MULTILINE", "X", "VERBOSE", "A", "ASCII"}


class _Super(object):
    def __init__(self, after: ClassInfo, cls: ClassInfo):
        self.after, self.cls = after, cls


class _Wrapped(object):
    """staticmethod(f) / classmethod(f) as a value (stored on a class by a class-creation hook)"""

    def __init__(self, how: str, func):
        self.how, self.func = how, func


def _rc(s: str) -> str:
    from Bio.Seq import Seq

    return str(Seq(s).reverse_complement())


class _Break(Exception):
    pass


class _Continue(Exception):
    pass


SAFE_STR_METHODS = {"replace", "format", "join", "upper", "lower", "strip", "lstrip", "rstrip", "translate", "split", "rsplit", "startswith",
                    "endswith", "find", "rfind", "index", "count", "zfill", "center", "ljust", "rjust", "title", "capitalize", "swapcase",
                    "partition", "rpartition", "isupper", "islower", "isalpha", "isdigit", "casefold", "splitlines", "expandtabs",
                    "removeprefix", "removesuffix", "format_map", "encode"}
SAFE_LIST_METHODS = {"append", "extend", "insert", "pop", "reverse", "index", "count", "copy", "sort", "remove", "clear"}
SAFE_DICT_METHODS = {"get", "items", "keys", "values", "update", "setdefault", "pop", "copy"}
SAFE_TUPLE_METHODS = {"index", "count"}
PURE_BUILTINS = {"ord": ord, "chr": chr, "zip": zip, "dict": dict, "len": len, "range": range, "enumerate": enumerate, "tuple": tuple,
                 "list": list, "sorted": sorted, "reversed": reversed, "set": set, "frozenset": frozenset, "min": min, "max": max,
                 "any": any, "all": all, "sum": sum, "abs": abs, "int": int, "bool": bool, "divmod": divmod, "repr": repr}


def _own_walk(fn):
    """nodes of a function body, nested functions and lambdas excluded"""
    stack = list(fn.body)
    while stack:
        n = stack.pop()
        yield n
        if isinstance(n, (ast.FunctionDef, ast.AsyncFunctionDef, ast.Lambda, ast.ClassDef)):
            continue
        stack.extend(ast.iter_child_nodes(n))


class _ClassNS(object):
    """cls.__dict__ / vars(cls): the class's own namespace (what its body binds, what a creation hook stored on it so far)"""

    def __init__(self, folder, ci):
        self.folder, self.ci = folder, ci

    def _overlay(self):
        return self.folder._hook_overlay if getattr(self.folder, "_hook_target", None) is self.ci and self.folder._hook_overlay is not None else {}

    def __contains__(self, name):
        return name in self._overlay() or name in self.ci.attrs

    def __getitem__(self, name):
        ov = self._overlay()
        if name in ov:
            return ov[name]
        if name in self.ci.attrs:
            return self.folder._attr_value(self.ci, self.ci.attrs[name], self.ci)
        raise KeyError(name)

    def get(self, name, default=None):
        return self[name] if name in self else default

    def keys(self):
        return list(self.ci.attrs) + [k for k in self._overlay() if k not in self.ci.attrs]

    def __iter__(self):
        return iter(self.keys())


class _ClassScope(dict):
    """names of a class body, evaluated on demand (only plain data attributes: functions are not names of the scope an
    expression of the body can call before the class exists ... they are, but the repo's tables never do)"""

    def __init__(self, folder, owner):
        dict.__init__(self)
        self._folder, self._owner, self._busy = folder, owner, set()

    def __contains__(self, k):
        if dict.__contains__(self, k):
            return True
        raw = self._owner.attrs.get(k)
        return isinstance(raw, (ast.AST, Const)) and k not in self._busy

    def __getitem__(self, k):
        if dict.__contains__(self, k):
            return dict.__getitem__(self, k)
        raw = self._owner.attrs.get(k)
        if not isinstance(raw, (ast.AST, Const)) or k in self._busy:
            raise KeyError(k)
        self._busy.add(k)
        try:
            v = self._folder._attr_value(self._owner, raw, self._owner)
        finally:
            self._busy.discard(k)
        dict.__setitem__(self, k, v)
        return v

    def get(self, k, default=None):
        return self[k] if k in self else default


class Folder(object):
    """Evaluator for the pure, concrete subset of Python that structure()
    and the helpers it calls are written in: strings, tuples, lists, dicts,
    enzyme constants, class constants, calls to module-level functions and to
    class/static methods through the resolved MRO."""

    def __init__(self, program: Program):
        self.p = program
        self.depth = 0
        self.steps = 0

    # -- entry points -------------------------------------------------------

    def class_const(self, ci: ClassInfo, name: str):
        owner, raw = self.p.class_attr_def(ci, name)
        if owner is None:
            raise AnalysisError("%s has no attribute %s" % (ci.qualname, name))
        return self._attr_value(owner, raw, ci)

    def _attr_value(self, owner: ClassInfo, raw, cls: ClassInfo):
        if isinstance(raw, Const):
            return raw.value
        if isinstance(raw, FuncInfo):
            return _Bound("func", (raw, cls), raw.name)
        if isinstance(raw, ast.AST):
            # a container made in a class body is one object: every read during one evaluation sees the same one (what was
            # stored in it a moment ago is found again); between two top-level evaluations it is fresh, as in a new process
            if isinstance(raw, (ast.Dict, ast.List, ast.Set)) or (isinstance(raw, ast.Call) and not raw.args and not raw.keywords):
                state = self.__dict__.setdefault("_class_state", {})
                key = (id(owner), id(raw))
                if key not in state:
                    state[key] = self._module_expr(owner, raw)
                return state[key]
            return self._module_expr(owner, raw)
        raise AnalysisError("cannot evaluate attribute of %s" % owner.qualname)

    def _module_expr(self, owner: ClassInfo, e: ast.expr):
        # the expression sits in the class body: the names bound earlier in that body are in scope
        ev = _Frame(self, owner.module, _ClassScope(self, owner), owner, None)
        return ev.expr(e)

    def enum_members(self, ci: ClassInfo):
        """[(name, member)] of an enumeration of the code base in definition order, aliases included (an alias is the
        member object of the first name with the same value); the member objects are FObj singletons with .name / .value"""
        table = self.p.__dict__.setdefault("_fold_enum_members", {})
        if id(ci) in table:
            return table[id(ci)]
        info = self.p.enum_info(ci)
        if info is None:
            raise AnalysisError("%s is not an enumeration" % ci.qualname)
        out, by_value, count = [], [], 0
        for name, expr in info["members"]:
            v = self._module_expr(info["holder"], expr)
            if isinstance(v, _Auto):
                count += 1
                v = name.lower() if info["str_enum"] else ((1 << (count - 1)) if info["flag"] else count)
            elif isinstance(v, int) and not isinstance(v, bool):
                count = v
            if not (v is None or isinstance(v, (str, int, float, tuple, frozenset, bool)) or getattr(v, "enum_member", False)):
                raise AnalysisError("%s.%s: the value of the member does not fold to a constant" % (ci.qualname, name))
            member = None
            for v0, m0 in by_value:
                if (v0 is v) if getattr(v, "enum_member", False) else (type(v0) is type(v) and v0 == v):
                    member = m0
            if member is None:
                member = FObj(ci)
                member.attrs.update({"name": name, "value": v, "_name_": name, "_value_": v})
                member.enum_member = True
                by_value.append((v, member))
            out.append((name, member))
        table[id(ci)] = out
        return out

    def module_const(self, module, e: ast.expr):
        """the value of an expression written at module level (names resolve through the module's bindings)"""
        return _Frame(self, module, {}, None, None).expr(e)

    def call_method(self, ci: ClassInfo, name: str, after: Optional[ClassInfo] = None):
        owner, raw = self.p.class_attr_def(ci, name, after=after)
        if owner is None or not isinstance(raw, FuncInfo):
            raise AnalysisError("%s.%s does not resolve to a function" % (ci.qualname, name))
        return self.call_func(raw, ci, [], {})

    def call_func(self, fi: FuncInfo, cls: Optional[ClassInfo], args=(), kwargs=None, instance=None):
        kwargs = dict(kwargs or {})
        if self.depth == 0:
            self.__dict__["_class_state"] = {}  # a top-level evaluation starts from the state of a fresh process
        self.depth += 1
        if self.depth > 12:
            raise AnalysisError("folder recursion too deep at %s" % fi.qualname)
        try:
            a = fi.node.args
            params = [x.arg for x in a.posonlyargs + a.args]
            pos = list(args)
            if fi.kind == "classmethod" or fi.name == "__init_subclass__":
                pos = [cls] + pos
            elif fi.kind in ("method", "property"):
                if instance is None:
                    raise AnalysisError("%s: %s needs an instance: not a constant" % (fi.where(), fi.qualname))
                pos = [instance] + pos
            env = {}
            defaults = [None] * (len(params) - len(a.defaults)) + list(a.defaults)
            fr = _Frame(self, fi.module, env, fi.owner, cls)
            if len(pos) > len(params) and a.vararg is None:
                raise AnalysisError("%s: too many arguments in constant folding" % fi.qualname)
            for i, pn in enumerate(params):
                if i < len(pos):
                    env[pn] = pos[i]
                elif pn in kwargs:
                    env[pn] = kwargs.pop(pn)
                elif defaults[i] is not None:
                    env[pn] = fr.expr(defaults[i])
                else:
                    raise AnalysisError("%s: missing argument %s in constant folding" % (fi.qualname, pn))
            if a.vararg is not None:
                env[a.vararg.arg] = tuple(pos[len(params):])
            for kw, d in zip(a.kwonlyargs, a.kw_defaults):
                if kw.arg in kwargs:
                    env[kw.arg] = kwargs.pop(kw.arg)
                elif d is not None:
                    env[kw.arg] = fr.expr(d)
                else:
                    raise AnalysisError("%s: missing keyword %s in constant folding" % (fi.qualname, kw.arg))
            if a.kwarg is not None:
                env[a.kwarg.arg] = kwargs
            elif kwargs:
                raise AnalysisError("%s: unexpected keywords %s in constant folding" % (fi.qualname, sorted(kwargs)))
            is_gen = any(isinstance(n, (ast.Yield, ast.YieldFrom)) for n in _own_walk(fi.node))
            if is_gen:
                fr.yielded = []  # a generator of constants: evaluated eagerly into the list of what it yields
            try:
                fr.block(fi.node.body)
            except _Return as r:
                return fr.yielded if is_gen else r.value
            return fr.yielded if is_gen else None
        finally:
            self.depth -= 1

    def apply_class_creation_hooks(self):
        """Python runs the nearest __init_subclass__ of a new class's bases when the class is created; attributes it sets
        on the class (`cls._layout = staticmethod(f)`, `cls._regex = None`) belong to the class as if its body had bound
        them.  Evaluate those hooks for every class of the code base, bases first, and enter what they set into the class
        table; a hook the folder cannot evaluate leaves the class untouched (reading such an attribute then stays an
        analysis error)."""
        p = self.p
        if getattr(p, "_class_hooks_done", False):
            return
        p._class_hooks_done = True
        classes = [ci for m in p.modules.values() for ci in m.classes.values()]
        classes.sort(key=lambda c: len(p.mro(c)))
        for ci in classes:
            self.apply_hooks_to(ci)
        p._class_hook = self.apply_hooks_to

    HARMLESS_CLASS_DECORATORS = ("six.python_2_unicode_compatible", "python_2_unicode_compatible", "six.add_metaclass", "add_metaclass",
                                 "dataclasses.dataclass", "dataclass", "functools.total_ordering", "total_ordering", "unique", "enum.unique")

    def apply_hooks_to(self, ci: ClassInfo):
        self._apply_init_subclass(ci)
        self._apply_class_decorators(ci)

    def _apply_init_subclass(self, ci: ClassInfo):
        p = self.p
        try:
            owner, hook = p.class_attr_def(ci, "__init_subclass__", after=ci)
        except AnalysisError:
            return
        if not isinstance(hook, FuncInfo):
            return
        saved = (getattr(self, "_hook_target", None), getattr(self, "_hook_overlay", None))
        self._hook_target, self._hook_overlay = ci, {}
        try:
            # keywords of the class statement (`class Entry(AbstractModule, level=0)`) are handed to the hook
            kw = {}
            if ci.node is not None and ci.module is not None:
                fr0 = _Frame(self, ci.module, {}, None, None)
                for k_ in ci.node.keywords:
                    if k_.arg is None:
                        raise AnalysisError("%s: **keywords in a class statement" % ci.qualname)
                    if k_.arg != "metaclass":
                        kw[k_.arg] = fr0.expr(k_.value)
            self.call_func(hook, ci, [], kw)
        except (AnalysisError, Raises, RecursionError):
            self._hook_target, self._hook_overlay = saved
            # what the hook stores on the class is not known: the attributes the hooks on the MRO assign are then unknown
            # for this class (reading one is an analysis error, not the value the class bodies spell)
            names = set()
            for c in p.mro(ci)[1:]:
                h = c.attrs.get("__init_subclass__") if isinstance(c, ClassInfo) else None
                if isinstance(h, FuncInfo):
                    for n in ast.walk(h.node):
                        if isinstance(n, (ast.Assign, ast.AugAssign, ast.AnnAssign)):
                            for t in (n.targets if isinstance(n, ast.Assign) else [n.target]):
                                if isinstance(t, ast.Attribute):
                                    names.add(t.attr)
                        if isinstance(n, ast.Call) and isinstance(n.func, ast.Name) and n.func.id == "setattr" and len(n.args) >= 2:
                            names.add(n.args[1].value if isinstance(n.args[1], ast.Constant) and isinstance(n.args[1].value, str) else "*")
            ci.unevaluated_hook_attrs = names
            return
        overlay = self._hook_overlay
        self._hook_target, self._hook_overlay = saved
        entries = self._overlay_entries(ci, overlay)
        if entries is None:
            return
        ci.attrs.update(entries)
        ci._hooks_applied = True

    def _overlay_entries(self, ci: ClassInfo, overlay):
        """class-table entries for what a hook or a class decorator stored on the class; None when a value has no
        representation there"""
        entries = {}
        for name, v in overlay.items():
            inner = v.func if isinstance(v, _Wrapped) else v
            how = [v.how] if isinstance(v, _Wrapped) else []
            if isinstance(inner, _Bound) and inner.kind == "func":
                fi0 = inner.target[0]
                clone = FuncInfo(fi0.module, fi0.node, ci)
                clone.decorators = how
                entries[name] = clone
            elif isinstance(inner, _Partial) and inner.kind == "closure":
                fi1 = self._closure_funcinfo(ci, name, inner, how)
                if fi1 is None:
                    return None
                entries[name] = fi1
            elif isinstance(v, _Wrapped):
                return None
            elif v is None or isinstance(v, (str, int, bool, tuple, frozenset)) or v is NotImplemented:
                entries[name] = Const(v)
            else:
                return None
        return entries

    def _closure_funcinfo(self, ci: ClassInfo, name: str, clo, how):
        """A function object made by a factory (`def refusal(name): def newfunc(self, *a): ...; return newfunc`) and stored on
        a class: the nested definition, with the variables it closes over bound to the constants they had when it was
        made.  None when a closed-over value is not a plain constant."""
        import copy as _copy

        st, frame, params, defaults = clo.data
        a = st.args
        bound = {x.arg for x in a.posonlyargs + a.args + a.kwonlyargs}
        bound |= {x.arg for x in (a.vararg, a.kwarg) if x is not None}
        bound |= {n.id for n in ast.walk(st) if isinstance(n, ast.Name) and isinstance(n.ctx, (ast.Store, ast.Del))}
        free = sorted({n.id for n in ast.walk(st) if isinstance(n, ast.Name) and isinstance(n.ctx, ast.Load)} - bound)

        def literal(v):
            if v is None or isinstance(v, (str, int, bool)):
                return ast.Constant(value=v)
            if isinstance(v, tuple):
                elts = [literal(x) for x in v]
                return None if any(x is None for x in elts) else ast.Tuple(elts=elts, ctx=ast.Load())
            return None

        prologue = []
        for nm in free:
            if nm not in frame.env:
                continue  # a name of the module (or a builtin): resolved where the definition stands
            lit = literal(frame.env[nm])
            if lit is None:
                return None
            prologue.append(ast.Assign(targets=[ast.Name(id=nm, ctx=ast.Store())], value=lit))
        node = _copy.deepcopy(st)
        node.name = name
        node.decorator_list = []
        for d_ in a.defaults + [x for x in a.kw_defaults if x is not None]:
            if not isinstance(d_, ast.Constant):
                return None
        for st_ in prologue:
            ast.copy_location(st_, st)
            for sub in ast.walk(st_):
                ast.copy_location(sub, st)
        node.body = prologue + node.body
        ast.fix_missing_locations(node)
        fi1 = FuncInfo(frame.m, node, ci)
        fi1.decorators = list(how)
        fi1.made_by = "%s:%d" % (frame.m.relpath, st.lineno)
        return fi1

    def _apply_class_decorators(self, ci: ClassInfo):
        """@decorator class C: the decorator receives the finished class and may store attributes on it (methods made by a
        factory, a `structure` computed from the enzymes).  Evaluate it; what it stores enters the class table.  A
        decorator that cannot be evaluated leaves the class marked: reading an attribute that would be found in its own
        dictionary is then an analysis error (the dictionary is not known), never a silent guess."""
        node = ci.node
        if node is None or not node.decorator_list:
            return
        for dec in reversed(node.decorator_list):
            dn = decorator_name(dec)
            if dn in self.HARMLESS_CLASS_DECORATORS or dn.split(".")[-1] == "register":
                continue
            saved = (getattr(self, "_hook_target", None), getattr(self, "_hook_overlay", None))
            self._hook_target, self._hook_overlay = ci, {}
            ok = False
            try:
                fr = _Frame(self, ci.module, {}, None, None)
                fn = fr.expr(dec)
                res = fr.apply(fn, [ci], {}, dec)
                ok = res is ci
            except (AnalysisError, Raises, RecursionError):
                ok = False
            overlay = self._hook_overlay
            self._hook_target, self._hook_overlay = saved
            entries = self._overlay_entries(ci, overlay) if ok else None
            if entries is None:
                ci.opaque_decorator = "@%s (%s:%d)" % (ast.unparse(dec)[:60], ci.module.relpath, dec.lineno)
                return
            ci.attrs.update(entries)

    def structure(self, ci: ClassInfo) -> str:
        v = self.call_method(ci, "structure")
        if not isinstance(v, str):
            raise AnalysisError("%s.structure() folds to %r, not a string" % (ci.qualname, v))
        return v


class _Frame(object):
    def __init__(self, folder: Folder, module, env, owner: Optional[ClassInfo], cls: Optional[ClassInfo]):
        self.f = folder
        self.m = module
        self.env = env
        self.owner = owner
        self.cls = cls

    def unsupported(self, node, what="construct"):
        seg = self.m.segment(node) if self.m is not None else ast.dump(node)
        raise AnalysisError(
            "%s:%s: unsupported %s in constant folding: %s"
            % (self.m.relpath if self.m else "?", getattr(node, "lineno", "?"), what, (seg or "")[:80])
        )

    def tick(self, node):
        self.f.steps += 1
        if self.f.steps > 2000000:
            self.unsupported(node, "evaluation budget exceeded at")

    # -- statements ---------------------------------------------------------

    def block(self, body: List[ast.stmt]):
        for st in body:
            self.stmt(st)

    def stmt(self, st: ast.stmt):
        self.tick(st)
        if isinstance(st, ast.Expr):
            if isinstance(st.value, ast.Constant):
                return
            if isinstance(st.value, ast.Yield) and getattr(self, "yielded", None) is not None:
                self.yielded.append(self.expr(st.value.value) if st.value.value is not None else None)
                return
            if isinstance(st.value, ast.YieldFrom) and getattr(self, "yielded", None) is not None:
                self.yielded.extend(list(self.expr(st.value.value)))
                return
            self.expr(st.value)
            return
        if isinstance(st, ast.Return):
            raise _Return(self.expr(st.value) if st.value is not None else None)
        if isinstance(st, ast.FunctionDef):
            self.env[st.name] = self.closure(st)
            return
        if isinstance(st, ast.Assign):
            v = self.expr(st.value)
            for t in st.targets:
                self.assign(t, v)
            return
        if isinstance(st, ast.AnnAssign):
            if st.value is not None:
                self.assign(st.target, self.expr(st.value))
            return
        if isinstance(st, ast.AugAssign):
            cur = self.expr(_as_load(st.target))
            val = self.expr(st.value)
            if isinstance(st.op, ast.Add) and isinstance(cur, list):
                cur.extend(self.iterate(val, st))  # list += iterable extends in place
                return
            self.assign(st.target, self.binop(st.op, cur, val, st))
            return
        if isinstance(st, ast.If):
            t = self.truth(self.expr(st.test), st.test)
            self.block(st.body if t else st.orelse)
            return
        if isinstance(st, ast.For):
            it = self.iterate(self.expr(st.iter), st.iter)
            broke = False
            for x in it:
                self.assign(st.target, x)
                try:
                    self.block(st.body)
                except _Continue:
                    continue
                except _Break:
                    broke = True
                    break
            if not broke:
                self.block(st.orelse)
            return
        if isinstance(st, ast.While):
            n = 0
            while self.truth(self.expr(st.test), st.test):
                n += 1
                if n > 100000:
                    self.unsupported(st, "unbounded loop")
                try:
                    self.block(st.body)
                except _Continue:
                    continue
                except _Break:
                    return
            self.block(st.orelse)
            return
        if isinstance(st, ast.Break):
            raise _Break()
        if isinstance(st, ast.Continue):
            raise _Continue()
        if isinstance(st, ast.Raise):
            name = "Exception"
            e = st.exc
            if isinstance(e, ast.Call):
                e = e.func
            if isinstance(e, ast.Name):
                name = e.id
            elif isinstance(e, ast.Attribute):
                name = e.attr
            raise Raises(name, "%s:%d" % (self.m.relpath, st.lineno))
        if isinstance(st, (ast.Pass, ast.Assert)):
            return
        if isinstance(st, ast.Try):
            try:
                try:
                    self.block(st.body)
                except Raises as r:
                    handler = None
                    for h in st.handlers:
                        names = []
                        if h.type is None:
                            handler = h
                            break
                        for t in (h.type.elts if isinstance(h.type, ast.Tuple) else [h.type]):
                            names.append(t.attr if isinstance(t, ast.Attribute) else t.id if isinstance(t, ast.Name) else "?")
                        parents = {"KeyError": ("LookupError", "Exception"), "IndexError": ("LookupError", "Exception")}
                        if r.exc_name in names or any(x in names for x in parents.get(r.exc_name, ("Exception",))):
                            handler = h
                            break
                    if handler is None:
                        raise
                    if handler.name:
                        self.env[handler.name] = r
                    self.block(handler.body)
                else:
                    self.block(st.orelse)
            finally:
                if st.finalbody:
                    self.block(st.finalbody)
            return
        self.unsupported(st, "statement")

    def truth(self, v, node):
        if isinstance(v, (bool, int, str, tuple, list, dict, set, frozenset, type(None))):
            return bool(v)
        if v is NotImplemented:
            return True
        if isinstance(v, (ClassInfo, Enzyme, SeqVal)):
            return True if not isinstance(v, SeqVal) else bool(v.s)
        if getattr(v, "enum_member", False):
            info = self.f.p.enum_info(v.ci)
            if self.f.p.class_attr_def(v.ci, "__bool__")[1] is not None or self.f.p.class_attr_def(v.ci, "__len__")[1] is not None:
                self.unsupported(node, "truth value of a member of an enumeration with its own __bool__")
            return bool(v.attrs["value"]) if (info["mixin"] or info["flag"]) else True
        self.unsupported(node, "truth value of %r" % (v,))

    def iterate(self, v, node):
        if isinstance(v, (str, tuple, list, dict, set, frozenset, range)):
            return list(v)
        if isinstance(v, SeqVal):
            return list(v.s)
        if isinstance(v, ClassInfo) and self.f.p.enum_info(v) is not None:
            seen, out = set(), []
            for nm, mem in self.f.enum_members(v):  # iteration skips aliases
                if id(mem) not in seen:
                    seen.add(id(mem))
                    out.append(mem)
            return out
        if isinstance(v, FNT):
            return list(v)
        self.unsupported(node, "iteration over %r" % (v,))

    def assign(self, target, v):
        if isinstance(target, ast.Name):
            self.env[target.id] = v
        elif isinstance(target, (ast.Tuple, ast.List)):
            vals = self.iterate(v, target)
            if any(isinstance(t, ast.Starred) for t in target.elts) or len(vals) != len(target.elts):
                self.unsupported(target, "unpacking")
            for t, x in zip(target.elts, vals):
                self.assign(t, x)
        elif isinstance(target, ast.Subscript):
            obj = self.expr(target.value)
            if isinstance(obj, (list, dict)) and not isinstance(target.slice, ast.Slice):
                try:
                    obj[self.expr(target.slice)] = v
                except Exception:
                    self.unsupported(target, "subscript store")
            elif isinstance(obj, list) and isinstance(target.slice, ast.Slice):
                lo = self.expr(target.slice.lower) if target.slice.lower else None
                hi = self.expr(target.slice.upper) if target.slice.upper else None
                obj[lo:hi] = self.iterate(v, target)
            else:
                self.unsupported(target, "subscript store")
        elif isinstance(target, ast.Attribute):
            obj = self.expr(target.value)
            if isinstance(obj, FObj):
                obj.attrs[target.attr] = v
            elif isinstance(obj, ClassInfo) and obj is getattr(self.f, "_hook_target", None):
                self.f._hook_overlay[target.attr] = v  # __init_subclass__ setting an attribute of the class being created
            elif isinstance(obj, _Partial) and obj.kind in ("closure", "lambda") and target.attr in ("__doc__", "__name__", "__qualname__", "__module__"):
                pass  # metadata of a function object: not part of what it computes
            else:
                self.unsupported(target, "attribute store")
        else:
            self.unsupported(target, "assignment target")

    # -- expressions --------------------------------------------------------

    def expr(self, e: ast.expr):
        self.tick(e)
        meth = getattr(self, "e_" + type(e).__name__, None)
        if meth is None:
            ok, v = closed_const_eval(e)
            if ok:
                return v
            self.unsupported(e, "expression")
        return meth(e)

    def e_Constant(self, e):
        return e.value

    def e_Tuple(self, e):
        return tuple(self._elts(e.elts))

    def e_List(self, e):
        return list(self._elts(e.elts))

    def e_Set(self, e):
        return set(self._elts(e.elts))

    def _elts(self, elts):
        out = []
        for x in elts:
            if isinstance(x, ast.Starred):
                out.extend(self.iterate(self.expr(x.value), x))
            else:
                out.append(self.expr(x))
        return out

    def e_Dict(self, e):
        d = {}
        for k, v in zip(e.keys, e.values):
            if k is None:
                d.update(self.expr(v))
            else:
                d[self.expr(k)] = self.expr(v)
        return d

    def _comp(self, e, gens, emit):
        if not gens:
            emit()
            return
        g = gens[0]
        for x in self.iterate(self.expr(g.iter), g.iter):
            self.assign(g.target, x)
            if all(self.truth(self.expr(c), c) for c in g.ifs):
                self._comp(e, gens[1:], emit)

    def _scoped(self, fn):
        saved = dict(self.env)
        try:
            return fn()
        finally:
            for k in list(self.env):
                if k not in saved:
                    del self.env[k]
            self.env.update(saved)

    def e_ListComp(self, e):
        out = []
        self._scoped(lambda: self._comp(e, e.generators, lambda: out.append(self.expr(e.elt))))
        return out

    e_GeneratorExp = e_ListComp

    def e_SetComp(self, e):
        return set(self.e_ListComp(e))

    def e_DictComp(self, e):
        out = {}

        def emit():
            out[self.expr(e.key)] = self.expr(e.value)

        self._scoped(lambda: self._comp(e, e.generators, emit))
        return out

    def e_JoinedStr(self, e):
        out = []
        for v in e.values:
            if isinstance(v, ast.Constant):
                out.append(str(v.value))
            elif isinstance(v, ast.FormattedValue):
                if v.format_spec is not None or v.conversion not in (-1, 115):
                    self.unsupported(e, "f-string format")
                out.append(self._str(self.expr(v.value), e))
            else:
                self.unsupported(e, "f-string")
        return "".join(out)

    def _str(self, v, node):
        if isinstance(v, str):
            return v
        if isinstance(v, SeqVal):
            return v.s
        if isinstance(v, (int, float)) and not isinstance(v, bool):
            return str(v)
        if isinstance(v, Enzyme):
            return v.name
        if getattr(v, "enum_member", False):
            info = self.f.p.enum_info(v.ci)
            if self.f.p.class_attr_def(v.ci, "__str__")[1] is not None or self.f.p.class_attr_def(v.ci, "__format__")[1] is not None:
                self.unsupported(node, "str() of a member of an enumeration with its own __str__")
            # (Python >= 3.12: str() and format() of a member are "Class.NAME" also when a type is mixed in; StrEnum: the value)
            return v.attrs["value"] if info["str_enum"] else "%s.%s" % (v.ci.name, v.attrs["name"])
        self.unsupported(node, "str() of %r" % (v,))

    def e_Name(self, e):
        if e.id in self.env:
            return self.env[e.id]
        if e.id == "NotImplemented":
            return NotImplemented
        if e.id in ("True", "False", "None"):
            return {"True": True, "False": False, "None": None}[e.id]
        if self.m is not None:
            r = self.f.p.lookup(self.m.name, e.id)
            if r is not None:
                return self._from_binding(r, e)
        if e.id in ("str", "issubclass", "super", "isinstance", "format", "next", "iter", "hasattr", "getattr", "type", "filter", "map", "staticmethod", "classmethod", "setattr", "vars") or e.id in PURE_BUILTINS:
            return _Bound("builtin", None, e.id)
        self.unsupported(e, "name")

    def _from_binding(self, r, node):
        if isinstance(r, (ClassInfo, ModRef)):
            return r
        if isinstance(r, FuncInfo):
            return _Bound("func", (r, None), r.name)
        if isinstance(r, Ext):
            d = r.dotted
            if d.startswith("Bio.Restriction."):
                name = d.split(".")[-1]
                try:
                    return Enzyme.get(name)
                except AttributeError:
                    self.unsupported(node, "unknown enzyme %s" % name)
            if d in ("Bio.Seq.Seq",):
                return _Bound("builtin", None, "Seq")
            if d == "Bio.Seq.reverse_complement":
                return _Bound("builtin", None, "reverse_complement")
            if d in ("itertools.chain",):
                return _Bound("builtin", None, "chain")
            if d == "re":
                return _ReModule()
            if d in ("collections", "functools", "operator", "itertools", "types", "six", "enum", "typing") or d in LIBRARY_DATA_MODULES:
                return _LibModule(d)
            if d.startswith("typing.") and d != "typing.NamedTuple":
                return _Bound("lib", None, d)  # a type expression: only ever passed around
            if d == "enum.auto":
                return _Bound("lib", None, d)
            ok_, v_ = library_constant(d)
            if ok_:
                return v_
            if d in ("six.iteritems", "six.itervalues", "six.iterkeys", "six.viewitems", "six.viewkeys", "six.viewvalues"):
                return _Bound("lib", None, d)
            if d in ("collections.OrderedDict", "types.MappingProxyType"):
                return _Bound("builtin", None, "dict")  # a read-only view folds to the table it shows
            if d in ("functools.partial", "functools.reduce", "operator.methodcaller", "operator.attrgetter", "operator.itemgetter",
                     "collections.namedtuple", "typing.NamedTuple") or (d.startswith("operator.") and d[9:] in _OPERATOR_FUNCS):
                return _Bound("lib", None, d)
            if d.startswith("re.") and d[3:] in SAFE_RE_FUNCS:
                return _Bound("re", None, d[3:])
            self.unsupported(node, "external name %s" % d)
        if isinstance(r, tuple) and r and r[0] == "assign":
            _, mod, val = r
            ok, v = closed_const_eval(val)
            if ok:
                return v
            fr = _Frame(self.f, mod, {}, None, None)
            return fr.expr(val)
        self.unsupported(node, "name")

    def e_Attribute(self, e):
        base = self.expr(e.value)
        a = e.attr
        if isinstance(base, ModRef):
            r = self.f.p.lookup(base.name, a)
            if r is None:
                self.unsupported(e, "module attribute")
            return self._from_binding(r, e)
        if isinstance(base, ClassInfo):
            # an attribute some __init_subclass__ on the MRO computes for every class when it is created is not what the
            # class bodies say: that hook is not evaluated here
            for c in self.f.p.mro(base):
                isub = c.attrs.get("__init_subclass__") if isinstance(c, ClassInfo) else None
                if getattr(base, "_hooks_applied", False):
                    break
                if isinstance(isub, FuncInfo):
                    for n in ast.walk(isub.node):
                        if isinstance(n, ast.Assign) and any(isinstance(t, ast.Attribute) and t.attr == a for t in n.targets) \
                                and not (isinstance(n.value, ast.Constant) and n.value.value is None):
                            raise AnalysisError("%s:%d: class attribute %s is computed per class by %s.__init_subclass__; class creation "
                                                "hooks are not evaluated by the constant folder" % (isub.module.relpath, n.lineno, a, c.name))
            if self.f.p.enum_info(base) is not None and not (a.startswith("_") and a != "__members__"):
                members = self.f.enum_members(base)
                if a == "__members__":
                    return dict(members)
                for nm, mem in members:
                    if nm == a:
                        return mem
            if a == "__dict__":
                return _ClassNS(self.f, base)
            if base is getattr(self.f, "_hook_target", None) and a in (self.f._hook_overlay or {}):
                return self.f._hook_overlay[a]  # stored on the class a moment ago by the hook / decorator under evaluation
            owner, raw = self.f.p.class_attr_def(base, a)
            if owner is None:
                if a == "__name__":
                    return base.name
                if a == "__qualname__":
                    return base.name
                if a == "__module__":
                    return base.module.name if base.module else "<synthetic>"
                self.unsupported(e, "attribute")
            return self.f._attr_value(owner, raw, base)
        if isinstance(base, _Super):
            owner, raw = self.f.p.class_attr_def(base.cls, a, after=base.after)
            if owner is None and a == "__init_subclass__":
                return _Partial("lambda", ast.parse("lambda: None", mode="eval").body, self, [], {})  # object.__init_subclass__
            if owner is None:
                self.unsupported(e, "super attribute")
            return self.f._attr_value(owner, raw, base.cls)
        if isinstance(base, _LibModule):
            d = "%s.%s" % (base.name, a)
            if d in ("collections.OrderedDict", "types.MappingProxyType"):
                return _Bound("builtin", None, "dict")
            if d == "itertools.chain":
                return _Bound("builtin", None, "chain")
            if d in ("functools.partial", "functools.reduce", "operator.methodcaller", "operator.attrgetter", "operator.itemgetter",
                     "collections.namedtuple") or (base.name == "operator" and a in _OPERATOR_FUNCS):
                return _Bound("lib", None, d)
            if d in ("six.iteritems", "six.itervalues", "six.iterkeys", "six.viewitems", "six.viewkeys", "six.viewvalues"):
                return _Bound("lib", None, d)
            if d == "enum.auto":
                return _Bound("lib", None, d)
            if d == "typing.NamedTuple":
                return _Bound("lib", None, d)
            if base.name == "typing":
                return _Bound("lib", None, d)  # typing.Text, typing.Tuple ...: type expressions, only ever passed around
            if d == "six.MAXSIZE":
                import sys as _sys
                return _sys.maxsize
            ok_, v_ = library_constant(d)
            if ok_:
                return v_
            self.unsupported(e, "%s" % d)
        if isinstance(base, _ReModule):
            if a in SAFE_RE_FUNCS:
                return _Bound("re", None, a)
            if a in SAFE_RE_FLAGS:
                import re as _re

                return int(getattr(_re, a))
            self.unsupported(e, "re.%s" % a)
        import re as _re_mod

        if isinstance(base, _re_mod.Match):
            if a in ("group", "groups", "start", "end", "span", "groupdict"):
                return _Bound("native", base, a)
            if a in ("string", "pos", "endpos", "lastindex"):
                return getattr(base, a)
            self.unsupported(e, "match attribute")
        if isinstance(base, (FNT, FObj)):
            if isinstance(base, FNT) and a in base.fields:
                return base[base.fields.index(a)]
            if isinstance(base, FObj) and a in base.attrs:
                return base.attrs[a]
            if base.ci is None:
                self.unsupported(e, "attribute %s of a namedtuple" % a)
            owner, raw = self.f.p.class_attr_def(base.ci, a)
            if isinstance(raw, FuncInfo):
                if raw.kind == "property":
                    return self.f.call_func(raw, base.ci, (), {}, instance=base)
                if raw.kind == "method":
                    return _Bound("method", (raw, base), a)
                return _Bound("func", (raw, base.ci), a)
            if owner is not None:
                return self.f._attr_value(owner, raw, base.ci)
            if getattr(base, "enum_member", False):
                info = self.f.p.enum_info(base.ci)
                v = base.attrs["value"]
                if info["mixin"] == "str" and isinstance(v, str) and a in SAFE_STR_METHODS:
                    return _Bound("native", v, a)  # Topology.CIRCULAR.lower(): the str the member is
            self.unsupported(e, "attribute of a value object")
        if isinstance(base, Enzyme):
            if a in ENZYME_ATTRS:
                return getattr(base.obj, a)
            if a in ENZYME_METHODS:
                return _Bound("enzyme", base, a)
            if a == "__name__":
                return base.name
            self.unsupported(e, "enzyme attribute")
        if isinstance(base, str):
            if a in SAFE_STR_METHODS:
                return _Bound("native", base, a)
            self.unsupported(e, "str method")
        if isinstance(base, list) and a in SAFE_LIST_METHODS:
            return _Bound("native", base, a)
        if isinstance(base, dict) and a in SAFE_DICT_METHODS:
            return _Bound("native", base, a)
        if isinstance(base, tuple) and a in SAFE_TUPLE_METHODS:
            return _Bound("native", base, a)
        if isinstance(base, SeqVal):
            if a in ("reverse_complement", "complement", "upper", "lower"):
                return _Bound("seq", base, a)
            self.unsupported(e, "Seq method")
        if isinstance(base, _ClassNS) and a in ("get", "keys"):
            return _Bound("native", base, a)
        if isinstance(base, _Bound) and base.kind == "builtin" and base.name == "str" and a in ("maketrans", "join", "format"):
            return _Bound("strstatic", None, a)
        if isinstance(base, _Bound) and base.kind in ("func", "method") and a in ("__doc__", "__name__"):
            fi0 = base.target[0]
            return ast.get_docstring(fi0.node, clean=False) if a == "__doc__" else fi0.name
        if isinstance(base, _Partial) and base.kind == "closure" and a in ("__doc__", "__name__"):
            return ast.get_docstring(base.data[0], clean=False) if a == "__doc__" else base.data[0].name
        self.unsupported(e, "attribute base %r" % (base,))

    def attr_of(self, base, a, node):
        """attribute of an evaluated value (what e_Attribute does, on values)"""
        holder = ast.Attribute(value=ast.Name(id="__v__", ctx=ast.Load()), attr=a, ctx=ast.Load())
        ast.copy_location(holder, node)
        ast.copy_location(holder.value, node)
        saved = self.env.get("__v__", self)
        self.env["__v__"] = base
        try:
            return self.e_Attribute(holder)
        finally:
            if saved is self:
                self.env.pop("__v__", None)
            else:
                self.env["__v__"] = saved

    def format_str(self, fmt, args, kwargs, node):
        """str.format with attribute / index fields resolved on the folder's own values"""
        import string

        out = []
        auto = 0
        try:
            for lit, field, spec, conv in string.Formatter().parse(fmt):
                out.append(lit)
                if field is None:
                    continue
                import _string

                first, it = _string.formatter_field_name_split(field)
                if first == "":
                    v = args[auto]
                    auto += 1
                elif isinstance(first, int):
                    v = args[first]
                else:
                    v = kwargs[first]
                for is_attr, key in it:
                    v = self.attr_of(v, key, node) if is_attr else v[key]
                if spec and ("{" in spec):
                    self.unsupported(node, "nested format spec")
                if isinstance(v, SeqVal):
                    v = v.s
                if isinstance(v, Enzyme):
                    v = v.name
                if not isinstance(v, (str, int, float, tuple, list, type(None), bool)):
                    self.unsupported(node, "format of %r" % (v,))
                if conv == "r":
                    v = repr(v)
                elif conv in ("s", "a"):
                    v = str(v)
                out.append(format(v, spec or ""))
        except AnalysisError:
            raise
        except Exception as ex:
            self.unsupported(node, "str.format raised %s:" % type(ex).__name__)
        return "".join(out)

    def closure(self, st):
        a = st.args
        if st.decorator_list and not all(decorator_name(d) in ("wraps", "functools.wraps") for d in st.decorator_list):
            self.unsupported(st, "decorated nested function")
        params = [x.arg for x in a.posonlyargs + a.args]
        dvals = [self.expr(d) for d in a.defaults]
        return _Partial("closure", st, self, params, dict(zip(params[len(params) - len(dvals):], dvals)))

    def e_Lambda(self, e):
        a = e.args
        if a.vararg or a.kwarg or a.kwonlyargs:
            self.unsupported(e, "lambda signature")
        params = [x.arg for x in a.posonlyargs + a.args]
        dvals = [self.expr(d) for d in a.defaults]
        return _Partial("lambda", e, self, params, dict(zip(params[len(params) - len(dvals):], dvals)))

    def instantiate(self, ci, args, kwargs, node):
        """value classes of the repo used inside a structure(): namedtuple-based ones, and plain classes whose
        __init__ only stores its arguments"""
        p = self.f.p
        if p.enum_info(ci) is not None:
            if len(args) != 1 or kwargs:
                self.unsupported(node, "call of an enumeration")
            if getattr(args[0], "enum_member", False) and args[0].ci is ci:
                return args[0]
            for nm, mem in self.f.enum_members(ci):
                v0 = mem.attrs["value"]
                if type(v0) is type(args[0]) and v0 == args[0]:
                    return mem
            raise Raises("ValueError", "%s:%d" % (self.m.relpath if self.m else "?", getattr(node, "lineno", 0)))
        for c in p.mro(ci):
            if isinstance(c, ClassInfo):
                fields = _nt_fields(self, c)
                if fields is not None:
                    vals = list(args) + [None] * (len(fields) - len(args))
                    if len(args) > len(fields) or any(k not in fields for k in kwargs):
                        self.unsupported(node, "namedtuple arguments")
                    for k, v in kwargs.items():
                        vals[fields.index(k)] = v
                    o = FNT(vals)
                    o.ci, o.fields = ci, tuple(fields)
                    return o
        owner, init = p.class_attr_def(ci, "__init__")
        plain_bases = all(isinstance(b, ClassInfo) or getattr(b, "dotted", "") in ("builtins.object", "object") for b in p.mro(ci))
        if isinstance(init, FuncInfo) and plain_bases:
            o = FObj(ci)
            self.f.call_func(init, ci, args, kwargs, instance=o)
            return o
        if init is None and plain_bases and not args and not kwargs and p.class_attr_def(ci, "__new__")[1] is None:
            return FObj(ci)  # a stateless object (a strategy): all it has is its class
        self.unsupported(node, "instantiation of %s" % ci.qualname)

    def e_BinOp(self, e):
        return self.binop(e.op, self.expr(e.left), self.expr(e.right), e)

    def binop(self, op, l, r, node):
        if isinstance(l, SeqVal) and isinstance(op, ast.Add):
            l = l.s
        if isinstance(r, SeqVal) and isinstance(op, ast.Add):
            r = r.s
        native = (str, int, tuple, list)
        if isinstance(l, native) and isinstance(r, native) and not isinstance(l, bool) and not isinstance(r, bool):
            try:
                if isinstance(op, ast.Add):
                    return l + r
                if isinstance(op, ast.Mult):
                    return l * r
                if isinstance(op, ast.Sub):
                    return l - r
                if isinstance(op, ast.Mod):
                    return l % r
                if isinstance(op, ast.FloorDiv):
                    return l // r
            except Exception:
                self.unsupported(node, "binary operation")
        if isinstance(op, ast.Mod) and isinstance(l, str):
            try:
                return l % (r.s if isinstance(r, SeqVal) else r)
            except Exception:
                self.unsupported(node, "%-format")
        self.unsupported(node, "binary operation on %r and %r" % (l, r))

    def e_UnaryOp(self, e):
        v = self.expr(e.operand)
        if isinstance(e.op, ast.Not):
            return not self.truth(v, e)
        if isinstance(e.op, ast.USub) and isinstance(v, int):
            return -v
        if isinstance(e.op, ast.UAdd) and isinstance(v, int):
            return v
        self.unsupported(e, "unary operation")

    def e_BoolOp(self, e):
        if isinstance(e.op, ast.And):
            v = True
            for x in e.values:
                v = self.expr(x)
                if not self.truth(v, x):
                    return v
            return v
        v = False
        for x in e.values:
            v = self.expr(x)
            if self.truth(v, x):
                return v
        return v

    def e_Compare(self, e):
        left = self.expr(e.left)
        for op, c in zip(e.ops, e.comparators):
            right = self.expr(c)
            if isinstance(op, (ast.Is, ast.IsNot)):
                same = left is right or (isinstance(left, Enzyme) and left == right) or (
                    isinstance(left, (bool, type(None))) and left is right)
                r = same if isinstance(op, ast.Is) else not same
            elif isinstance(op, (ast.In, ast.NotIn)):
                if isinstance(right, SeqVal):
                    right = right.s
                if isinstance(left, SeqVal):
                    left = left.s
                try:
                    r = (left in right) if isinstance(op, ast.In) else (left not in right)
                except Exception:
                    self.unsupported(e, "membership test")
            else:
                lv = left.s if isinstance(left, SeqVal) else left
                rv = right.s if isinstance(right, SeqVal) else right
                ok_types = (str, int, tuple, list, Enzyme, type(None), bool, dict)
                if (getattr(lv, "enum_member", False) or getattr(rv, "enum_member", False)) and isinstance(op, (ast.Eq, ast.NotEq)):
                    # members of an enumeration: identical or not; one that mixes in str / int also equals its plain value
                    if getattr(lv, "enum_member", False) and getattr(rv, "enum_member", False):
                        same = lv is rv
                    else:
                        mem, other = (lv, rv) if getattr(lv, "enum_member", False) else (rv, lv)
                        info_ = self.f.p.enum_info(mem.ci)
                        if self.f.p.class_attr_def(mem.ci, "__eq__")[1] is not None:
                            self.unsupported(e, "comparison with a member of an enumeration that defines __eq__")
                        same = info_["mixin"] is not None and isinstance(other, (str, int)) and mem.attrs["value"] == other
                    r = same if isinstance(op, ast.Eq) else not same
                    if not r:
                        return False
                    left = right
                    continue
                if not isinstance(lv, ok_types) or not isinstance(rv, ok_types):
                    if isinstance(op, (ast.Eq, ast.NotEq)) and (lv is NotImplemented or rv is NotImplemented or isinstance(lv, ClassInfo) or isinstance(rv, ClassInfo)):
                        r = (lv is rv) if isinstance(op, ast.Eq) else (lv is not rv)
                        if not r:
                            return False
                        left = right
                        continue
                    self.unsupported(e, "comparison")
                try:
                    r = {ast.Eq: lambda: lv == rv, ast.NotEq: lambda: lv != rv, ast.Lt: lambda: lv < rv, ast.LtE: lambda: lv <= rv,
                         ast.Gt: lambda: lv > rv, ast.GtE: lambda: lv >= rv}[type(op)]()
                except Exception:
                    self.unsupported(e, "comparison")
            if not r:
                return False
            left = right
        return True

    def e_IfExp(self, e):
        return self.expr(e.body if self.truth(self.expr(e.test), e.test) else e.orelse)

    def e_Subscript(self, e):
        base = self.expr(e.value)
        if isinstance(base, _Bound) and base.kind == "lib" and isinstance(base.name, str) and base.name.startswith("typing."):
            return base  # typing.Tuple[Text, Text]: still a type expression
        if isinstance(base, SeqVal):
            base = base.s
        if isinstance(e.slice, ast.Slice):
            if not isinstance(base, (str, tuple, list)):
                self.unsupported(e, "slice")
            lo = self.expr(e.slice.lower) if e.slice.lower else None
            hi = self.expr(e.slice.upper) if e.slice.upper else None
            st = self.expr(e.slice.step) if e.slice.step else None
            if not all(isinstance(x, (int, type(None))) for x in (lo, hi, st)):
                self.unsupported(e, "slice bounds")
            return base[lo:hi:st]
        idx = self.expr(e.slice)
        if isinstance(base, ClassInfo) and self.f.p.enum_info(base) is not None and isinstance(idx, str):
            for nm, mem in self.f.enum_members(base):
                if nm == idx:
                    return mem
            raise Raises("KeyError", "%s:%d" % (self.m.relpath if self.m else "?", getattr(e, "lineno", 0)))
        if isinstance(base, (str, tuple, list, dict, _ClassNS)):
            try:
                return base[idx]
            except (KeyError, IndexError) as ex:
                # what the program itself would see (a memo table probed with try / except KeyError)
                raise Raises(type(ex).__name__, "%s:%d" % (self.m.relpath if self.m else "?", getattr(e, "lineno", 0)))
            except Exception:
                self.unsupported(e, "subscript out of range / missing key")
        self.unsupported(e, "subscript")

    def e_Call(self, e):
        if isinstance(e.func, ast.Name) and e.func.id == "super" and "super" not in self.env:
            if e.keywords:
                self.unsupported(e, "super() keywords")
            if not e.args:
                if self.owner is None or self.cls is None:
                    self.unsupported(e, "super() outside a method")
                return _Super(self.owner, self.cls)
            if len(e.args) == 2:
                a, c = self.expr(e.args[0]), self.expr(e.args[1])
                if isinstance(a, ClassInfo) and isinstance(c, ClassInfo):
                    return _Super(a, c)
            self.unsupported(e, "super() form")
        fn = self.expr(e.func)
        args = self._elts(e.args)
        kwargs = {}
        for k in e.keywords:
            if k.arg is None:
                kwargs.update(self.expr(k.value))
            else:
                kwargs[k.arg] = self.expr(k.value)
        return self.apply(fn, args, kwargs, e)

    def apply(self, fn, args, kwargs, e):
        """apply a callable value to evaluated arguments"""
        if isinstance(fn, _Partial):
            k = fn.kind
            if k == "partial":
                kw = dict(fn.kw)
                kw.update(kwargs)
                return self.apply(fn.data[0], list(fn.data[1:]) + list(args), kw, e)
            if k == "methodcaller" and len(args) == 1:
                return self.apply(self.attr_of(args[0], fn.data[0], e), list(fn.data[1:]), dict(fn.kw), e)
            if k == "attrgetter" and len(args) == 1:
                outs = []
                for path in fn.data:
                    v = args[0]
                    for a in path.split("."):
                        v = self.attr_of(v, a, e)
                    outs.append(v)
                return outs[0] if len(outs) == 1 else tuple(outs)
            if k == "itemgetter" and len(args) == 1:
                try:
                    outs = [args[0][key] for key in fn.data]
                except Exception:
                    self.unsupported(e, "itemgetter")
                return outs[0] if len(outs) == 1 else tuple(outs)
            if k == "lambda":
                lam, frame, params, defaults = fn.data
                env = dict(frame.env)
                env.update(defaults)
                if len(args) > len(params):
                    self.unsupported(e, "lambda arguments")
                env.update(zip(params, args))
                env.update(kwargs)
                if any(p_ not in env for p_ in params):
                    self.unsupported(e, "lambda arguments")
                sub = _Frame(self.f, frame.m, env, frame.owner, frame.cls)
                return sub.expr(lam.body)
            if k == "closure":
                st, frame, params, defaults = fn.data
                if st.args.vararg or st.args.kwarg or st.args.kwonlyargs:
                    self.unsupported(e, "nested function signature")
                env = dict(frame.env)
                env.update(defaults)
                if len(args) > len(params):
                    self.unsupported(e, "nested function arguments")
                env.update(zip(params, args))
                env.update(kwargs)
                if any(p_ not in env for p_ in params):
                    self.unsupported(e, "nested function arguments")
                sub = _Frame(self.f, frame.m, env, frame.owner, frame.cls)
                try:
                    sub.block(st.body)
                except _Return as r:
                    return r.value
                return None
            if k == "ntclass":
                name, fields = fn.data
                vals = list(args) + [None] * (len(fields) - len(args))
                if len(args) > len(fields) or any(x not in fields for x in kwargs):
                    self.unsupported(e, "namedtuple arguments")
                for x, v in kwargs.items():
                    vals[fields.index(x)] = v
                o = FNT(vals)
                o.ci, o.fields = None, tuple(fields)
                return o
            self.unsupported(e, "call of a %s object" % k)
        if isinstance(fn, _Bound) and fn.kind == "lib":
            d = fn.name
            if d == "functools.partial" and args:
                return _Partial("partial", *args, **kwargs)
            if d in ("collections.namedtuple", "typing.NamedTuple") and len(args) >= 2 and isinstance(args[0], str):
                spec = args[1]
                fields = spec.replace(",", " ").split() if isinstance(spec, str) else [x[0] if isinstance(x, (list, tuple)) else x for x in spec]
                return _Partial("ntclass", args[0], list(fields))
            if d in ("operator.methodcaller", "operator.attrgetter", "operator.itemgetter") and args:
                return _Partial(d.split(".")[-1], *args, **kwargs)
            if d == "functools.reduce" and len(args) in (2, 3):
                seq = self.iterate(args[1], e)
                if len(args) == 3:
                    acc = args[2]
                elif seq:
                    acc, seq = seq[0], seq[1:]
                else:
                    self.unsupported(e, "reduce of an empty sequence")
                for x in seq:
                    acc = self.apply(args[0], [acc, x], {}, e)
                return acc
            if d == "enum.auto" and not args and not kwargs:
                return _Auto()
            if d.startswith("six.") and len(args) == 1 and not kwargs and isinstance(args[0], dict):
                which = d[4:].replace("iter", "").replace("view", "")
                return list(getattr(args[0], which)())
            if d.startswith("operator."):
                import operator as _op

                a2 = [x.s if isinstance(x, SeqVal) else x for x in args]
                if all(isinstance(x, (str, int, tuple, list, dict, type(None), bool)) for x in a2):
                    try:
                        return getattr(_op, d[9:])(*a2)
                    except Exception:
                        self.unsupported(e, d)
                if d[9:] in ("is_", "is_not") and len(a2) == 2:
                    return (a2[0] is a2[1]) == (d[9:] == "is_")
            self.unsupported(e, d)
        if isinstance(fn, _Bound) and fn.kind == "builtin" and fn.name in ("filter", "map") and args:
            f = args[0]
            seqs = [self.iterate(a, e) for a in args[1:]]
            if fn.name == "filter" and len(seqs) == 1:
                return [x for x in seqs[0] if (x if f is None else self.apply(f, [x], {}, e))]
            if fn.name == "map" and seqs:
                n = min(len(q) for q in seqs)
                return [self.apply(f, [q[i] for q in seqs], {}, e) for i in range(n)]
        if isinstance(fn, _Bound) and fn.kind == "native" and fn.name in ("format", "format_map") and isinstance(fn.target, str):
            return self.format_str(fn.target, args if fn.name == "format" else [], kwargs if fn.name == "format" else (args[0] if args else {}), e)
        if isinstance(fn, ClassInfo):
            return self.instantiate(fn, args, kwargs, e)
        if not isinstance(fn, _Bound):
            self.unsupported(e, "call")
        if fn.kind == "re":
            import re as _re

            a2 = [x.s if isinstance(x, SeqVal) else x for x in args]
            if not all(isinstance(x, (str, int)) for x in a2) or not all(isinstance(v, (str, int)) for v in kwargs.values()):
                self.unsupported(e, "re.%s on non-constant arguments" % fn.name)
            try:
                return getattr(_re, fn.name)(*a2, **kwargs)
            except Exception as ex:
                self.unsupported(e, "re.%s raised %s:" % (fn.name, type(ex).__name__))
        if fn.kind == "method":
            fi, obj = fn.target
            return self.f.call_func(fi, obj.ci, args, kwargs, instance=obj)
        if fn.kind == "func":
            fi, cls = fn.target
            return self.f.call_func(fi, cls, args, kwargs)
        if fn.kind == "enzyme":
            if args or kwargs:
                self.unsupported(e, "enzyme method arguments")
            return getattr(fn.target.obj, fn.name)()
        if fn.kind == "native":
            a2 = [x.s if isinstance(x, SeqVal) else x for x in args]
            k2 = {k: (v.s if isinstance(v, SeqVal) else v) for k, v in kwargs.items()}
            if fn.name == "join":
                a2 = [[self._str(x, e) for x in self.iterate(a2[0], e)]] if a2 else a2
            try:
                r = getattr(fn.target, fn.name)(*a2, **k2)
            except Exception as ex:
                self.unsupported(e, "%s.%s raised %s:" % (type(fn.target).__name__, fn.name, type(ex).__name__))
            if isinstance(r, (type({}.items()), type({}.keys()), type({}.values()))):
                r = list(r)
            return r
        if fn.kind == "strstatic":
            try:
                return getattr(str, fn.name)(*args, **kwargs)
            except Exception:
                self.unsupported(e, "str.%s" % fn.name)
        if fn.kind == "seq":
            if args or kwargs:
                self.unsupported(e, "Seq method arguments")
            s = fn.target.s
            if fn.name == "reverse_complement":
                return SeqVal(_rc(s))
            if fn.name == "complement":
                return SeqVal(_rc(s)[::-1])
            return SeqVal(getattr(s, fn.name)())
        if fn.kind == "builtin":
            n = fn.name
            if n in ("staticmethod", "classmethod") and len(args) == 1 and not kwargs and isinstance(args[0], _Bound) and args[0].kind == "func":
                return _Wrapped(n, args[0])
            if n in ("staticmethod", "classmethod") and len(args) == 1 and not kwargs and isinstance(args[0], _Partial) and args[0].kind == "closure":
                return _Wrapped(n, args[0])
            if n == "vars" and len(args) == 1 and not kwargs and isinstance(args[0], ClassInfo):
                return _ClassNS(self.f, args[0])
            if n == "setattr" and len(args) == 3 and not kwargs and isinstance(args[0], ClassInfo) and isinstance(args[1], str) \
                    and args[0] is getattr(self.f, "_hook_target", None):
                self.f._hook_overlay[args[1]] = args[2]
                return None
            if n in ("str", "format") and len(args) == 1 and not kwargs:
                return self._str(args[0], e)
            if n == "str" and not args:
                return ""
            if n == "Seq" and len(args) == 1 and not kwargs:
                return SeqVal(self._str(args[0], e))
            if n == "reverse_complement" and len(args) == 1:
                return _rc(self._str(args[0], e))
            if n == "chain":
                out = []
                for a in args:
                    out.extend(self.iterate(a, e))
                return out
            if n == "next" and args:
                seq = self.iterate(args[0], e)
                if seq:
                    return seq[0]
                if len(args) > 1:
                    return args[1]
                self.unsupported(e, "next() of an empty sequence")
            if n == "iter" and len(args) == 1:
                return self.iterate(args[0], e)
            if n == "issubclass" and len(args) == 2:
                c, o = args
                if isinstance(c, ClassInfo):
                    others = o if isinstance(o, tuple) else (o,)
                    if all(isinstance(x, ClassInfo) for x in others):
                        return any(self.f.p.is_subclass(c, x) for x in others)
            if n == "isinstance" and len(args) == 2 and not isinstance(args[0], (ClassInfo, Enzyme, SeqVal, _Bound)):
                names = {"str": str, "int": int, "tuple": tuple, "list": list, "dict": dict}
                t = args[1]
                ts = t if isinstance(t, tuple) else (t,)
                if all(isinstance(x, _Bound) and x.kind == "builtin" and x.name in names for x in ts):
                    return isinstance(args[0], tuple(names[x.name] for x in ts))
                if all(isinstance(x, ClassInfo) or (isinstance(x, _Partial) and x.kind == "ntclass") or (
                        isinstance(x, _Bound) and x.kind == "builtin" and x.name in names) for x in ts):
                    # classes of the code base (and namedtuple classes made on the spot) among the types
                    v0 = args[0]
                    for x in ts:
                        if isinstance(x, _Bound):
                            if isinstance(v0, names[x.name]) and not (isinstance(v0, FNT) and x.name != "tuple"):
                                return True
                        elif isinstance(x, ClassInfo):
                            ci0 = getattr(v0, "ci", None)
                            if isinstance(v0, (FObj, FNT)) and isinstance(ci0, ClassInfo) and self.f.p.is_subclass(ci0, x):
                                return True
                        elif isinstance(v0, FNT) and v0.ci is None and tuple(v0.fields) == tuple(x.data[1]):
                            return True
                    return False
            if n == "type" and len(args) == 1 and isinstance(args[0], ClassInfo):
                return _Bound("builtin", None, "type")
            if n == "hasattr" and len(args) == 2 and isinstance(args[0], ClassInfo) and isinstance(args[1], str):
                return self.f.p.class_attr_def(args[0], args[1])[0] is not None
            if n == "getattr" and len(args) in (2, 3) and isinstance(args[0], ClassInfo) and isinstance(args[1], str):
                owner, raw = self.f.p.class_attr_def(args[0], args[1])
                if owner is None:
                    if len(args) == 3:
                        return args[2]
                    self.unsupported(e, "getattr of a missing attribute")
                return self.f._attr_value(owner, raw, args[0])
            if n in PURE_BUILTINS:
                a2 = [x.s if isinstance(x, SeqVal) else x for x in args]
                if all(isinstance(x, (str, int, tuple, list, dict, set, frozenset, range, type(None))) for x in a2):
                    try:
                        r = PURE_BUILTINS[n](*a2, **kwargs)
                    except Exception:
                        self.unsupported(e, "builtin call")
                    if n in ("zip", "enumerate", "reversed", "range"):
                        r = list(r)
                    return r
            self.unsupported(e, "builtin call")
        self.unsupported(e, "call")


def _nt_fields(frame, ci):
    """field names when the class derives from a namedtuple, else None"""
    node = ci.node
    if node is None:
        return None
    for b in node.bases:
        if isinstance(b, ast.Call) and ast.unparse(b.func) in ("collections.namedtuple", "namedtuple", "typing.NamedTuple", "NamedTuple") and len(b.args) >= 2:
            try:
                spec = ast.literal_eval(b.args[1]) if not isinstance(b.args[1], ast.Name) else None
            except Exception:
                spec = [el.elts[0].value for el in b.args[1].elts] if isinstance(b.args[1], (ast.List, ast.Tuple)) and all(
                    isinstance(el, (ast.Tuple, ast.List)) and el.elts and isinstance(el.elts[0], ast.Constant) for el in b.args[1].elts) else None
            if isinstance(spec, str):
                return spec.replace(",", " ").split()
            if isinstance(spec, (list, tuple)):
                return [x[0] if isinstance(x, (list, tuple)) else x for x in spec]
        if ast.unparse(b) in ("typing.NamedTuple", "NamedTuple"):
            return [st.target.id for st in node.body if isinstance(st, ast.AnnAssign) and isinstance(st.target, ast.Name)]
    return None


def _as_load(t):
    import copy

    t2 = copy.copy(t)
    t2.ctx = ast.Load()
    return t2
