# coding: utf-8
"""E2 -- constant folder for ``structure()`` class methods.

``structure()`` is a pure function of class constants; this module folds it
from the syntax tree for a given class of the static class table, the way a
compiler folds constants.  Only a whitelist of constructs is understood;
anything else raises AnalysisError (exit 2), never a guess.

Library data consulted (trusted base T4): ``Bio.Restriction`` enzyme
constants and ``Bio.Seq.Seq.reverse_complement``.
"""
from __future__ import annotations

import ast
from typing import Dict, List, Optional

from .loader import AnalysisError, ClassInfo, Const, Ext, FuncInfo, ModRef, Program

ENZYME_ATTRS = {
    "site", "fst5", "fst3", "ovhg", "ovhgseq", "size", "scd5", "scd3",
}
ENZYME_METHODS = {
    "elucidate", "is_5overhang", "is_3overhang", "is_blunt", "is_unknown",
    "is_palindromic", "is_ambiguous", "is_defined",
}


SAFE_BUILTINS = {"ord": ord, "chr": chr, "zip": zip, "dict": dict, "str": str, "len": len, "range": range, "enumerate": enumerate,
                 "tuple": tuple, "list": list, "sorted": sorted, "reversed": reversed, "set": set, "frozenset": frozenset, "min": min, "max": max}


def closed_const_eval(node: ast.expr):
    """Evaluate a *closed* constant expression (literals, comprehensions over
    literals, pure builtins such as ord/zip, str methods on literals): plain
    constant folding of a module-level table.  Returns (ok, value)."""
    bound = set()
    for n in ast.walk(node):
        if isinstance(n, ast.comprehension):
            for t in ast.walk(n.target):
                if isinstance(t, ast.Name):
                    bound.add(t.id)
    for n in ast.walk(node):
        if isinstance(n, ast.Name):
            if n.id not in bound and n.id not in SAFE_BUILTINS and n.id not in ("True", "False", "None"):
                return False, None
        elif isinstance(n, ast.Attribute):
            if n.attr.startswith("_") or n.attr not in ("upper", "lower", "join", "format", "replace", "translate", "maketrans", "items", "keys", "values", "strip", "split"):
                return False, None
        elif isinstance(n, (ast.Lambda, ast.Await, ast.Yield, ast.YieldFrom, ast.NamedExpr, ast.Starred)):
            return False, None
        elif isinstance(n, ast.Call) and n.keywords and any(k.arg is None for k in n.keywords):
            return False, None
    try:
        code = compile(ast.Expression(body=node), "<constant>", "eval")
        return True, eval(code, {"__builtins__": {}}, dict(SAFE_BUILTINS))
    except Exception:
        return False, None


class Raises(Exception):
    """The folded function raises this exception class."""

    def __init__(self, exc_name: str, where: str):
        Exception.__init__(self, exc_name)
        self.exc_name = exc_name
        self.where = where


class _Return(Exception):
    def __init__(self, value):
        self.value = value


class SeqVal(object):
    """Bio.Seq.Seq over a folded string."""

    def __init__(self, s: str):
        self.s = s


class Enzyme(object):
    """A Bio.Restriction enzyme (library constant)."""

    _cache: Dict[str, "Enzyme"] = {}

    def __init__(self, name: str):
        import Bio.Restriction

        self.name = name
        self.obj = getattr(Bio.Restriction, name)

    @classmethod
    def get(cls, name: str) -> "Enzyme":
        if name not in cls._cache:
            cls._cache[name] = Enzyme(name)
        return cls._cache[name]

    def __repr__(self):
        return "Enzyme(%s)" % self.name

    def __eq__(self, other):
        return isinstance(other, Enzyme) and other.name == self.name

    def __hash__(self):
        return hash(self.name)


class _Bound(object):
    def __init__(self, kind, target, name):
        self.kind, self.target, self.name = kind, target, name


class _Super(object):
    def __init__(self, after: ClassInfo, cls: ClassInfo):
        self.after, self.cls = after, cls


def _rc(s: str) -> str:
    from Bio.Seq import Seq

    return str(Seq(s).reverse_complement())


class Folder(object):
    def __init__(self, program: Program):
        self.p = program
        self.depth = 0

    # -- entry points -------------------------------------------------------

    def class_const(self, ci: ClassInfo, name: str):
        """Value of a class-level constant (cutter, signature, _level ...)."""
        owner, raw = self.p.class_attr_def(ci, name)
        if owner is None:
            raise AnalysisError("%s has no attribute %s" % (ci.qualname, name))
        return self._attr_value(owner, raw, ci)

    def _attr_value(self, owner: ClassInfo, raw, cls: ClassInfo):
        if isinstance(raw, Const):
            return raw.value
        if isinstance(raw, FuncInfo):
            return _Bound("func", (raw, cls), raw.name)
        if isinstance(raw, ast.AST):
            return self._module_expr(owner, raw)
        raise AnalysisError("cannot evaluate attribute of %s" % owner.qualname)

    def _module_expr(self, owner: ClassInfo, e: ast.expr):
        ev = _Frame(self, owner.module, {}, owner, None)
        return ev.expr(e)

    def call_method(self, ci: ClassInfo, name: str, after: Optional[ClassInfo] = None):
        owner, raw = self.p.class_attr_def(ci, name, after=after)
        if owner is None or not isinstance(raw, FuncInfo):
            raise AnalysisError("%s.%s does not resolve to a function" % (ci.qualname, name))
        return self.call_func(raw, ci)

    def call_func(self, fi: FuncInfo, cls: ClassInfo):
        self.depth += 1
        if self.depth > 8:
            raise AnalysisError("folder recursion too deep at %s" % fi.qualname)
        try:
            params = [a.arg for a in fi.node.args.args]
            env = {}
            if fi.kind == "classmethod":
                if len(params) != 1:
                    raise AnalysisError("%s: unexpected parameters" % fi.qualname)
                env[params[0]] = cls
            elif fi.kind == "staticmethod":
                if params:
                    raise AnalysisError("%s: unexpected parameters" % fi.qualname)
            else:
                raise AnalysisError("%s: %s is neither classmethod nor staticmethod" % (fi.where(), fi.qualname))
            fr = _Frame(self, fi.module, env, fi.owner, cls)
            try:
                fr.block(fi.node.body)
            except _Return as r:
                return r.value
            return None
        finally:
            self.depth -= 1

    def structure(self, ci: ClassInfo) -> str:
        v = self.call_method(ci, "structure")
        if not isinstance(v, str):
            raise AnalysisError("%s.structure() folds to %r, not a string" % (ci.qualname, v))
        return v


class _Frame(object):
    def __init__(self, folder: Folder, module, env, owner: Optional[ClassInfo], cls: Optional[ClassInfo]):
        self.f = folder
        self.m = module
        self.env = env
        self.owner = owner
        self.cls = cls

    def unsupported(self, node, what="construct"):
        seg = self.m.segment(node) if self.m is not None else ast.dump(node)
        raise AnalysisError(
            "%s:%s: unsupported %s in constant folding: %s"
            % (self.m.relpath if self.m else "?", getattr(node, "lineno", "?"), what, seg[:80])
        )

    # -- statements ---------------------------------------------------------

    def block(self, body: List[ast.stmt]):
        for st in body:
            self.stmt(st)

    def stmt(self, st: ast.stmt):
        if isinstance(st, ast.Expr):
            if isinstance(st.value, ast.Constant):
                return
            self.expr(st.value)
            return
        if isinstance(st, ast.Return):
            raise _Return(self.expr(st.value) if st.value is not None else None)
        if isinstance(st, ast.Assign):
            v = self.expr(st.value)
            for t in st.targets:
                self.assign(t, v)
            return
        if isinstance(st, ast.If):
            t = self.expr(st.test)
            if not isinstance(t, bool):
                self.unsupported(st.test, "undecidable test")
            self.block(st.body if t else st.orelse)
            return
        if isinstance(st, ast.Raise):
            name = "Exception"
            e = st.exc
            if isinstance(e, ast.Call):
                e = e.func
            if isinstance(e, ast.Name):
                name = e.id
            elif isinstance(e, ast.Attribute):
                name = e.attr
            raise Raises(name, "%s:%d" % (self.m.relpath, st.lineno))
        if isinstance(st, ast.Pass):
            return
        self.unsupported(st, "statement")

    def assign(self, target, v):
        if isinstance(target, ast.Name):
            self.env[target.id] = v
        elif isinstance(target, (ast.Tuple, ast.List)):
            if not isinstance(v, (tuple, list)) or len(v) != len(target.elts):
                self.unsupported(target, "unpacking")
            for t, x in zip(target.elts, v):
                self.assign(t, x)
        else:
            self.unsupported(target, "assignment target")

    # -- expressions --------------------------------------------------------

    def expr(self, e: ast.expr):
        meth = getattr(self, "e_" + type(e).__name__, None)
        if meth is None:
            ok, v = closed_const_eval(e)
            if ok:
                return v
            self.unsupported(e, "expression")
        return meth(e)

    def e_Constant(self, e):
        return e.value

    def e_Tuple(self, e):
        return tuple(self.expr(x) for x in e.elts)

    def e_List(self, e):
        return [self.expr(x) for x in e.elts]

    def e_JoinedStr(self, e):
        out = []
        for v in e.values:
            if isinstance(v, ast.Constant):
                out.append(str(v.value))
            elif isinstance(v, ast.FormattedValue):
                if v.format_spec is not None or v.conversion not in (-1, 115):
                    self.unsupported(e, "f-string format")
                out.append(self._str(self.expr(v.value), e))
            else:
                self.unsupported(e, "f-string")
        return "".join(out)

    def _str(self, v, node):
        if isinstance(v, str):
            return v
        if isinstance(v, SeqVal):
            return v.s
        if isinstance(v, (int,)) and not isinstance(v, bool):
            return str(v)
        self.unsupported(node, "str() of %r" % (v,))

    def e_Name(self, e):
        if e.id in self.env:
            return self.env[e.id]
        if e.id == "NotImplemented":
            return NotImplemented
        if e.id in ("True", "False", "None"):
            return {"True": True, "False": False, "None": None}[e.id]
        if e.id in ("str", "issubclass", "super", "len", "isinstance"):
            return _Bound("builtin", None, e.id)
        if self.m is None:
            self.unsupported(e, "name")
        r = self.f.p.lookup(self.m.name, e.id)
        return self._from_binding(r, e)

    def _from_binding(self, r, node):
        if isinstance(r, ClassInfo) or isinstance(r, ModRef):
            return r
        if isinstance(r, Ext):
            d = r.dotted
            if d.startswith("Bio.Restriction."):
                name = d.split(".")[-1]
                try:
                    return Enzyme.get(name)
                except AttributeError:
                    self.unsupported(node, "unknown enzyme %s" % name)
            if d in ("Bio.Seq.Seq",):
                return _Bound("builtin", None, "Seq")
            self.unsupported(node, "external name %s" % d)
        if isinstance(r, tuple) and r and r[0] == "assign":
            _, mod, val = r
            ok, v = closed_const_eval(val)
            if ok:
                return v
            fr = _Frame(self.f, mod, {}, None, None)
            return fr.expr(val)
        self.unsupported(node, "name")

    def e_Attribute(self, e):
        base = self.expr(e.value)
        a = e.attr
        if isinstance(base, ModRef):
            return self._from_binding(self.f.p.lookup(base.name, a), e)
        if isinstance(base, ClassInfo):
            owner, raw = self.f.p.class_attr_def(base, a)
            if owner is None:
                if a == "__name__":
                    return base.name
                self.unsupported(e, "attribute")
            return self.f._attr_value(owner, raw, base)
        if isinstance(base, _Super):
            owner, raw = self.f.p.class_attr_def(base.cls, a, after=base.after)
            if owner is None:
                self.unsupported(e, "super attribute")
            return self.f._attr_value(owner, raw, base.cls)
        if isinstance(base, Enzyme):
            if a in ENZYME_ATTRS:
                return getattr(base.obj, a)
            if a in ENZYME_METHODS:
                return _Bound("enzyme", base, a)
            self.unsupported(e, "enzyme attribute")
        if isinstance(base, str):
            if a in ("replace", "format", "join", "upper", "lower", "strip", "translate"):
                return _Bound("str", base, a)
            self.unsupported(e, "str method")
        if isinstance(base, SeqVal):
            if a in ("reverse_complement", "complement", "upper", "lower"):
                return _Bound("seq", base, a)
            self.unsupported(e, "Seq method")
        self.unsupported(e, "attribute base %r" % (base,))

    def e_BinOp(self, e):
        l, r = self.expr(e.left), self.expr(e.right)
        if isinstance(e.op, ast.Add):
            if isinstance(l, str) and isinstance(r, str):
                return l + r
            if isinstance(l, (tuple, list)) and type(l) is type(r):
                return l + r
            if isinstance(l, int) and isinstance(r, int):
                return l + r
        if isinstance(e.op, ast.Mult):
            if isinstance(l, str) and isinstance(r, int):
                return l * r
            if isinstance(l, int) and isinstance(r, (str, int)):
                return l * r
        if isinstance(e.op, ast.Sub) and isinstance(l, int) and isinstance(r, int):
            return l - r
        if isinstance(e.op, ast.Mod) and isinstance(l, str):
            try:
                return l % r
            except Exception:
                self.unsupported(e, "%-format")
        self.unsupported(e, "binary operation")

    def e_UnaryOp(self, e):
        v = self.expr(e.operand)
        if isinstance(e.op, ast.Not) and isinstance(v, bool):
            return not v
        if isinstance(e.op, ast.USub) and isinstance(v, int):
            return -v
        self.unsupported(e, "unary operation")

    def e_BoolOp(self, e):
        vals = [self.expr(v) for v in e.values]
        if not all(isinstance(v, bool) for v in vals):
            self.unsupported(e, "boolean operation")
        return all(vals) if isinstance(e.op, ast.And) else any(vals)

    def e_Compare(self, e):
        left = self.expr(e.left)
        res = True
        for op, c in zip(e.ops, e.comparators):
            right = self.expr(c)
            if isinstance(op, ast.Is):
                r = left is right or (isinstance(left, Enzyme) and left == right)
            elif isinstance(op, ast.IsNot):
                r = not (left is right or (isinstance(left, Enzyme) and left == right))
            elif isinstance(op, (ast.Eq, ast.NotEq)):
                if not isinstance(left, (str, int, tuple, Enzyme, type(None))) or not isinstance(
                    right, (str, int, tuple, Enzyme, type(None))
                ):
                    self.unsupported(e, "comparison")
                r = (left == right) if isinstance(op, ast.Eq) else (left != right)
            elif isinstance(op, (ast.Lt, ast.LtE, ast.Gt, ast.GtE)) and isinstance(left, int) and isinstance(right, int):
                r = {ast.Lt: left < right, ast.LtE: left <= right, ast.Gt: left > right, ast.GtE: left >= right}[type(op)]
            else:
                self.unsupported(e, "comparison")
            res = res and r
            left = right
        return res

    def e_IfExp(self, e):
        t = self.expr(e.test)
        if not isinstance(t, bool):
            self.unsupported(e.test, "undecidable test")
        return self.expr(e.body if t else e.orelse)

    def e_Subscript(self, e):
        base = self.expr(e.value)
        if isinstance(e.slice, ast.Slice):
            if not isinstance(base, (str, tuple, list)):
                self.unsupported(e, "slice")
            lo = self.expr(e.slice.lower) if e.slice.lower else None
            hi = self.expr(e.slice.upper) if e.slice.upper else None
            st = self.expr(e.slice.step) if e.slice.step else None
            if not all(isinstance(x, (int, type(None))) for x in (lo, hi, st)):
                self.unsupported(e, "slice bounds")
            return base[lo:hi:st]
        idx = self.expr(e.slice)
        if isinstance(base, (str, tuple, list)) and isinstance(idx, int):
            try:
                return base[idx]
            except IndexError:
                self.unsupported(e, "index out of range")
        self.unsupported(e, "subscript")

    def e_Call(self, e):
        # super() without arguments
        if isinstance(e.func, ast.Name) and e.func.id == "super" and "super" not in self.env:
            if e.keywords:
                self.unsupported(e, "super() keywords")
            if not e.args:
                if self.owner is None or self.cls is None:
                    self.unsupported(e, "super() outside a method")
                return _Super(self.owner, self.cls)
            if len(e.args) == 2:
                a, c = self.expr(e.args[0]), self.expr(e.args[1])
                if isinstance(a, ClassInfo) and isinstance(c, ClassInfo):
                    return _Super(a, c)
            self.unsupported(e, "super() form")
        fn = self.expr(e.func)
        if any(isinstance(a, ast.Starred) for a in e.args):
            self.unsupported(e, "star-args")
        args = [self.expr(a) for a in e.args]
        kwargs = {}
        for k in e.keywords:
            if k.arg is None:
                self.unsupported(e, "**kwargs")
            kwargs[k.arg] = self.expr(k.value)
        if not isinstance(fn, _Bound):
            self.unsupported(e, "call")
        if fn.kind == "func":
            fi, cls = fn.target
            if args or kwargs:
                self.unsupported(e, "call with arguments")
            return self.f.call_func(fi, cls)
        if fn.kind == "enzyme":
            if args or kwargs:
                self.unsupported(e, "enzyme method arguments")
            return getattr(fn.target.obj, fn.name)()
        if fn.kind == "str":
            s = fn.target
            if kwargs and fn.name != "format":
                self.unsupported(e, "keyword arguments")
            if fn.name == "replace":
                if len(args) not in (2, 3) or not all(isinstance(a, str) for a in args[:2]):
                    self.unsupported(e, "str.replace arguments")
                return s.replace(*args)
            if fn.name == "format":
                a2 = [self._fmt(a, e) for a in args]
                k2 = {k: self._fmt(v, e) for k, v in kwargs.items()}
                try:
                    return s.format(*a2, **k2)
                except Exception:
                    self.unsupported(e, "str.format")
            if fn.name == "join":
                if len(args) != 1 or not isinstance(args[0], (list, tuple)):
                    self.unsupported(e, "str.join argument")
                return s.join(self._str(x, e) if not isinstance(x, str) else x for x in args[0])
            if fn.name in ("upper", "lower", "strip") and not args:
                return getattr(s, fn.name)()
            if fn.name == "translate" and len(args) == 1 and isinstance(args[0], dict) and not kwargs:
                return s.translate(args[0])
            self.unsupported(e, "str method")
        if fn.kind == "seq":
            if args or kwargs:
                self.unsupported(e, "Seq method arguments")
            s = fn.target.s
            if fn.name == "reverse_complement":
                return SeqVal(_rc(s))
            if fn.name == "complement":
                return SeqVal(_rc(s)[::-1])
            return SeqVal(getattr(s, fn.name)())
        if fn.kind == "builtin":
            if fn.name == "str" and len(args) == 1 and not kwargs:
                return self._str(args[0], e)
            if fn.name == "Seq" and len(args) == 1 and not kwargs:
                return SeqVal(self._str(args[0], e))
            if fn.name == "len" and len(args) == 1 and isinstance(args[0], (str, tuple, list)):
                return len(args[0])
            if fn.name == "issubclass" and len(args) == 2:
                c, o = args
                if isinstance(c, ClassInfo):
                    others = o if isinstance(o, tuple) else (o,)
                    if all(isinstance(x, ClassInfo) for x in others):
                        return any(self.f.p.is_subclass(c, x) for x in others)
            self.unsupported(e, "builtin call")
        self.unsupported(e, "call")

    def _fmt(self, v, node):
        if isinstance(v, SeqVal):
            return v.s
        if isinstance(v, (str, int)):
            return v
        self.unsupported(node, "format argument %r" % (v,))
