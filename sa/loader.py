# coding: utf-8
"""E1 -- loader, import resolution, class table, C3 MRO.

Everything here works on the *source text* of the tree selected by
``VERIF_REPO`` (default ``/repo``): modules are parsed with ``ast`` and never
imported.
"""
from __future__ import annotations

import ast
import glob
import hashlib
import os
from typing import Dict, List, Optional, Tuple, Union

KITS = ["cidar", "ytk", "ecoflex", "moclo", "plant"]


class AnalysisError(Exception):
    """The analyser cannot derive a verdict (unsupported construct, vanished
    anchor, ...).  Never a pass, never a violation: exit status 2."""


def repo_root() -> str:
    return os.environ.get("VERIF_REPO", "/repo")


# ---------------------------------------------------------------------------
# Values a name can be bound to at module level


class Ext(object):
    """Something defined outside the analysed tree (``Bio.Seq.Seq`` ...)."""

    def __init__(self, dotted: str):
        self.dotted = dotted

    def __repr__(self):
        return "Ext(%s)" % self.dotted

    def __eq__(self, other):
        return isinstance(other, Ext) and other.dotted == self.dotted

    def __hash__(self):
        return hash(("Ext", self.dotted))


class ModRef(object):
    def __init__(self, name: str):
        self.name = name

    def __repr__(self):
        return "ModRef(%s)" % self.name


class FuncInfo(object):
    def __init__(self, module: "Module", node: ast.FunctionDef, owner: Optional["ClassInfo"] = None):
        self.module = module
        self.node = node
        self.owner = owner
        self.name = node.name
        self.decorators = [decorator_name(d) for d in node.decorator_list]

    @property
    def qualname(self) -> str:
        if self.owner is not None:
            return "%s.%s" % (self.owner.qualname, self.name)
        return "%s.%s" % (self.module.name, self.name)

    @property
    def kind(self) -> str:
        if "classmethod" in self.decorators:
            return "classmethod"
        if "staticmethod" in self.decorators:
            return "staticmethod"
        if "cached_property" in self.decorators or "property" in self.decorators:
            return "property"
        if self.owner is not None and getattr(self, "descriptor_kinds", None):
            # decorated with a descriptor class of the code base that computes the value on access -- from the instance, or
            # (classproperty) from the class, whether asked on the class or on an instance
            return "classproperty" if self.descriptor_kinds[0][1].startswith("class-level") else "property"
        return "method" if self.owner is not None else "function"

    def where(self) -> str:
        return "%s:%d" % (self.module.relpath, self.node.lineno)

    def __repr__(self):
        return "Func(%s)" % self.qualname


class ClassInfo(object):
    def __init__(self, module: Optional["Module"], node: Optional[ast.ClassDef], name: str):
        self.module = module
        self.node = node
        self.name = name
        self.bases: List[Union["ClassInfo", Ext]] = []
        # name -> ast expression (class-level assignment) | FuncInfo | Const
        self.attrs: Dict[str, object] = {}
        self.decorators: List[str] = []
        self.synthetic = False

    @property
    def qualname(self) -> str:
        return "%s.%s" % (self.module.name if self.module else "<synthetic>", self.name)

    def where(self) -> str:
        if self.module is None or self.node is None:
            return "<synthetic>"
        return "%s:%d" % (self.module.relpath, self.node.lineno)

    def __repr__(self):
        return "Class(%s)" % self.qualname


class Const(object):
    """A pre-evaluated class attribute of a synthetic class."""

    def __init__(self, value):
        self.value = value


LIBRARY_DATA_MODULES = ("Bio.Data.IUPACData",)


def library_constant(dotted: str):
    """(True, value) for a data constant of a library module the analysis reads as given (Biopython's IUPAC tables, like the
    enzyme table: trusted library data, T1): a copy of a str or of a dict / tuple of plain values; (False, None) otherwise"""
    mod, _, name = dotted.rpartition(".")
    if mod not in LIBRARY_DATA_MODULES or not name or name.startswith("_"):
        return False, None
    import copy
    import importlib

    try:
        v = getattr(importlib.import_module(mod), name)
    except Exception:
        return False, None

    def plain(x):
        if isinstance(x, (str, int, float)):
            return True
        if isinstance(x, dict):
            return all(plain(k) and plain(w) for k, w in x.items())
        if isinstance(x, (tuple, list)):
            return all(plain(y) for y in x)
        return False

    if not plain(v) or callable(v):
        return False, None
    return True, copy.deepcopy(v)


def _unpacked_targets(target: ast.expr, value: ast.expr):
    """(name, expression) for every name an assignment binds: `x = e`; `a, b = 1, 2` binds each name to its element; a tuple
    target fed from something else binds each name to `(e)[i]`"""
    if isinstance(target, ast.Name):
        yield target.id, value
    elif isinstance(target, (ast.Tuple, ast.List)) and not any(isinstance(e, ast.Starred) for e in target.elts):
        if isinstance(value, (ast.Tuple, ast.List)) and len(value.elts) == len(target.elts) and not any(isinstance(e, ast.Starred) for e in value.elts):
            for t_, v_ in zip(target.elts, value.elts):
                for pair in _unpacked_targets(t_, v_):
                    yield pair
        else:
            for i_, t_ in enumerate(target.elts):
                sub_ = ast.Subscript(value=value, slice=ast.Constant(value=i_), ctx=ast.Load())
                ast.copy_location(sub_, value)
                ast.copy_location(sub_.slice, value)
                for pair in _unpacked_targets(t_, sub_):
                    yield pair


def decorator_name(d: ast.expr) -> str:
    if isinstance(d, ast.Call):
        d = d.func
    if isinstance(d, ast.Attribute):
        return d.attr
    if isinstance(d, ast.Name):
        return d.id
    return ast.dump(d)


class Module(object):
    def __init__(self, name: str, path: str, relpath: str, is_pkg: bool):
        self.name = name
        self.path = path
        self.relpath = relpath
        self.is_pkg = is_pkg
        with open(path, "rb") as fh:
            data = fh.read()
        self.digest = hashlib.sha256(data).hexdigest()
        self.source = data.decode("utf-8")
        try:
            self.tree = ast.parse(self.source, filename=path)
        except SyntaxError as e:  # pragma: no cover
            raise AnalysisError("cannot parse %s: %s" % (relpath, e))
        self.bindings: Dict[str, object] = {}
        self.classes: Dict[str, ClassInfo] = {}
        self.functions: Dict[str, FuncInfo] = {}
        self.assigns: Dict[str, ast.expr] = {}

    @property
    def package(self) -> str:
        return self.name if self.is_pkg else self.name.rpartition(".")[0]

    def segment(self, node: ast.AST) -> str:
        return ast.get_source_segment(self.source, node) or ""


# ---------------------------------------------------------------------------


def descriptor_kind(p, ci: "ClassInfo") -> Optional[str]:
    """How a descriptor class of the code base used as a method decorator keeps what the method computes, read off its
    __get__:  'name-keyed-instance' (stored in the instance's __dict__ / by setattr under the attribute's name, like
    functools.cached_property: one value per (name, instance)), 'per-descriptor-instance' (a table on the descriptor keyed
    by the instance), 'uncached-instance' (computed on every access, like property), 'shared' (one slot on the descriptor or
    the class for all instances); None when __get__ is not of a recognised shape."""
    _, get = p.class_attr_def(ci, "__get__")
    if not isinstance(get, FuncInfo):
        return None
    if any(isinstance(p.class_attr_def(ci, n)[1], FuncInfo) for n in ("__set__", "__delete__")):
        return None
    ga = [a.arg for a in get.node.args.posonlyargs + get.node.args.args]
    if len(ga) < 2:
        return None
    me, inst = ga[0], ga[1]
    owner = ga[2] if len(ga) > 2 else None
    # the attribute(s) the constructor keeps the decorated function in; a subclass's constructor may hand it on to its
    # base's (super().__init__(getter))
    getter_attrs = set()
    for c in p.mro(ci):
        init = c.attrs.get("__init__") if isinstance(c, ClassInfo) else None
        if not isinstance(init, FuncInfo):
            continue
        ia = [a.arg for a in init.node.args.posonlyargs + init.node.args.args]
        if len(ia) < 2:
            return None
        me_i, fparam = ia[0], ia[1]
        getter_attrs |= {t.attr for n in ast.walk(init.node) if isinstance(n, ast.Assign) and isinstance(n.value, ast.Name) and n.value.id == fparam
                         for t in n.targets if isinstance(t, ast.Attribute) and isinstance(t.value, ast.Name) and t.value.id == me_i}
        hands_on = any(isinstance(n, ast.Call) and isinstance(n.func, ast.Attribute) and n.func.attr == "__init__" and any(
            isinstance(a, ast.Name) and a.id == fparam for a in n.args) for n in ast.walk(init.node))
        if not hands_on:
            break
    if not getter_attrs:
        return None

    def is_compute(c):
        return (isinstance(c, ast.Call) and isinstance(c.func, ast.Attribute) and c.func.attr in getter_attrs
                and isinstance(c.func.value, ast.Name) and c.func.value.id == me)

    computes = [c for c in ast.walk(get.node) if is_compute(c)]
    if not computes or not all(len(c.args) == 1 and not c.keywords and isinstance(c.args[0], ast.Name) for c in computes):
        return None
    given = {c.args[0].id for c in computes}
    if given == {owner}:
        # computed from the class: kept nowhere (classproperty), or kept on the class for later reads
        keeps = [n for n in ast.walk(get.node) if (isinstance(n, ast.Call) and isinstance(n.func, ast.Name) and n.func.id == "setattr" and n.args
                                                    and isinstance(n.args[0], ast.Name) and n.args[0].id == owner)
                 or (isinstance(n, ast.Assign) and any(isinstance(t, ast.Attribute) and isinstance(t.value, ast.Name) and t.value.id == owner for t in n.targets))]
        other = [n for n in ast.walk(get.node) if isinstance(n, (ast.Assign, ast.AugAssign)) and n not in keeps
                 and any(not isinstance(t, ast.Name) for t in (n.targets if isinstance(n, ast.Assign) else [n.target]))]
        if other:
            return None
        return "class-level-cached" if keeps else "class-level"
    if given != {inst}:
        return None

    def is_inst_dict(e):
        return (isinstance(e, ast.Attribute) and e.attr == "__dict__" and isinstance(e.value, ast.Name) and e.value.id == inst) or (
            isinstance(e, ast.Call) and isinstance(e.func, ast.Name) and e.func.id == "vars" and len(e.args) == 1
            and isinstance(e.args[0], ast.Name) and e.args[0].id == inst)

    kinds = set()
    for n in ast.walk(get.node):
        tgts = n.targets if isinstance(n, ast.Assign) else [n.target] if isinstance(n, (ast.AugAssign, ast.AnnAssign)) else []
        for t in tgts:
            if isinstance(t, ast.Name):
                continue
            if isinstance(t, ast.Subscript) and is_inst_dict(t.value):
                kinds.add("name-keyed-instance")
            elif isinstance(t, ast.Subscript) and isinstance(t.value, ast.Attribute) and isinstance(t.value.value, ast.Name) and t.value.value.id == me \
                    and isinstance(t.slice, ast.Name) and t.slice.id == inst:
                kinds.add("per-descriptor-instance")
            elif isinstance(t, ast.Attribute) and isinstance(t.value, ast.Name) and t.value.id in (me, owner):
                kinds.add("shared")
            else:
                return None
        if isinstance(n, ast.Call) and isinstance(n.func, ast.Name) and n.func.id == "setattr" and n.args:
            if isinstance(n.args[0], ast.Name) and n.args[0].id == inst:
                kinds.add("name-keyed-instance")
            else:
                return None
        if isinstance(n, ast.Call) and isinstance(n.func, ast.Attribute) and n.func.attr in ("setdefault", "update", "__setitem__"):
            if is_inst_dict(n.func.value):
                kinds.add("name-keyed-instance")
            else:
                return None
    if not kinds:
        return "uncached-instance"
    return kinds.pop() if len(kinds) == 1 else None


class Program(object):
    def __init__(self, root: Optional[str] = None):
        self.root = root or repo_root()
        self.modules: Dict[str, Module] = {}
        self._mro_cache: Dict[int, List[object]] = {}
        self._discover()
        for m in self.modules.values():
            self._collect_defs(m)
        for m in self.modules.values():
            self._bind_imports(m)
        for m in self.modules.values():
            self._resolve_bases(m)
        self._classify_descriptors()
        self._classify_binding_decorators()

    def _classify_descriptors(self):
        """methods decorated with a descriptor class of the code base: how that class keeps the value (descriptor_kind)"""
        for m in self.modules.values():
            for ci in m.classes.values():
                for raw in ci.attrs.values():
                    if not isinstance(raw, FuncInfo) or len(raw.node.decorator_list) != 1:
                        continue
                    d = raw.node.decorator_list[0]
                    if isinstance(d, ast.Call):
                        continue
                    try:
                        dv = self.resolve_expr(m, d)
                    except Exception:
                        continue
                    if isinstance(dv, ClassInfo):
                        k = descriptor_kind(self, dv)
                        if k in ("name-keyed-instance", "per-descriptor-instance", "uncached-instance", "class-level", "class-level-cached"):
                            raw.descriptor_kinds = [(dv.qualname, k)]

    def _classify_binding_decorators(self):
        """methods decorated with a function of the code base that hands back `classmethod(wrapper)` / `staticmethod(wrapper)`:
        bound like a classmethod / staticmethod although not spelled so where they are defined"""
        for m in self.modules.values():
            for ci in m.classes.values():
                for raw in ci.attrs.values():
                    if not isinstance(raw, FuncInfo) or not raw.node.decorator_list or "classmethod" in raw.decorators or "staticmethod" in raw.decorators:
                        continue
                    d = raw.node.decorator_list[0]
                    try:
                        dv = self.resolve_expr(m, d.func if isinstance(d, ast.Call) else d)
                    except Exception:
                        continue
                    if not isinstance(dv, FuncInfo):
                        continue
                    fn = dv.node
                    if isinstance(d, ast.Call):
                        # a decorator factory: what its inner decorator returns
                        inner = [n for n in fn.body if isinstance(n, ast.FunctionDef)]
                        rets = [n for n in fn.body if isinstance(n, ast.Return)]
                        if len(inner) != 1 or not (rets and isinstance(rets[-1].value, ast.Name) and rets[-1].value.id == inner[0].name):
                            continue
                        fn = inner[0]
                    rets = [n for n in ast.walk(fn) if isinstance(n, ast.Return) and n.value is not None
                            and not any(n in list(ast.walk(x)) for x in fn.body if isinstance(x, (ast.FunctionDef, ast.Lambda)))]
                    kinds = {n.value.func.id for n in rets if isinstance(n.value, ast.Call) and isinstance(n.value.func, ast.Name)
                             and n.value.func.id in ("classmethod", "staticmethod") and len(n.value.args) == 1}
                    if rets and len(kinds) == 1 and all(isinstance(n.value, ast.Call) and isinstance(n.value.func, ast.Name)
                                                        and n.value.func.id in kinds for n in rets):
                        raw.decorators = list(raw.decorators) + [kinds.pop()]
                        raw.bound_by_decorator = True

    # -- discovery ----------------------------------------------------------

    def _add(self, name: str, path: str, is_pkg: bool):
        rel = os.path.relpath(path, self.root)
        self.modules[name] = Module(name, path, rel, is_pkg)
        self.modules[name].program = self

    def _discover(self):
        base = os.path.join(self.root, "moclo", "moclo")
        if not os.path.isdir(base):
            raise AnalysisError("no moclo/moclo package under %s" % self.root)
        for dirpath, dirnames, filenames in os.walk(base):
            dirnames[:] = [d for d in dirnames if d != "__pycache__"]
            for fn in sorted(filenames):
                if not fn.endswith(".py"):
                    continue
                path = os.path.join(dirpath, fn)
                rel = os.path.relpath(path, os.path.join(self.root, "moclo"))
                parts = rel[:-3].split(os.sep)
                if parts[-1] == "__init__":
                    self._add(".".join(parts[:-1]), path, True)
                else:
                    self._add(".".join(parts), path, False)
        # kit plug-ins, spliced into moclo.kits / moclo.registry the way
        # tests/__init__.py does
        for kit in KITS:
            for ns in ("kits", "registry"):
                d = os.path.join(self.root, "moclo-%s" % kit, "moclo", ns)
                for path in sorted(glob.glob(os.path.join(d, "*.py"))):
                    stem = os.path.basename(path)[:-3]
                    if stem == "__init__":
                        continue
                    self._add("moclo.%s.%s" % (ns, stem), path, False)

    # -- definitions --------------------------------------------------------

    def _collect_defs(self, m: Module):
        for node in m.tree.body:
            self._collect_stmt(m, node)

    def _collect_stmt(self, m: Module, node: ast.stmt):
        if isinstance(node, ast.ClassDef):
            ci = ClassInfo(m, node, node.name)
            ci.decorators = [decorator_name(d) for d in node.decorator_list]
            for st in node.body:
                if isinstance(st, ast.FunctionDef):
                    acc = [d for d in st.decorator_list if isinstance(d, ast.Attribute) and d.attr in ("setter", "deleter")
                           and isinstance(d.value, ast.Name) and d.value.id == st.name]
                    prev = ci.attrs.get(st.name)
                    if acc and isinstance(prev, FuncInfo):
                        # @x.setter / @x.deleter: the property keeps its getter; the accessor is attached to it
                        setattr(prev, acc[0].attr, FuncInfo(m, st, ci))
                        continue
                    ci.attrs[st.name] = FuncInfo(m, st, ci)
                elif isinstance(st, ast.Assign):
                    for t in st.targets:
                        for nm_, val_ in _unpacked_targets(t, st.value):
                            ci.attrs[nm_] = val_
                elif isinstance(st, ast.AnnAssign) and isinstance(st.target, ast.Name) and st.value is not None:
                    ci.attrs[st.target.id] = st.value
            m.classes[node.name] = ci
            m.bindings[node.name] = ci
        elif isinstance(node, ast.FunctionDef):
            fi = FuncInfo(m, node, None)
            m.functions[node.name] = fi
            m.bindings[node.name] = fi
        elif isinstance(node, ast.Assign):
            for t in node.targets:
                for nm_, val_ in _unpacked_targets(t, node.value):
                    m.assigns[nm_] = val_
        elif isinstance(node, ast.AnnAssign) and isinstance(node.target, ast.Name) and node.value is not None:
            m.assigns[node.target.id] = node.value  # NAME: annotation = value
        elif isinstance(node, ast.If):
            # ``if typing.TYPE_CHECKING:`` blocks only import names for
            # comments; other module-level ifs are not used by the repo.
            pass

    # -- imports ------------------------------------------------------------

    def _abs_module(self, m: Module, level: int, name: Optional[str]) -> str:
        if level == 0:
            return name or ""
        pkg = m.package.split(".")
        if level > 1:
            pkg = pkg[: len(pkg) - (level - 1)]
        base = ".".join(pkg)
        if name:
            return base + "." + name if base else name
        return base

    def _bind_imports(self, m: Module, body=None, alt=False):
        """module-level imports; `try: import a / except ImportError: import b` binds what the try body imports (what
        succeeds on the interpreter the library is analysed for) and remembers the fallbacks as alternatives"""
        for node in (m.tree.body if body is None else body):
            if isinstance(node, ast.Try) and body is None and node.handlers and all(
                    h.type is None or any(isinstance(x, ast.Name) and x.id in ("ImportError", "ModuleNotFoundError", "Exception") for x in ast.walk(h.type))
                    for h in node.handlers):
                before = dict(m.bindings)
                for h in node.handlers:
                    self._bind_imports(m, h.body, alt=True)
                fallbacks = {k: v for k, v in m.bindings.items() if before.get(k) is not v}
                m.bindings.clear()
                m.bindings.update(before)
                self._bind_imports(m, node.body, alt=True)
                if not hasattr(m, "import_alternatives"):
                    m.import_alternatives = {}
                for k, v in fallbacks.items():
                    if k in m.bindings and m.bindings[k] != v:
                        m.import_alternatives.setdefault(k, []).append(v)
                    elif k not in m.bindings:
                        m.bindings[k] = v
                continue
            if isinstance(node, ast.Import):
                for a in node.names:
                    if a.asname:
                        m.bindings[a.asname] = self._module_value(a.name)
                    else:
                        top = a.name.split(".")[0]
                        m.bindings[top] = self._module_value(top)
            elif isinstance(node, ast.ImportFrom):
                src = self._abs_module(m, node.level, node.module)
                for a in node.names:
                    if a.name == "*":
                        continue
                    m.bindings[a.asname or a.name] = ("from", src, a.name)

    def _module_value(self, dotted: str):
        if dotted in self.modules:
            return ModRef(dotted)
        return Ext(dotted)

    def lookup(self, modname: str, name: str, _depth: int = 0):
        """Resolve ``name`` in the namespace of module ``modname``."""
        if _depth > 12:
            raise AnalysisError("import cycle resolving %s.%s" % (modname, name))
        if modname not in self.modules:
            return Ext("%s.%s" % (modname, name))
        m = self.modules[modname]
        sub = "%s.%s" % (modname, name)
        if name in m.bindings:
            v = m.bindings[name]
            if isinstance(v, tuple) and v[0] == "from":
                _, src, attr = v
                if src in self.modules:
                    # a submodule wins over nothing; an object wins over a submodule
                    r = self.lookup(src, attr, _depth + 1)
                    if r is None and ("%s.%s" % (src, attr)) in self.modules:
                        return ModRef("%s.%s" % (src, attr))
                    if r is None:
                        return None
                    return r
                return Ext("%s.%s" % (src, attr))
            return v
        if name in m.assigns:
            return ("assign", m, m.assigns[name])
        if m.is_pkg and sub in self.modules:
            return ModRef(sub)
        return None

    def resolve_expr(self, m: Module, e: ast.expr):
        """Resolve a Name / dotted Attribute expression at module level."""
        if isinstance(e, ast.Name):
            r = self.lookup(m.name, e.id)
            if r is None:
                import builtins

                if hasattr(builtins, e.id):
                    return Ext("builtins." + e.id)
            return r
        if isinstance(e, ast.Attribute):
            base = self.resolve_expr(m, e.value)
            if isinstance(base, ModRef):
                return self.lookup(base.name, e.attr)
            if isinstance(base, Ext):
                return Ext(base.dotted + "." + e.attr)
            if isinstance(base, ClassInfo):
                r = self.class_attr(base, e.attr)
                return r
            return None
        if isinstance(e, ast.Subscript):
            # typing.Generic[_S], typing.Mapping[K, V]
            return self.resolve_expr(m, e.value)
        if isinstance(e, ast.Call):
            f = self.resolve_expr(m, e.func)
            if isinstance(f, Ext):
                return Ext(f.dotted + "()")
            return None
        return None

    # -- classes ------------------------------------------------------------

    def _resolve_bases(self, m: Module):
        for ci in m.classes.values():
            ci.bases = []
            for b in ci.node.bases:
                r = self.resolve_expr(m, b)
                if isinstance(r, (ClassInfo, Ext)):
                    ci.bases.append(r)
                else:
                    raise AnalysisError(
                        "%s: cannot resolve base %s of class %s" % (ci.where(), m.segment(b), ci.name)
                    )
            if not ci.bases:
                ci.bases = [Ext("builtins.object")]

    def all_classes(self) -> List[ClassInfo]:
        out = []
        for name in sorted(self.modules):
            out.extend(self.modules[name].classes.values())
        return out

    def get_class(self, qualname: str) -> ClassInfo:
        mod, _, name = qualname.rpartition(".")
        if mod not in self.modules or name not in self.modules[mod].classes:
            raise AnalysisError("anchor vanished: class %s" % qualname)
        return self.modules[mod].classes[name]

    def get_func(self, qualname: str) -> FuncInfo:
        """``module.func`` or ``module.Class.method``"""
        parts = qualname.split(".")
        for i in range(len(parts) - 1, 0, -1):
            mod = ".".join(parts[:i])
            if mod in self.modules:
                rest = parts[i:]
                m = self.modules[mod]
                if len(rest) == 1 and rest[0] in m.functions:
                    return m.functions[rest[0]]
                if len(rest) == 2 and rest[0] in m.classes:
                    a = m.classes[rest[0]].attrs.get(rest[1])
                    if isinstance(a, FuncInfo):
                        return a
                    # the method as the class resolves it (moved to a mixin / a base class of the repository)
                    try:
                        _, a = self.class_attr_def(m.classes[rest[0]], rest[1])
                    except Exception:
                        a = None
                    if isinstance(a, FuncInfo):
                        return a
                break
        # private functions addressed by the name they have on the pinned tree: found by role when renamed or moved
        from . import roles

        alias = roles.by_canonical_name(self, qualname)
        if alias is not None:
            return alias
        raise AnalysisError("anchor vanished: function %s" % qualname)

    def mro(self, ci: Union[ClassInfo, Ext]) -> List[object]:
        if isinstance(ci, Ext):
            return [ci]
        key = id(ci)
        if key in self._mro_cache:
            return self._mro_cache[key]
        seqs = [list(self.mro(b)) for b in ci.bases] + [list(ci.bases)]
        res: List[object] = [ci]
        while True:
            seqs = [s for s in seqs if s]
            if not seqs:
                break
            cand = None
            for s in seqs:
                c = s[0]
                if not any(_in_tail(c, t) for t in seqs):
                    cand = c
                    break
            if cand is None:
                raise AnalysisError("inconsistent MRO for %s" % ci.qualname)
            res.append(cand)
            for s in seqs:
                if s and _same(s[0], cand):
                    del s[0]
        # object last, once
        self._mro_cache[key] = res
        return res

    ENUM_BASES = ("enum.Enum", "enum.IntEnum", "enum.Flag", "enum.IntFlag", "enum.StrEnum")

    def enum_info(self, ci) -> Optional[dict]:
        """None, or what makes `ci` an enumeration: {"mixin": "str" | "int" | None, "flag": bool, "members": [(name, expr)]}
        with the member definitions of the class body in order (a subclass of an Enum with members cannot exist)"""
        if not isinstance(ci, ClassInfo):
            return None
        cached = getattr(ci, "_enum_info", False)
        if cached is not False:
            return cached
        info = None
        exts = [getattr(c, "dotted", "") for c in self.mro(ci) if isinstance(c, Ext)]
        if any(d in self.ENUM_BASES for d in exts):
            mixin = None
            if "enum.StrEnum" in exts or "builtins.str" in exts or "str" in exts:
                mixin = "str"
            elif "enum.IntEnum" in exts or "enum.IntFlag" in exts or "builtins.int" in exts or "int" in exts:
                mixin = "int"
            members = []
            holder = next((c for c in self.mro(ci) if isinstance(c, ClassInfo) and any(
                isinstance(v, ast.AST) and not k.startswith("_") for k, v in c.attrs.items())), None)
            if holder is not None:
                ignore = set()
                ign = holder.attrs.get("_ignore_")
                if isinstance(ign, (ast.List, ast.Tuple)):
                    ignore = {e.value for e in ign.elts if isinstance(e, ast.Constant)}
                for k, v in holder.attrs.items():
                    if isinstance(v, ast.AST) and not k.startswith("_") and k not in ignore and not isinstance(v, (ast.FunctionDef, ast.Lambda)):
                        members.append((k, v))
            info = {"mixin": mixin, "flag": "enum.Flag" in exts or "enum.IntFlag" in exts, "str_enum": "enum.StrEnum" in exts,
                    "members": members, "holder": holder}
        ci._enum_info = info
        return info

    def is_subclass(self, ci: ClassInfo, other: Union[ClassInfo, str]) -> bool:
        for c in self.mro(ci):
            if isinstance(other, str):
                if isinstance(c, ClassInfo) and c.qualname == other:
                    return True
                if isinstance(c, Ext) and c.dotted == other:
                    return True
            elif c is other:
                return True
        return False

    def class_attr_def(self, ci: ClassInfo, name: str, after: Optional[ClassInfo] = None):
        """(defining class, raw attribute) following the MRO.  ``after``
        implements ``super(after, cls)``."""
        mro = self.mro(ci)
        if after is not None:
            idx = [i for i, c in enumerate(mro) if c is after]
            if not idx:
                raise AnalysisError("super(%s, ...) not in MRO of %s" % (after.qualname, ci.qualname))
            mro = mro[idx[0] + 1 :]
        for c in mro:
            if isinstance(c, ClassInfo) and getattr(c, "opaque_decorator", None):
                raise AnalysisError("%s is passed through the class decorator %s, which was not evaluated: what its dictionary holds "
                                    "for `%s` is not known" % (c.qualname, c.opaque_decorator, name))
            if isinstance(c, ClassInfo) and getattr(c, "unevaluated_hook_attrs", None) and name != "__init_subclass__" \
                    and (name in c.unevaluated_hook_attrs or "*" in c.unevaluated_hook_attrs):
                raise AnalysisError("%s.%s is set by an __init_subclass__ hook that was not evaluated for this class" % (c.qualname, name))
            if isinstance(c, ClassInfo) and name in c.attrs:
                return c, c.attrs[name]
        return None, None

    def class_attr(self, ci: ClassInfo, name: str):
        return self.class_attr_def(ci, name)[1]

    def subclasses(self, ci: ClassInfo) -> List[ClassInfo]:
        return [c for c in self.all_classes() if c is not ci and self.is_subclass(c, ci)]

    def digest(self) -> str:
        h = hashlib.sha256()
        for name in sorted(self.modules):
            h.update(name.encode())
            h.update(self.modules[name].digest.encode())
        return h.hexdigest()

    def synthetic_class(self, name: str, bases: List[ClassInfo], attrs: Dict[str, object]) -> ClassInfo:
        ci = ClassInfo(None, None, name)
        ci.bases = list(bases)
        ci.attrs = {k: (v if isinstance(v, (FuncInfo, ast.AST, Const)) else Const(v)) for k, v in attrs.items()}
        ci.synthetic = True
        hook = getattr(self, "_class_hook", None)
        if hook is not None:
            hook(ci)  # a class created for the analysis is created like any other: the creation hooks of its bases run
        return ci


def _same(a, b) -> bool:
    if isinstance(a, Ext) and isinstance(b, Ext):
        return a == b
    return a is b


def _in_tail(c, seq) -> bool:
    return any(_same(c, x) for x in seq[1:])


def func_params(fn: ast.FunctionDef) -> List[str]:
    a = fn.args
    names = [x.arg for x in a.posonlyargs + a.args]
    if a.vararg:
        names.append("*" + a.vararg.arg)
    names += [x.arg for x in a.kwonlyargs]
    if a.kwarg:
        names.append("**" + a.kwarg.arg)
    return names
