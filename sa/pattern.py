# coding: utf-8
"""E3 -- algebra of DNA structure patterns.

A structure pattern (the string ``structure()`` folds to) is tokenised into
atoms -- a letter set with a quantifier in {1, *, *?} -- and group markers.
All reasoning about "every record the class accepts" is done on this
representation: a fact proved about the pattern holds for every string the
pattern matches.
"""
from __future__ import annotations

from typing import Dict, FrozenSet, List, Optional, Sequence, Tuple

from .loader import AnalysisError

NUC = "ACGT"


class LetterMap(object):
    """Letter -> set of nucleotides, from the repo's own transcription table
    (``DNARegex._lettermap``), identity on everything else."""

    def __init__(self, table: Dict[str, str]):
        self.table = {}
        for k, v in table.items():
            if not (isinstance(v, str) and v.startswith("[") and v.endswith("]")):
                raise AnalysisError("lettermap entry %r: %r is not a character class" % (k, v))
            self.table[k] = frozenset(v[1:-1].upper())

    def letters(self, ch: str) -> FrozenSet[str]:
        if ch in self.table:
            # restricted to nucleotides: a class such as [ACGTN] also admits the
            # literal letter N in a target, which does not matter for geometry
            return frozenset(self.table[ch])
        return frozenset([ch.upper() if ch.isascii() else ch])


class Atom(object):
    __slots__ = ("ch", "set", "q")

    def __init__(self, ch: str, s: FrozenSet[str], q: str = "1"):
        self.ch, self.set, self.q = ch, s, q

    @property
    def fixed(self) -> bool:
        return self.q == "1"

    @property
    def is_n(self) -> bool:
        return set(NUC) <= self.set

    def __repr__(self):
        return self.ch + ("" if self.q == "1" else self.q)

    def key(self):
        return (self.set, self.q)


class Pattern(object):
    """atoms + group spans (half-open, in atom indices)."""

    def __init__(self, atoms: List[Atom], groups: List[Tuple[int, int]], text: str = "", alts=None):
        self.atoms = atoms
        self.groups = groups
        self.text = text
        # alternations (w1|w2|...) of equal-length words: the atoms carry the per-position union of the letters, and
        # (lo, hi, words) records that atoms[lo:hi] must jointly spell one of the words (tuples of letter sets)
        self.alts: List[Tuple[int, int, FrozenSet[tuple]]] = list(alts or [])

    # -- construction -------------------------------------------------------

    @classmethod
    def parse(cls, text: str, lm: LetterMap) -> "Pattern":
        atoms: List[Atom] = []
        groups: List[Tuple[int, int]] = []
        alts = []
        open_at: Optional[int] = None
        i = 0
        while i < len(text):
            c = text[i]
            if c == "(":
                if open_at is not None:
                    raise AnalysisError("nested group in pattern %r" % text)
                if text[i + 1 : i + 2] == "?":
                    raise AnalysisError("unsupported group syntax in pattern %r" % text)
                close = text.find(")", i)
                body = text[i + 1 : close] if close > 0 else ""
                if "|" in body:
                    # a group that is an alternation of equal-length words
                    words = body.split("|")
                    if not all(w and w.isalpha() for w in words) or len({len(w) for w in words}) != 1:
                        raise AnalysisError("unsupported alternation %r in pattern %r (only equal-length words)" % (body, text))
                    lo = len(atoms)
                    width = len(words[0])
                    for k in range(width):
                        u = frozenset().union(*[lm.letters(w[k]) for w in words])
                        atoms.append(Atom("[%s]" % "".join(sorted(u)) if len(u) > 1 else next(iter(u)), u, "1"))
                    alts.append((lo, lo + width, frozenset(tuple(lm.letters(ch) for ch in w) for w in words)))
                    groups.append((lo, lo + width))
                    i = close + 1
                    continue
                open_at = len(atoms)
                i += 1
                continue
            if c == ")":
                if open_at is None:
                    raise AnalysisError("unbalanced ')' in pattern %r" % text)
                groups.append((open_at, len(atoms)))
                open_at = None
                i += 1
                continue
            if c in "*?+{}[]|.^$\\":
                raise AnalysisError("unsupported regex syntax %r in pattern %r" % (c, text))
            q = "1"
            if text[i + 1 : i + 3] == "*?":
                q = "*?"
                i += 2
            elif text[i + 1 : i + 2] == "*":
                q = "*"
                i += 1
            elif text[i + 1 : i + 2] in ("+", "?", "{"):
                raise AnalysisError("unsupported quantifier in pattern %r" % text)
            atoms.append(Atom(c, lm.letters(c), q))
            i += 1
        if open_at is not None:
            raise AnalysisError("unbalanced '(' in pattern %r" % text)
        return cls(atoms, groups, text, alts)

    # -- segments -----------------------------------------------------------

    def three_adjacent_groups(self) -> Optional[str]:
        """None when the pattern has exactly three groups, adjacent to each
        other; otherwise a description of what is wrong."""
        if len(self.groups) != 3:
            return "expected 3 capture groups, found %d" % len(self.groups)
        (a1, b1), (a2, b2), (a3, b3) = self.groups
        if b1 != a2:
            return "groups 1 and 2 are not adjacent (%d atom(s) between)" % (a2 - b1)
        if b2 != a3:
            return "groups 2 and 3 are not adjacent (%d atom(s) between)" % (a3 - b2)
        return None

    def segments(self) -> List[List[Atom]]:
        """[pre, g1, g2, g3, post]; requires three adjacent groups."""
        (a1, b1), (a2, b2), (a3, b3) = self.groups
        return [self.atoms[:a1], self.atoms[a1:b1], self.atoms[a2:b2], self.atoms[a3:b3], self.atoms[b3:]]

    def group_width(self, i: int) -> Optional[int]:
        a, b = self.groups[i - 1]
        if all(x.fixed for x in self.atoms[a:b]):
            return b - a
        return None

    def unbounded(self) -> List[int]:
        return [i for i, a in enumerate(self.atoms) if not a.fixed]

    # -- site geometry ------------------------------------------------------

    def literal_at(self, pos: int, word: str) -> bool:
        """atoms[pos:pos+len(word)] are fixed singletons spelling ``word``."""
        if pos < 0 or pos + len(word) > len(self.atoms):
            return False
        for k, ch in enumerate(word):
            a = self.atoms[pos + k]
            if not a.fixed or a.set != frozenset([ch]):
                return False
        return True

    def fixed_run(self, lo: int, hi: int) -> bool:
        return 0 <= lo <= hi <= len(self.atoms) and all(a.fixed for a in self.atoms[lo:hi])

    def site_before(self, pos: int, site: str, n: int) -> bool:
        """``site`` then ``n`` fixed atoms end exactly at atom index ``pos``:
        a forward site whose top-strand cut falls at ``pos``."""
        return self.fixed_run(pos - n, pos) and self.literal_at(pos - n - len(site), site)

    def site_after(self, pos: int, rcsite: str, n: int) -> bool:
        """``n`` fixed atoms then the reverse-complemented site start exactly
        at atom index ``pos``: a reverse site whose bottom-strand cut (top
        coordinates) falls at ``pos``."""
        return self.fixed_run(pos, pos + n) and self.literal_at(pos + n, rcsite)

    def count_literal(self, word: str) -> List[int]:
        return [i for i in range(len(self.atoms) - len(word) + 1) if self.literal_at(i, word)]

    # -- canonical form -----------------------------------------------------

    def canonical(self, erase_overhangs: bool = False, n_set: Optional[FrozenSet[str]] = None):
        """Per segment, consecutive atoms with the same letter set merged into
        (set, minimum count, unbounded).  ``NN*N``, ``NNN*`` and a lazy variant
        compare equal: they denote the same language."""
        if self.three_adjacent_groups() is not None:
            raise AnalysisError("canonical form needs three adjacent groups: %r" % self.text)
        out = []
        for si, seg in enumerate(self.segments()):
            runs: List[List] = []
            for a in seg:
                s = a.set
                if erase_overhangs and si in (1, 3):
                    if not a.fixed:
                        s = frozenset(["<unbounded overhang>"])
                    else:
                        s = n_set
                if runs and runs[-1][0] == s:
                    if a.fixed:
                        runs[-1][1] += 1
                    else:
                        runs[-1][2] = True
                else:
                    runs.append([s, 1 if a.fixed else 0, not a.fixed])
            out.append(tuple((r[0], r[1], r[2]) for r in runs))
        if self.alts:
            bounds = [0] + [b for _, b in self.groups]
            segstart = {0: 0, 1: self.groups[0][0], 2: self.groups[1][0], 3: self.groups[2][0], 4: self.groups[2][1]}
            cons = []
            for lo, hi, words in self.alts:
                si = max(k for k, st in segstart.items() if st <= lo)
                if erase_overhangs and si in (1, 3):
                    continue
                cons.append((si, lo - segstart[si], hi - lo, tuple(sorted(tuple(tuple(sorted(x)) for x in w) for w in words))))
            out.append(tuple(sorted(cons)))
        return tuple(out)

    def revcomp(self, comp) -> "Pattern":
        """Reverse atoms, complement letter sets, mirror groups (1 <-> 3)."""
        n = len(self.atoms)
        atoms = [Atom(a.ch, frozenset(comp(x) for x in a.set), a.q) for a in reversed(self.atoms)]
        groups = sorted((n - b, n - a) for (a, b) in self.groups)
        alts = [(n - hi, n - lo, frozenset(tuple(frozenset(comp(x) for x in st) for st in reversed(w)) for w in words))
                for lo, hi, words in self.alts]
        return Pattern(atoms, groups, "revcomp(%s)" % self.text, alts)

    def show(self) -> str:
        out = []
        starts = {a for a, _ in self.groups}
        ends = {b for _, b in self.groups}
        for i, a in enumerate(self.atoms):
            if i in ends:
                out.append(")")
            if i in starts:
                out.append("(")
            out.append(repr(a))
        if len(self.atoms) in ends:
            out.append(")")
        return "".join(out)


_COMP = {"A": "T", "C": "G", "G": "C", "T": "A", "N": "N"}


def comp_letter(x: str) -> str:
    return _COMP.get(x, "~" + x if not x.startswith("~") else x[1:])


def show_canonical(c) -> str:
    def sset(s):
        if set(NUC) <= set(s):
            return "N"
        if len(s) == 1:
            return next(iter(s))
        return "[" + "".join(sorted(s)) + "]"

    segs = []
    for seg in c:
        segs.append("".join("%s{%d%s}" % (sset(s), k, "+" if u else "") for s, k, u in seg))
    return " | ".join(segs)


# ---------------------------------------------------------------------------
# Language inclusion  L(A) subset of L(Sigma* B Sigma*)


class OneRun(object):
    """A pattern with exactly one unbounded run: head (fixed atoms), the run
    (letter set, minimum length), tail (fixed atoms).  Group marks are kept as
    indices into head/tail for the alignment conditions."""

    def __init__(self, head: List[Atom], run_set: FrozenSet[str], run_min: int, tail: List[Atom]):
        self.head, self.run_set, self.run_min, self.tail = head, run_set, run_min, tail


def split_one_run(atoms: Sequence[Atom]) -> Tuple[List[Atom], Atom, List[Atom]]:
    idx = [i for i, a in enumerate(atoms) if not a.fixed]
    if len(idx) != 1:
        raise AnalysisError("inclusion needs exactly one unbounded run, found %d" % len(idx))
    i = idx[0]
    return list(atoms[:i]), atoms[i], list(atoms[i + 1 :])


def _window_ok(A_sets: List[Optional[FrozenSet[str]]], words) -> bool:
    """every string of the product of A's letter sets under the window spells one of the words (None: A is arbitrary there)"""
    if any(s_ is None for s_ in A_sets):
        return False
    import itertools

    size = 1
    for s_ in A_sets:
        size *= len(s_)
    if size > 4096:
        return False
    for combo in itertools.product(*[sorted(s_) for s_ in A_sets]):
        if not any(all(ch in st for ch, st in zip(combo, w)) for w in words):
            return False
    return True


def includes(preA: List[Atom], v: int, postA: List[Atom], headB: List[Atom], tailB: List[Atom], n_ok=None, alts_head=(), alts_tail=()):
    """All alignments (delta, eps) proving
    ``preA . N{v,} . postA``  subset of  ``Sigma* headB N* tailB Sigma*``.

    delta: headB ends ``delta`` atoms after the end of preA (delta < 0:
    |delta| atoms of preA are absorbed by B's run); eps: tailB starts ``eps``
    atoms before postA begins (eps < 0: |eps| atoms of postA are absorbed by
    B's run).  A is arbitrary inside its run, so every atom of B that hangs
    into A's run must be a full N; every fixed atom of B lying over a fixed
    atom of A must include its letter set; B's run absorbs anything (it is
    N*), so atoms of A under B's run are unconstrained; and the part of A's
    run that both ends of B hang into cannot exceed the run's minimum length:
    max(delta,0) + max(eps,0) <= v.
    """
    res = []
    for delta in range(-len(preA), v + 1):
        # headB occupies positions [len(preA)+delta-len(headB), len(preA)+delta) in A-coordinates
        # where positions >= len(preA) are in A's run
        end = len(preA) + delta
        start = end - len(headB)
        if start < 0:
            continue
        ok = True
        for j, b in enumerate(headB):
            pos = start + j
            if pos < len(preA):
                if not (preA[pos].set <= b.set):
                    ok = False
                    break
            else:
                if not b.is_n:
                    ok = False
                    break
        for lo, hi, words in alts_head:
            # B demands one of a few words over headB[lo:hi]
            sets = [preA[start + j].set if start + j < len(preA) else None for j in range(lo, hi)]
            if not _window_ok(sets, words):
                ok = False
        if not ok:
            continue
        for eps in range(-len(postA), v + 1):
            if max(delta, 0) + max(eps, 0) > v:
                continue
            # tailB starts eps atoms before postA: positions relative to postA start: -eps ...
            ok2 = True
            if -eps + len(tailB) > len(postA):
                continue
            for j, b in enumerate(tailB):
                pos = -eps + j
                if pos < 0:
                    if not b.is_n:
                        ok2 = False
                        break
                else:
                    if not (postA[pos].set <= b.set):
                        ok2 = False
                        break
            for lo, hi, words in alts_tail:
                sets = [postA[-eps + j].set if -eps + j >= 0 else None for j in range(lo, hi)]
                if not _window_ok(sets, words):
                    ok2 = False
            if ok2:
                res.append((delta, eps))
    return res
