# coding: utf-8
"""What a decorator does to the function it is applied to.

The abstract interpreter inlines the *decorated* function's body; that is only
sound when every decorator between the name and the body is a pass-through
(the wrapper forwards its arguments unchanged and returns the call's result as
is).  Each decorator is classified from its own source:

  transparent   library decorators that do not wrap the call (classmethod,
                staticmethod, property, abc.abstractmethod, functools.wraps,
                contextlib.contextmanager, six.*) and the repo's descriptor
                classes, which other rules handle by name
  passthrough   a repo wrapper whose every return is `return func(<same
                arguments>)`, the rest being `warnings` bookkeeping
  raises        a repo wrapper all of whose paths raise
  memo          a repo wrapper that stores the wrapped call's result in an
                object that outlives the call and serves later calls from it
  opaque        anything else (the analysis stops with an error)
"""
from __future__ import annotations

import ast
from typing import List, Optional, Tuple

from .loader import AnalysisError, ClassInfo, Ext, FuncInfo, Program

# memoising library decorators: the cached function is evaluated as if called afresh (its value is a function of its
# arguments); that the arguments are all it depends on, and that callers do not modify what it returns, is the business of
# the `memo-purity` obligation (rules_ast.memo_purity_rule)
LIB_MEMO = {"functools.lru_cache", "functools.cache"}

LIB_TRANSPARENT = {
    "builtins.classmethod", "builtins.staticmethod", "builtins.property", "abc.abstractmethod",
    "abc.abstractproperty", "functools.wraps", "contextlib.contextmanager", "six.add_metaclass",
    "six.python_2_unicode_compatible", "typing.overload", "typing.no_type_check",
}
# handled by name by the match-slot / fragment-cache rules
DESCRIPTOR_NAMES = {"cached_property", "classproperty", "property"}


class StaticViolation(AnalysisError):
    """A construct that by itself breaks the property under analysis."""

    def __init__(self, rule: str, construct: str, detail: str, where: str):
        AnalysisError.__init__(self, "%s %s: %s" % (where, construct, detail))
        self.rule, self.construct, self.detail, self.where = rule, construct, detail, where


def _returned_inner(fn: ast.FunctionDef) -> Optional[ast.FunctionDef]:
    """the nested function every return of fn hands out (other nested helpers may sit next to it)"""
    inner = {n.name: n for n in fn.body if isinstance(n, (ast.FunctionDef,))}
    rets = [n for n in ast.walk(fn) if isinstance(n, ast.Return) and _owner_is(fn, n)]
    if not inner or not rets:
        return None
    names = {r.value.id if isinstance(r.value, ast.Name) else None for r in rets}
    if len(names) != 1 or None in names or names.copy().pop() not in inner:
        return None
    return inner[names.pop()]


def _owner_is(fn: ast.FunctionDef, node: ast.AST) -> bool:
    """node belongs to fn itself, not to a nested def/lambda."""
    stack = list(fn.body)
    while stack:
        n = stack.pop()
        if n is node:
            return True
        if isinstance(n, (ast.FunctionDef, ast.AsyncFunctionDef, ast.Lambda, ast.ClassDef)):
            continue
        stack.extend(ast.iter_child_nodes(n))
    return False


def _own_nodes(fn):
    stack = list(fn.body)
    while stack:
        n = stack.pop()
        yield n
        if isinstance(n, (ast.FunctionDef, ast.AsyncFunctionDef, ast.Lambda, ast.ClassDef)):
            continue
        stack.extend(ast.iter_child_nodes(n))


def _forwards_unchanged(wrapper: ast.FunctionDef, call: ast.Call) -> bool:
    a = wrapper.args
    if a.kwonlyargs or a.defaults or a.kw_defaults:
        return False
    want = [("pos", x.arg) for x in a.posonlyargs + a.args]
    if a.vararg:
        want.append(("star", a.vararg.arg))
    got = []
    for x in call.args:
        if isinstance(x, ast.Starred) and isinstance(x.value, ast.Name):
            got.append(("star", x.value.id))
        elif isinstance(x, ast.Name):
            got.append(("pos", x.id))
        else:
            return False
    if got != want:
        return False
    kw = [(k.arg, k.value.id if isinstance(k.value, ast.Name) else None) for k in call.keywords]
    return kw == ([(None, a.kwarg.arg)] if a.kwarg else [])


def _all_paths_raise(stmts) -> bool:
    stmts = [s for s in stmts if not (isinstance(s, ast.Expr) and isinstance(s.value, ast.Constant))]
    if not stmts:
        return False
    last = stmts[-1]
    if isinstance(last, ast.Raise):
        return True
    if isinstance(last, ast.If):
        return bool(last.orelse) and _all_paths_raise(last.body) and _all_paths_raise(last.orelse)
    return False


def _is_warnings_call(p: Program, mod, e: ast.expr) -> bool:
    if not isinstance(e, ast.Call):
        return False
    r = p.resolve_expr(mod, e.func)
    return isinstance(r, Ext) and r.dotted.startswith("warnings.")


def _warnings_only_ctx(p: Program, mod, fn: ast.FunctionDef) -> bool:
    """a nested @contextmanager whose body only arranges warnings filters around its yield"""
    if not any(ast.unparse(d).endswith("contextmanager") for d in fn.decorator_list):
        return False

    def ok(stmts):
        for s in stmts:
            if isinstance(s, ast.Expr) and (isinstance(s.value, (ast.Constant, ast.Yield)) or _is_warnings_call(p, mod, s.value)):
                if isinstance(s.value, ast.Yield) and s.value.value is not None:
                    return False
                continue
            if isinstance(s, ast.With) and all(_is_warnings_call(p, mod, it.context_expr) for it in s.items) and ok(s.body):
                continue
            if isinstance(s, ast.Try) and not s.handlers and ok(s.body) and ok(s.finalbody):
                continue
            return False
        return True

    return ok(fn.body)


def _classify_wrapper(p: Program, mod, wrapper: ast.FunctionDef, func_name: str, siblings=None) -> Tuple[str, str]:
    siblings = siblings or {}
    if _all_paths_raise(wrapper.body):
        return "raises", "every path of the wrapper raises"
    calls = [n for n in _own_nodes(wrapper) if isinstance(n, ast.Call) and isinstance(n.func, ast.Name) and n.func.id == func_name]
    other_uses = [
        n for n in _own_nodes(wrapper)
        if isinstance(n, ast.Name) and n.id == func_name and not any(n is c.func for c in calls)
    ]
    returns = [n for n in _own_nodes(wrapper) if isinstance(n, ast.Return)]

    def simple(stmts) -> bool:
        for s in stmts:
            if isinstance(s, ast.Expr) and (isinstance(s.value, ast.Constant) or _is_warnings_call(p, mod, s.value)):
                continue
            if isinstance(s, ast.With) and all(
                    _is_warnings_call(p, mod, it.context_expr)
                    or (isinstance(it.context_expr, ast.Call) and isinstance(it.context_expr.func, ast.Name) and not it.context_expr.args
                        and it.context_expr.func.id in siblings and _warnings_only_ctx(p, mod, siblings[it.context_expr.func.id]))
                    for it in s.items):
                if not simple(s.body):
                    return False
                continue
            if isinstance(s, ast.Return) and isinstance(s.value, ast.Call) and s.value in calls and _forwards_unchanged(wrapper, s.value):
                continue
            return False
        return True

    if calls and not other_uses and simple(wrapper.body) and returns:
        return "passthrough", ""
    # a store that outlives the call: the result of func lands in a subscript / attribute / container method
    stored = None
    for n in _own_nodes(wrapper):
        if isinstance(n, (ast.Assign, ast.AugAssign, ast.AnnAssign)):
            targets = n.targets if isinstance(n, ast.Assign) else [n.target]
            val = n.value
            if val is not None and any(c is val or c in list(ast.walk(val)) for c in calls):
                for t in targets:
                    if isinstance(t, (ast.Subscript, ast.Attribute)):
                        stored = ast.unparse(t)
        if isinstance(n, ast.Call) and isinstance(n.func, ast.Attribute) and n.func.attr in ("setdefault", "append", "add", "update", "__setitem__", "insert"):
            if any(c in list(ast.walk(a)) for a in n.args for c in calls):
                stored = ast.unparse(n.func)
        if isinstance(n, ast.Call) and isinstance(n.func, ast.Name) and n.func.id == "setattr":
            if any(c in list(ast.walk(a)) for a in n.args for c in calls):
                stored = ast.unparse(n)
    served = [r for r in returns if not (isinstance(r.value, ast.Call) and r.value in calls)]
    if stored and served:
        return "memo", (
            "the wrapper keeps the wrapped call's result in `%s` and line %d returns a kept value: a later call is "
            "answered with the object computed for an earlier state of the receiver (and with the same object, so edits "
            "to one result show in the next)" % (stored, served[0].lineno)
        )
    return "opaque", "the wrapper is neither a pass-through, nor always raising, nor a recognised memo"


def classify(p: Program, fi: FuncInfo) -> List[Tuple[str, str, str]]:
    """[(kind, decorator text, detail)] for each decorator of fi, outermost first."""
    out = []
    for d in fi.node.decorator_list:
        text = ast.unparse(d)
        target = d.func if isinstance(d, ast.Call) else d
        name = target.attr if isinstance(target, ast.Attribute) else target.id if isinstance(target, ast.Name) else None
        try:
            dv = p.resolve_expr(fi.module, target)
        except Exception:
            dv = None
        # functools.singledispatch: the dispatcher and the implementations registered on it (`@f.register(T)`) are
        # ordinary functions; the evaluator picks the implementation by the type of the first argument
        if isinstance(target, ast.Attribute) and target.attr == "register" and isinstance(target.value, ast.Name):
            disp = fi.module.functions.get(target.value.id)
            if disp is not None and any(ast.unparse(x.func if isinstance(x, ast.Call) else x).endswith("singledispatch") for x in disp.node.decorator_list):
                out.append(("transparent", text, "registered implementation of %s" % disp.qualname))
                continue
        if isinstance(dv, Ext) and dv.dotted == "functools.singledispatch":
            out.append(("transparent", text, "single dispatch on the type of the first argument"))
            continue
        if isinstance(dv, Ext) and dv.dotted in LIB_MEMO:
            out.append(("transparent", text, "memoised on its arguments (purity checked by memo-purity)"))
            continue
        if isinstance(dv, Ext):
            if dv.dotted in LIB_TRANSPARENT or dv.dotted.rsplit(".", 1)[-1] == "cached_property":
                out.append(("transparent", text, ""))
            else:
                out.append(("opaque", text, "library decorator %s is not in the table of transparent decorators" % dv.dotted))
            continue
        if isinstance(dv, ClassInfo):
            from .loader import descriptor_kind

            dk = descriptor_kind(p, dv)
            if name in DESCRIPTOR_NAMES:
                out.append(("transparent", text, "descriptor class %s" % dv.qualname))
            elif dk in ("name-keyed-instance", "per-descriptor-instance", "uncached-instance", "class-level", "class-level-cached"):
                # the getter runs with the instance and its result is what the attribute access gives; where the result is
                # kept is the business of the match-slot rule
                out.append(("transparent", text, "descriptor class %s (%s)" % (dv.qualname, dk)))
            else:
                out.append(("opaque", text, "descriptor class %s is not one the analysis models" % dv.qualname))
            continue
        if not isinstance(dv, FuncInfo):
            out.append(("opaque", text, "the decorator cannot be resolved"))
            continue
        layer = dv.node
        if isinstance(d, ast.Call):
            layer = _returned_inner(layer)
            if layer is None:
                out.append(("opaque", text, "decorator factory %s does not return a single inner function" % dv.qualname))
                continue
        wrapper = _returned_inner(layer)
        params = [x.arg for x in layer.args.posonlyargs + layer.args.args]
        if wrapper is None or not params:
            # a decorator that returns func itself (registration) is transparent
            rets = [n for n in _own_nodes(layer) if isinstance(n, ast.Return)]
            if params and rets and all(isinstance(r.value, ast.Name) and r.value.id == params[0] for r in rets):
                out.append(("transparent", text, "returns the function itself"))
            else:
                out.append(("opaque", text, "decorator %s does not return a single inner function" % dv.qualname))
            continue
        sibs = {}
        for scope in (dv.node, layer):
            for n in scope.body:
                if isinstance(n, ast.FunctionDef) and n is not wrapper:
                    sibs[n.name] = n
        kind, detail = _classify_wrapper(p, dv.module, wrapper, params[0], sibs)
        out.append((kind, text, "%s:%d %s" % (dv.module.relpath, wrapper.lineno, detail) if detail else ""))
    return out
