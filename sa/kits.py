# coding: utf-8
"""Inventory of structured-record classes and of the enzymes in scope."""
from __future__ import annotations

import ast
from typing import Dict, List, Optional, Tuple

from .fold import Enzyme, Folder, Raises
from .loader import AnalysisError, ClassInfo, Const, FuncInfo, Program
from .pattern import LetterMap, Pattern

SR = "moclo.core._structured.StructuredRecord"
AM = "moclo.core.modules.AbstractModule"
AV = "moclo.core.vectors.AbstractVector"
AP = "moclo.core.parts.AbstractPart"


class KitClass(object):
    def __init__(self, ci: ClassInfo):
        self.ci = ci
        self.role: Optional[str] = None  # 'module' | 'vector'
        self.cutter: Optional[Enzyme] = None
        self.concrete = False
        self.abstract_reason = ""
        self.structure_owner: Optional[ClassInfo] = None
        self.structure_func: Optional[FuncInfo] = None
        self.match_owner: Optional[ClassInfo] = None
        self.pattern_text: Optional[str] = None
        self.pattern: Optional[Pattern] = None
        self.signature = None
        self.level = None
        self.is_part = False
        self.pattern_error = None

    @property
    def name(self):
        return self.ci.qualname


def load_lettermap(p: Program) -> LetterMap:
    from .roles import letter_table

    _, raw = letter_table(p)
    try:
        table = ast.literal_eval(raw)
    except Exception:
        raise AnalysisError("DNARegex._lettermap is not a literal table")
    return LetterMap(table)


def inventory(p: Program, folder: Optional[Folder] = None) -> List[KitClass]:
    """Every StructuredRecord subclass of the kit modules, with its resolved
    role, cutter, structure and folded pattern."""
    folder = folder or Folder(p)
    lm = load_lettermap(p)
    sr = p.get_class(SR)
    am, av, ap = p.get_class(AM), p.get_class(AV), p.get_class(AP)
    out = []
    for ci in p.all_classes():
        if not ci.module.name.startswith("moclo.kits."):
            continue
        if not p.is_subclass(ci, sr):
            continue
        out.append(describe(p, folder, lm, ci, am, av, ap))
    return out


def describe(p: Program, folder: Folder, lm: LetterMap, ci: ClassInfo, am=None, av=None, ap=None) -> KitClass:
    am = am or p.get_class(AM)
    av = av or p.get_class(AV)
    ap = ap or p.get_class(AP)
    k = KitClass(ci)
    is_m, is_v = p.is_subclass(ci, am), p.is_subclass(ci, av)
    k.is_part = p.is_subclass(ci, ap)
    if is_m and is_v:
        raise AnalysisError("%s is both a module and a vector" % ci.qualname)
    k.role = "module" if is_m else "vector" if is_v else None
    so, sf = p.class_attr_def(ci, "structure")
    k.structure_owner, k.structure_func = so, sf if isinstance(sf, FuncInfo) else None
    from .roles import match_slot

    mo, _ = p.class_attr_def(ci, match_slot(p))
    k.match_owner = mo
    try:
        cutter = folder.class_const(ci, "cutter")
    except AnalysisError:
        raise
    if isinstance(cutter, Enzyme):
        k.cutter = cutter
    elif cutter is NotImplemented:
        k.abstract_reason = "cutter is NotImplemented"
    else:
        raise AnalysisError("%s.cutter folds to %r" % (ci.qualname, cutter))
    lo, lv = p.class_attr_def(ci, "_level")
    if lo is not None:
        k.level = folder.class_const(ci, "_level")
    so2, sv = p.class_attr_def(ci, "signature")
    if so2 is not None:
        k.signature = folder.class_const(ci, "signature")
    if k.role is None:
        k.abstract_reason = k.abstract_reason or "neither module nor vector"
    if k.cutter is not None and k.role is not None:
        try:
            k.pattern_text = folder.structure(ci)
        except Raises as r:
            k.abstract_reason = "structure() raises %s" % r.exc_name
        else:
            k.concrete = True
            if "^" in k.pattern_text or "_" in k.pattern_text:
                # the enzyme's cut markers leaked into the pattern: outside the pattern family, reported by the geometry rule
                k.pattern = Pattern([], [], k.pattern_text)
                k.pattern_error = "cut markers (^ _) of the enzyme's elucidated site leaked into the structure: %r" % k.pattern_text
            else:
                k.pattern = Pattern.parse(k.pattern_text, lm)
    return k


# ---------------------------------------------------------------------------
# enzymes in the quantifier of C01/C04/C05/C12


def enzymes_in_scope() -> List[Tuple[str, str, int, int]]:
    """(name, site, n, k): 5' overhang, non-palindromic, single cut, site over
    ACGT, cut downstream of the site.  Library data (trusted base T4); the
    elucidate() shape is re-checked on every run."""
    import Bio.Restriction as R

    out = []
    for e in sorted(R.AllEnzymes, key=str):
        name = str(e)
        try:
            site = e.site
            if not site or set(site) - set("ACGT"):
                continue
            if e.is_blunt() or e.is_unknown() or not e.is_5overhang():
                continue
            if e.is_palindromic():
                continue
            if getattr(e, "scd5", None) is not None or getattr(e, "scd3", None) is not None:
                continue
            fst5, ovhg = e.fst5, e.ovhg
            if fst5 is None or fst5 < len(site):
                continue
            n = fst5 - len(site)
            k = abs(ovhg)
            if n < 1 or k < 1:
                continue
            expect = site + "N" * n + "^" + "N" * k + "_" + "N"
            if e.elucidate() != expect:
                raise AnalysisError(
                    "trusted base T4 changed: %s.elucidate() = %r, expected %r" % (name, e.elucidate(), expect)
                )
            if e.ovhgseq != "N" * k:
                raise AnalysisError("trusted base T4 changed: %s.ovhgseq = %r" % (name, e.ovhgseq))
        except AnalysisError:
            raise
        except Exception:
            continue
        out.append((name, site, n, k))
    return out


def ambiguous_site_enzymes() -> List[str]:
    """Enzymes outside the ACGT-site quantifier that the library still accepts
    as cutters: 5' overhang, non-palindromic, single cut downstream of a site
    spelled with IUPAC ambiguity letters.  Used only for the strand-symmetry
    obligation of the thorough tier."""
    import Bio.Restriction as R

    out = []
    for e in sorted(R.AllEnzymes, key=str):
        try:
            site = e.site
            if not site or not (set(site) - set("ACGT")) or set(site) - set("ACGTRYKMSWBDHVN"):
                continue
            if e.is_blunt() or e.is_unknown() or not e.is_5overhang() or e.is_palindromic():
                continue
            if getattr(e, "scd5", None) is not None or getattr(e, "scd3", None) is not None:
                continue
            if e.fst5 is None or e.fst5 < len(site):
                continue
            el = e.elucidate()
            if not el.startswith(site) or el.count("^") != 1 or el.count("_") != 1 or el.index("^") > el.index("_"):
                continue
        except Exception:
            continue
        out.append(str(e))
    return out


def inside_cut_enzymes() -> List[str]:
    """Enzymes that cut *inside* their (ACGT) recognition site, which the
    library also accepts as cutters (5' overhang, non-palindromic, single
    cut).  Not useful for Golden Gate and outside the quantifier of the
    geometry rules; used only for the strand-symmetry obligation."""
    import Bio.Restriction as R

    out = []
    for e in sorted(R.AllEnzymes, key=str):
        try:
            site = e.site
            if not site or set(site) - set("ACGT"):
                continue
            if e.is_blunt() or e.is_unknown() or not e.is_5overhang() or e.is_palindromic():
                continue
            if getattr(e, "scd5", None) is not None or getattr(e, "scd3", None) is not None:
                continue
            if e.fst5 is None or not (0 < e.fst5 < len(site)):
                continue
            el = e.elucidate()
            if el.count("^") != 1 or el.count("_") != 1 or el.index("^") > el.index("_") or set(el) - set("ACGTN^_"):
                continue
        except Exception:
            continue
        out.append(str(e))
    return out


def enzyme_geometry(e: Enzyme) -> Tuple[str, int, int]:
    o = e.obj
    site = o.site
    n = o.fst5 - len(site)
    k = abs(o.ovhg)
    expect = site + "N" * n + "^" + "N" * k + "_" + "N"
    if not o.is_5overhang() or set(site) - set("ACGT") or o.elucidate() != expect:
        raise AnalysisError("enzyme %s is outside the supported family (5' overhang, ACGT site, cut downstream)" % e.name)
    return site, n, k


def synthetic_generic(p: Program, role: str, enzyme: str, name: Optional[str] = None) -> ClassInfo:
    base = p.get_class("moclo.core.modules.Entry" if role == "module" else "moclo.core.vectors.EntryVector")
    return p.synthetic_class(name or "User%s_%s" % (role.title(), enzyme), [base], {"cutter": Enzyme.get(enzyme)})


SYM_UP = ""
SYM_DOWN = ""


def synthetic_part(p: Program, role: str, enzyme: str, k: int) -> ClassInfo:
    """A user part with a *symbolic* signature (U, D): private-use code
    points stand for arbitrary signature letters."""
    generic = synthetic_generic(p, role, enzyme, "UserGeneric%s_%s" % (role.title(), enzyme))
    ap = p.get_class(AP)
    mid = p.synthetic_class("UserPartBase_%s" % enzyme, [ap], {"cutter": Enzyme.get(enzyme), "signature": NotImplemented})
    return p.synthetic_class(
        "UserPart%s_%s" % (role.title(), enzyme), [mid, generic], {"signature": (SYM_UP[:k], SYM_DOWN[:k])}
    )
