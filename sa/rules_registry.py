# coding: utf-8
"""C20 -- sibling agreement of the registry classes and the registry data
lint (E6)."""
from __future__ import annotations

import ast
import glob
import os
import re
import tarfile
from typing import Dict, List, Optional

from .loader import AnalysisError, ClassInfo, FuncInfo, KITS, Program


def _dump(e: ast.AST) -> str:
    return ast.dump(e, annotate_fields=False)


def _src(fi: FuncInfo, n: ast.AST) -> str:
    return re.sub(r"\s+", " ", fi.module.segment(n) or "")


def _method(p: Program, ci: ClassInfo, name: str) -> FuncInfo:
    raw = ci.attrs.get(name)
    if not isinstance(raw, FuncInfo):
        # (a method inherited from a mixin is not looked for: the rules below read the class's own methods side by side,
        # and a registry assembled from mixins is reported as not analysed rather than judged on half of its code)
        raise AnalysisError("anchor vanished: %s.%s" % (ci.qualname, name))
    return raw


_PROGRAM = {}


def expanded(fi: FuncInfo, depth: int = 3, imported: bool = False) -> List[ast.AST]:
    """The method's own tree plus the trees of the helpers of the same class
    (self._x(...), cls._x(...)) and of the same module (_x(...)) it calls:
    extracting a helper does not hide what a method does."""
    p = _PROGRAM.get("p")
    out, seen, todo = [], set(), [(fi, depth)]
    while todo:
        f, d = todo.pop()
        if id(f) in seen:
            continue
        seen.add(id(f))
        out.append(f.node)
        if d <= 0 or p is None:
            continue
        for n in ast.walk(f.node):
            if isinstance(n, ast.Call):
                g = None
                if isinstance(n.func, ast.Attribute) and isinstance(n.func.value, ast.Name) and n.func.value.id in ("self", "cls") and f.owner is not None:
                    _, g = p.class_attr_def(f.owner, n.func.attr)
                elif isinstance(n.func, ast.Name):
                    g = f.module.functions.get(n.func.id)
                    if g is None:
                        # a helper imported from a sibling module of the registry package, or a small value class of the
                        # module (its methods and properties are part of what the method does)
                        try:
                            r_ = p.resolve_expr(f.module, n.func)
                        except Exception:
                            r_ = None
                        if isinstance(r_, FuncInfo) and r_.module.name.startswith("moclo.registry") and imported:
                            g = r_
                        elif isinstance(r_, ClassInfo) and r_.module.name.startswith("moclo.registry") and r_.name.startswith("_"):
                            for m_ in r_.attrs.values():
                                if isinstance(m_, FuncInfo):
                                    todo.append((m_, d - 1))
                elif isinstance(n.func, ast.Attribute) and isinstance(n.func.value, ast.Name):
                    # _Value.of(...): an alternative constructor of such a value class
                    try:
                        r_ = p.resolve_expr(f.module, n.func.value)
                    except Exception:
                        r_ = None
                    if isinstance(r_, ClassInfo) and r_.module.name.startswith("moclo.registry") and r_.name.startswith("_"):
                        for m_ in r_.attrs.values():
                            if isinstance(m_, FuncInfo):
                                todo.append((m_, d - 1))
                if isinstance(g, FuncInfo):
                    todo.append((g, d - 1))
            elif isinstance(n, ast.Attribute) and isinstance(n.value, ast.Name) and n.value.id == "self" and f.owner is not None:
                _, g = p.class_attr_def(f.owner, n.attr)
                if isinstance(g, FuncInfo) and g.kind == "property":
                    todo.append((g, d - 1))
    return out


def xwalk(fi: FuncInfo, imported: bool = False):
    for tree in expanded(fi, imported=imported):
        for n in ast.walk(tree):
            yield n


def xsrc(fi: FuncInfo, imported: bool = False) -> str:
    return " ".join(_src(fi, t) if t is fi.node else re.sub(r"\s+", " ", ast.unparse(t)) for t in expanded(fi, imported=imported))


def _calls(fn, attr: str) -> List[ast.Call]:
    it = xwalk(fn) if isinstance(fn, FuncInfo) else ast.walk(fn)
    return [n for n in it if isinstance(n, ast.Call) and isinstance(n.func, ast.Attribute) and n.func.attr == attr]


def _resolve_alias(fn_nodes, e: ast.expr) -> ast.expr:
    """a local bound exactly once to an expression stands for that expression"""
    if isinstance(e, ast.Name):
        defs = [n.value for t in fn_nodes for n in ast.walk(t) if isinstance(n, ast.Assign) and len(n.targets) == 1
                and isinstance(n.targets[0], ast.Name) and n.targets[0].id == e.id]
        if len(defs) == 1:
            return defs[0]
    return e


def _archive_args(p: Program, fi: FuncInfo, depth: int = 3) -> List[str]:
    """the arguments (as written from fi's point of view) of the pkg_resources.resource_stream call fi makes, itself or
    through a helper it hands them to (the helper's parameters are replaced by what fi passes)"""
    own = [n for n in ast.walk(fi.node) if isinstance(n, ast.Call) and isinstance(n.func, ast.Attribute) and n.func.attr == "resource_stream"]
    if own:
        return [ast.unparse(a) for c in own for a in c.args]
    if depth <= 0:
        return []
    for n in ast.walk(fi.node):
        if not isinstance(n, ast.Call):
            continue
        g, off = None, 0
        if isinstance(n.func, ast.Attribute) and isinstance(n.func.value, ast.Name) and n.func.value.id in ("self", "cls") and fi.owner is not None:
            _, g = p.class_attr_def(fi.owner, n.func.attr)
            off = 0 if isinstance(g, FuncInfo) and g.kind == "staticmethod" else 1
        elif isinstance(n.func, ast.Name):
            try:
                g = p.resolve_expr(fi.module, n.func)
            except Exception:
                g = None
        elif isinstance(n.func, ast.Attribute) and isinstance(n.func.value, ast.Name) and n.func.value.id == "self" and fi.owner is not None:
            _, g = p.class_attr_def(fi.owner, n.func.attr)
        if not isinstance(g, FuncInfo) or g is fi:
            continue
        inner = _archive_args(p, g, depth - 1)
        if not inner:
            continue
        gps = [a.arg for a in g.node.args.posonlyargs + g.node.args.args]
        actual = {}
        for i, a in enumerate(n.args):
            if i + off < len(gps):
                actual[gps[i + off]] = ast.unparse(a)
        for k in n.keywords:
            if k.arg:
                actual[k.arg] = ast.unparse(k.value)
        return [actual.get(x, x) for x in inner]
    # a property / attribute read of the class that opens the archive (self._archive)
    for n in ast.walk(fi.node):
        if isinstance(n, ast.Attribute) and isinstance(n.value, ast.Name) and n.value.id == "self" and fi.owner is not None:
            _, g = p.class_attr_def(fi.owner, n.attr)
            if isinstance(g, FuncInfo) and g is not fi and g.kind == "property":
                inner = _archive_args(p, g, depth - 1)
                if inner:
                    return inner
    return []


def _key_names(gi: FuncInfo) -> Set[str]:
    """the lookup key: __getitem__'s parameter, and the parameter of a helper that receives it"""
    ps = [a.arg for a in gi.node.args.posonlyargs + gi.node.args.args]
    keys = set(ps[1:2])
    p = _PROGRAM.get("p")
    for n in ast.walk(gi.node):
        if isinstance(n, ast.Call) and p is not None:
            g, off = None, 0
            if isinstance(n.func, ast.Attribute) and isinstance(n.func.value, ast.Name) and n.func.value.id in ("self", "cls") and gi.owner is not None:
                _, g = p.class_attr_def(gi.owner, n.func.attr)
                off = 0 if isinstance(g, FuncInfo) and g.kind == "staticmethod" else 1
            elif isinstance(n.func, ast.Name):
                g = gi.module.functions.get(n.func.id)
            if isinstance(g, FuncInfo):
                gps = [a.arg for a in g.node.args.posonlyargs + g.node.args.args]
                for i, a in enumerate(n.args):
                    if isinstance(a, ast.Name) and a.id in keys and i + off < len(gps):
                        keys.add(gps[i + off])
                for k in n.keywords:
                    if isinstance(k.value, ast.Name) and k.value.id in keys and k.arg:
                        keys.add(k.arg)
    return keys


def _is_stem_expr(trees, e: ast.expr, opened: List[str], keys: Set[str], depth: int = 0) -> bool:
    """e evaluates to the key that was looked up: the key itself, str(key), or the stem of the path that was opened"""
    if depth > 4:
        return False
    if isinstance(e, ast.Name) and e.id in keys:
        return True
    if isinstance(e, ast.Call) and isinstance(e.func, ast.Name) and e.func.id == "str" and len(e.args) == 1:
        return _is_stem_expr(trees, e.args[0], opened, keys, depth + 1)
    if isinstance(e, ast.Subscript) and isinstance(e.slice, ast.Constant) and e.slice.value == 0 and _is_splitext_of(e.value, opened):
        return True
    if isinstance(e, ast.Attribute) and isinstance(e.value, ast.Name):
        # <value object>.stem where the file opened is <value object>.filename and stem is a property computing
        # splitext(self.filename)[0]
        p = _PROGRAM.get("p")
        mods = {id(t): None for t in trees}
        for o in opened:
            if o.startswith(e.value.id + "."):
                fld = o[len(e.value.id) + 1:]
                for m in (p.modules.values() if p is not None else []):
                    if not m.name.startswith("moclo.registry"):
                        continue
                    for ci in m.classes.values():
                        prop = ci.attrs.get(e.attr)
                        if isinstance(prop, FuncInfo) and prop.kind == "property":
                            rets = [n for n in ast.walk(prop.node) if isinstance(n, ast.Return) and n.value is not None]
                            me = prop.node.args.args[0].arg if prop.node.args.args else "self"
                            if rets and all(_is_stem_expr([prop.node], r_.value, ["%s.%s" % (me, fld)], set(), depth + 1) for r_ in rets):
                                return True
    if isinstance(e, ast.Name):
        # a local: every binding must be a stem expression (first element of `stem, ext = splitext(opened)`)
        binds = []
        for t in trees:
            for n in ast.walk(t):
                if isinstance(n, ast.Assign):
                    for tg in n.targets:
                        if isinstance(tg, ast.Name) and tg.id == e.id:
                            binds.append(("whole", n.value))
                        elif isinstance(tg, (ast.Tuple, ast.List)):
                            for i, el in enumerate(tg.elts):
                                if isinstance(el, ast.Name) and el.id == e.id:
                                    binds.append(("elem%d" % i, n.value))
        if not binds:
            return False
        for kind, v in binds:
            if kind == "whole":
                if not _is_stem_expr(trees, v, opened, keys, depth + 1):
                    return False
            elif not (kind == "elem0" and _is_splitext_of(v, opened)):
                return False
        return True
    return False


def _is_splitext_of(e: ast.expr, opened: List[str]) -> bool:
    if not (isinstance(e, ast.Call) and len(e.args) == 1):
        return False
    f = e.func
    name = f.attr if isinstance(f, ast.Attribute) else f.id if isinstance(f, ast.Name) else None
    return name == "splitext" and ast.unparse(e.args[0]) in opened


def _id_stores(trees):
    """[(receiver name, kind, value)] for every store to <local>.id"""
    out = []
    for t in trees:
        for n in ast.walk(t):
            if isinstance(n, ast.Assign):
                for tg in n.targets:
                    if isinstance(tg, ast.Attribute) and tg.attr == "id" and isinstance(tg.value, ast.Name):
                        out.append((tg.value.id, "whole", n.value, n))
                    elif isinstance(tg, (ast.Tuple, ast.List)):
                        for i, el in enumerate(tg.elts):
                            if isinstance(el, ast.Attribute) and el.attr == "id" and isinstance(el.value, ast.Name):
                                out.append((el.value.id, "elem%d" % i, n.value, n))
            elif isinstance(n, ast.Call) and isinstance(n.func, ast.Name) and n.func.id == "setattr" and len(n.args) == 3 \
                    and isinstance(n.args[0], ast.Name) and isinstance(n.args[1], ast.Constant) and n.args[1].value == "id":
                out.append((n.args[0].id, "whole", n.args[2], n))
    return out


def _record_id_ok(p, gi, trees, recv: str, opened, keys) -> Tuple[bool, str]:
    """the id of the record a local names is the looked-up key"""
    stores = [s for s in _id_stores(trees) if s[0] == recv]
    if stores:
        for _, kind, v, n in stores:
            good = _is_stem_expr(trees, v, opened, keys) if kind == "whole" else (kind == "elem0" and _is_splitext_of(v, opened))
            if not good:
                return False, "`%s`" % ast.unparse(n)
        return True, "`%s`" % ast.unparse(stores[-1][3])
    # never re-assigned: the constructor must have been given it
    base = p.get_class("moclo.record.CircularRecord")
    for t in trees:
        for n in ast.walk(t):
            if isinstance(n, ast.Assign) and any(isinstance(tg, ast.Name) and tg.id == recv for tg in n.targets) and isinstance(n.value, ast.Call):
                try:
                    v = p.resolve_expr(gi.module, n.value.func)
                except Exception:
                    v = None
                if isinstance(v, ClassInfo) and p.is_subclass(v, base):
                    e = next((k.value for k in n.value.keywords if k.arg == "id"), n.value.args[1] if len(n.value.args) > 1 else None)
                    if e is not None:
                        return _is_stem_expr(trees, e, opened, keys), "`%s`" % ast.unparse(n)
    return False, "the id of `%s` is whatever the file declares (never set to the key)" % recv


def _filesystem_id(p, gi: FuncInfo, opened) -> Tuple[bool, str]:
    trees = expanded(gi)
    keys = _key_names(gi)
    recvs = {s[0] for s in _id_stores(trees)}
    base = p.get_class("moclo.record.CircularRecord")
    for t in trees:
        for n in ast.walk(t):
            if isinstance(n, ast.Assign) and isinstance(n.value, ast.Call) and len(n.targets) == 1 and isinstance(n.targets[0], ast.Name):
                try:
                    v = p.resolve_expr(gi.module, n.value.func)
                except Exception:
                    v = None
                if isinstance(v, ClassInfo) and p.is_subclass(v, base):
                    recvs.add(n.targets[0].id)
    if not recvs or len(opened) != 1:
        return False, "no record is built from an opened file"
    what = []
    for recv in sorted(recvs):
        ok, w = _record_id_ok(p, gi, trees, recv, opened, keys)
        what.append(w)
        if not ok:
            return False, w
    return True, "; ".join(what)


def _item_carries_id(p, gi: FuncInfo, item_calls, opened) -> Tuple[bool, str]:
    if len(item_calls) != 1:
        return False, "%d Item(...) constructions" % len(item_calls)
    c = item_calls[0]
    e = next((k.value for k in c.keywords if k.arg == "id"), c.args[0] if c.args else None)
    if e is None:
        return False, "Item(...) without id"
    trees = expanded(gi)
    keys = _key_names(gi)
    e2 = _resolve_alias(trees, e)
    if isinstance(e2, ast.Attribute) and e2.attr == "id" and isinstance(e2.value, ast.Name):
        ok, w = _record_id_ok(p, gi, trees, e2.value.id, opened, keys)
        return ok, "id=%s with %s" % (ast.unparse(e), w)
    return _is_stem_expr(trees, e, opened, keys), "id=%s" % ast.unparse(e)


def _self_attr_uses(fn: ast.AST, attr: str) -> List[ast.Attribute]:
    return [n for n in ast.walk(fn) if isinstance(n, ast.Attribute) and n.attr == attr and isinstance(n.value, ast.Name) and n.value.id == "self"]


def registry_rules(ctx, rule: str):
    p = ctx.program
    _PROGRAM["p"] = p
    r = ctx.report
    base = "moclo.registry.base."
    # ---------------- CombinedRegistry ----------------
    comb = p.get_class(base + "CombinedRegistry")
    writers = []
    for name, raw in comb.attrs.items():
        if not isinstance(raw, FuncInfo):
            continue
        for n in ast.walk(raw.node):
            tgt = None
            if isinstance(n, ast.Assign):
                for t in n.targets:
                    if isinstance(t, ast.Subscript) and isinstance(t.value, ast.Attribute) and t.value.attr == "_data":
                        tgt = ("subscript-store", n)
                    if isinstance(t, ast.Attribute) and t.attr == "_data" and name != "__init__":
                        tgt = ("rebinding", n)
            if isinstance(n, ast.Call) and isinstance(n.func, ast.Attribute) and isinstance(n.func.value, ast.Attribute) \
                    and n.func.value.attr == "_data" and n.func.attr in ("update", "setdefault", "pop", "clear", "popitem", "__setitem__"):
                tgt = (n.func.attr, n)
            if tgt:
                writers.append((raw, tgt[0], tgt[1]))
    add = _method(p, comb, "add_registry")
    parents = {}
    for nd in ast.walk(add.node):
        for ch in ast.iter_child_nodes(nd):
            parents[id(ch)] = nd
    # a writer may sit in a helper add_registry calls once per item: self._adopt(item)
    def per_item_helper(raw):
        if raw is add or not raw.node.args.args or len(raw.node.args.args) != 2:
            return False
        calls = [n for n in ast.walk(add.node) if isinstance(n, ast.Call) and isinstance(n.func, ast.Attribute) and n.func.attr == raw.name
                 and isinstance(n.func.value, ast.Name) and n.func.value.id == "self"]
        others = [m for m in comb.attrs.values() if isinstance(m, FuncInfo) and m is not add and m is not raw and any(
            isinstance(n, ast.Call) and isinstance(n.func, ast.Attribute) and n.func.attr == raw.name for n in ast.walk(m.node))]
        if len(calls) != 1 or others or len(calls[0].args) != 1 or not isinstance(calls[0].args[0], ast.Name):
            return False
        # called on the loop variable of the loop over the member's values
        loop = parents.get(id(parents.get(id(calls[0]))))
        return isinstance(loop, ast.For) and isinstance(loop.target, ast.Name) and loop.target.id == calls[0].args[0].id

    for raw, kind, node in writers:
        in_add = raw is add or per_item_helper(raw)
        ok = in_add and kind == "setdefault"
        if ok:
            a = node.args
            ok = len(a) == 2 and _src(raw, a[0]).endswith(".id") and isinstance(a[1], ast.Name) and _src(raw, a[0]).split(".")[0] == a[1].id
        elif in_add and kind == "subscript-store":
            # if item.id not in self._data: self._data[item.id] = item
            key = node.targets[0].slice
            g = parents.get(id(node))
            ok = (isinstance(g, ast.If) and node in g.body and isinstance(g.test, ast.Compare) and len(g.test.ops) == 1 and isinstance(g.test.ops[0], ast.NotIn)
                  and _dump(g.test.left) == _dump(key) and _src(raw, g.test.comparators[0]) == "self._data" and not g.orelse
                  and _src(raw, key).endswith(".id") and isinstance(node.value, ast.Name) and _src(raw, key).split(".")[0] == node.value.id)
        elif raw is add and kind == "update":
            # self._data.update((item.id, item) for item in member.values() if item.id not in self._data): lazily filtered pairs
            ok = _filtered_pairs(raw, node) is not None
        elif kind == "rebinding":
            # `if not self._data: self._data = dict(<table>)`: an empty registry adopting a *copy* of a whole table has nothing
            # to arbitrate -- sound exactly when that table is itself keyed by its items' ids, which is a fact about where
            # the table comes from (another combined registry) that this rule does not establish: undecided.  Adopting the
            # table itself (no copy) or rebinding a registry that may hold items is the violation.
            v = node.value
            copied = (isinstance(v, ast.Call) and len(v.args) == 1 and not v.keywords and ast.unparse(v.func) in ("dict", "OrderedDict", "collections.OrderedDict")) or (
                isinstance(v, ast.Call) and isinstance(v.func, ast.Attribute) and v.func.attr == "copy" and not v.args)
            pm = {}
            for nd in ast.walk(raw.node):
                for ch in ast.iter_child_nodes(nd):
                    pm[id(ch)] = nd
            g = pm.get(id(node))
            empty = isinstance(g, ast.If) and node in g.body and isinstance(g.test, ast.UnaryOp) and isinstance(g.test.op, ast.Not) \
                and _src(raw, g.test.operand) in ("self._data", "len(self._data)")
            if copied and empty:
                raise AnalysisError("%s:%d: an empty combined registry adopts a copy of a whole table (`%s`); whether that table is keyed by "
                                    "its items' own ids is not established by the combined-registry rule" % (raw.module.relpath, node.lineno, _src(raw, node)))
        r.ob(rule + ".combined-first-wins", "%s@%s" % (raw.qualname, kind), ok,
             "the only writer of a combined registry must be insert-if-absent keyed by the item's own id (first member wins): `%s`" % _src(raw, node),
             "%s:%d" % (raw.module.relpath, node.lineno))
    r.floor(rule + ".combined-first-wins", 1)
    # the union covers all values of the member
    loops = [n for n in ast.walk(add.node) if isinstance(n, ast.For)]
    guards = [n for n in ast.walk(loops[0]) if isinstance(n, ast.If)] if loops else []
    upd = [n for _f, k_, n in writers if _f is add and k_ == "update"]
    if not loops and len(upd) == 1 and _filtered_pairs(add, upd[0]) is not None:
        comp = _filtered_pairs(add, upd[0])
        okc = ast.unparse(_resolve_alias([add.node], comp.generators[0].iter)).replace(" ", "") in ("six.itervalues(registry)", "itervalues(registry)", "registry.values()", "list(registry.values())")
        r.ob(rule + ".combined-union", add.qualname, okc, "add_registry must visit every item of the member: `%s`" % _src(add, comp), add.where())
        loops = None
    ok = loops is not None and len(loops) == 1 and ast.unparse(_resolve_alias([add.node], loops[0].iter)).replace(" ", "") in ("six.itervalues(registry)", "itervalues(registry)", "registry.values()", "list(registry.values())") and not any(
        isinstance(n, (ast.Break, ast.Continue)) for n in ast.walk(loops[0])) and all(
        isinstance(g.test, ast.Compare) and isinstance(g.test.ops[0], ast.NotIn) and _src(add, g.test.comparators[0]) == "self._data" for g in guards)
    if loops is not None:
        r.ob(rule + ".combined-union", add.qualname, ok, "add_registry must visit every item of the member unconditionally: `%s`" % (_src(add, loops[0]) if loops else "no loop"), add.where())
    for name, want, forms in (("__getitem__", "self._data[item]", ("self._data[item]", "self._data.__getitem__(item)")),
                              ("__iter__", "iter(self._data)", ("iter(self._data)", "self._data.__iter__()", "iter(self._data.keys())")),
                              ("__len__", "len(self._data)", ("len(self._data)", "self._data.__len__()", "len(self._data.keys())")),
                              ("__contains__", "item in self._data", ("item in self._data", "self._data.__contains__(item)", "item in self._data.keys()"))):
        fi = _method(p, comb, name)
        rets = [n for n in ast.walk(fi.node) if isinstance(n, ast.Return)]
        ok = len(rets) == 1 and _src(fi, rets[0].value) in forms and len(fi.node.body) <= 2
        r.ob(rule + ".combined-views", fi.qualname, ok, "%s must be the plain view of the key set (%s), got `%s`" % (name, want, _src(fi, rets[0].value) if rets else None), fi.where())
    lsh = _method(p, comb, "__lshift__")
    ok = bool(_calls(lsh.node, "add_registry")) and any(isinstance(n, ast.Return) and isinstance(n.value, ast.Name) and n.value.id == "self" for n in ast.walk(lsh.node))
    r.ob(rule + ".combined-views", lsh.qualname, ok, "<< must add the registry and return the combined registry itself", lsh.where())

    # ---------------- EmbeddedRegistry ----------------
    emb = p.get_class(base + "EmbeddedRegistry")
    data = _method(p, emb, "_data")
    dnodes = expanded(data)
    stores = [n for n in ast.walk(data.node) if isinstance(n, ast.Assign) and any(isinstance(t, ast.Subscript) for t in n.targets)]
    comps = [n for n in ast.walk(data.node) if isinstance(n, ast.DictComp)]
    ok = len(stores) + len(comps) == 1
    det = "expected one keyed store (or one dict comprehension) building the table"
    if ok:
        key = stores[0].targets[0].slice if stores else comps[0].key
        items = [n for n in xwalk(data) if isinstance(n, ast.Call) and isinstance(n.func, ast.Name) and n.func.id == "Item"]
        idkw = None
        if len(items) == 1:
            for kw in items[0].keywords:
                if kw.arg == "id":
                    idkw = kw.value
            if idkw is None and items[0].args:
                idkw = items[0].args[0]
        if idkw is not None:
            idkw = _resolve_alias(dnodes, idkw)

        class _NoWalrus(ast.NodeTransformer):
            def visit_NamedExpr(self, node):
                return ast.Name(id=node.target.id, ctx=ast.Load())

        key = _NoWalrus().visit(ast.parse(ast.unparse(key), mode="eval").body)
        if idkw is not None:
            idkw = ast.parse(ast.unparse(idkw), mode="eval").body
        ok = idkw is not None and _dump(key) == _dump(idkw) and ast.unparse(key).endswith(".id")
        if not ok and isinstance(key, ast.Attribute) and key.attr == "id" and isinstance(key.value, ast.Name) and len(items) == 1:
            # filed under <item>.id where <item> is the Item that is stored (built in place or by a helper of the class)
            bound = [n.value for n in ast.walk(data.node) if isinstance(n, ast.Assign) and len(n.targets) == 1
                     and isinstance(n.targets[0], ast.Name) and n.targets[0].id == key.value.id]
            stored = stores[0].value if stores else comps[0].value
            ok = len(bound) == 1 and _returns_item(p, data, bound[0], items) and isinstance(stored, ast.Name) and stored.id == key.value.id
        det = "an item must be filed under the id it carries: key `%s`, Item id `%s`" % (ast.unparse(key), ast.unparse(idkw) if idkw is not None else None)
        if not ok and len(items) != 1:
            # the Item is not built where this rule can see it (an alternative constructor, a helper two calls away): what
            # id it carries is not known here -- undecided, not wrong
            raise AnalysisError("%s: the Item filed under `%s` is built out of sight of the embedded-key rule (%d direct Item(...) "
                                "constructions within reach); the id it carries is not decided" % (data.where(), ast.unparse(key), len(items)))
    r.ob(rule + ".embedded-key-is-id", data.qualname, ok, det, data.where())
    wrap = [n for n in xwalk(data) if isinstance(n, ast.Call) and isinstance(n.func, ast.Name) and n.func.id == "CircularRecord"]
    okw = bool(wrap) and any("SeqIO.read" in ast.unparse(w) for w in wrap)
    # every SeqIO.read result is wrapped
    reads = [n for n in xwalk(data) if isinstance(n, ast.Call) and "SeqIO.read" in ast.unparse(n.func)]
    okw = okw and all(any(rd in list(ast.walk(w)) for w in wrap) for rd in reads)
    r.ob(rule + ".circular-record", data.qualname, okw, "records must be wrapped in CircularRecord before the entity is built", data.where())
    it = _method(p, emb, "__iter__")
    ln = _method(p, emb, "__len__")
    gi = _method(p, emb, "__getitem__")
    elts = [n.elt for n in ast.walk(it.node) if isinstance(n, ast.GeneratorExp)] + [n.value for n in ast.walk(it.node) if isinstance(n, ast.Yield) and n.value is not None]
    for n in ast.walk(it.node):
        # map(operator.attrgetter("name"), members): the name of every member
        if isinstance(n, ast.Call) and isinstance(n.func, ast.Name) and n.func.id == "map" and len(n.args) == 2 and isinstance(n.args[0], ast.Call) \
                and ast.unparse(n.args[0].func) in ("operator.attrgetter", "attrgetter") and len(n.args[0].args) == 1 \
                and isinstance(n.args[0].args[0], ast.Constant) and n.args[0].args[0].value == "name":
            elts.append(ast.Attribute(value=ast.Name(id="member", ctx=ast.Load()), attr="name", ctx=ast.Load()))
    ok = ("tar" in xsrc(it, imported=True) and not any(isinstance(n, ast.If) for n in ast.walk(it.node)) and bool(elts)
          and all(isinstance(x, ast.Attribute) and x.attr == "name" and isinstance(x.value, ast.Name) for x in elts))
    ok = ok or _returns_only(it, ("iter(self._data)", "iter(self._data.keys())"))
    r.ob(rule + ".embedded-siblings", it.qualname, ok, "iteration must yield every archive member name", it.where())
    ok = "getmembers()" in _src(ln, ln.node) and "len(" in _src(ln, ln.node) and not any(isinstance(n, (ast.If, ast.BinOp)) for n in ast.walk(ln.node))
    ok = ok or _len_via_iteration(ln) or _returns_only(ln, ("len(self._data)",))
    r.ob(rule + ".embedded-siblings", ln.qualname, ok, "the length must be the number of archive members (or be derived from the iteration / the table itself)", ln.where())
    rets = [n for n in ast.walk(gi.node) if isinstance(n, ast.Return)]
    ok = len(rets) == 1 and _src(gi, rets[0].value) == "self._data[item]"
    r.ob(rule + ".embedded-siblings", gi.qualname, ok, "lookup must be the table built from the archive (KeyError when absent)", gi.where())
    files_da = _archive_args(p, data)
    files_it = _archive_args(p, it) or files_da
    files_ln = _archive_args(p, ln) or files_da
    if not files_da:
        raise AnalysisError("%s: how %s opens its archive is not recognised (no pkg_resources.resource_stream / tarfile.open arguments "
                            "within reach); that iteration, length and lookup read the same archive is not decided" % (data.where(), data.qualname))
    r.ob(rule + ".embedded-siblings", emb.qualname + "#archive", files_it == files_ln == files_da and bool(files_it),
         "iteration, length and lookup must read the same archive: %s / %s / %s" % (files_it, files_ln, files_da), emb.where())
    # every concrete embedded registry keeps these three (no override that breaks the agreement)
    for ci in p.subclasses(emb):
        for name in ("__iter__", "__len__", "__getitem__", "_data"):
            o, raw = p.class_attr_def(ci, name)
            r.ob(rule + ".embedded-siblings", "%s.%s" % (ci.qualname, name), o is emb,
                 "%s overrides %s: the key set agreement of the base class no longer applies" % (ci.name, name), ci.where())
        o, raw = p.class_attr_def(ci, "_load_entity")
        r.ob(rule + ".embedded-entity", ci.qualname, isinstance(raw, FuncInfo) and o is not emb, "%s must implement _load_entity" % ci.name, ci.where())

    # ---------------- FilesystemRegistry ----------------
    fsr = p.get_class(base + "FilesystemRegistry")
    it = _method(p, fsr, "__iter__")
    ln = _method(p, fsr, "__len__")
    gi = _method(p, fsr, "__getitem__")
    fd_it = _calls(it, "filterdir")
    fd_ln = _calls(ln, "filterdir")
    ok = len(fd_it) == 1 and len(fd_ln) == 1 and _dump(fd_it[0]) == _dump(fd_ln[0])
    ok = ok or (len(fd_it) == 1 and _len_via_iteration(ln))
    r.ob(rule + ".filesystem-siblings", fsr.qualname + "#iter/len", ok,
         "iteration and length must enumerate the same files: `%s` vs `%s`" % (ast.unparse(fd_it[0]) if fd_it else None, ast.unparse(fd_ln[0]) if fd_ln else None), it.where())
    if fd_it:
        srcs = ast.unparse(fd_it[0])
        fkw = next((k.value for k in fd_it[0].keywords if k.arg == "files"), None)
        ok = fkw is not None and _derives_from_self_attr(p, it, fkw, "_extensions") and "exclude_dirs" in srcs
        r.ob(rule + ".filesystem-siblings", fsr.qualname + "#filter", ok,
             "enumeration must be restricted to the supported extensions (a `files=` filter derived from self._extensions) and ignore sub-directories: `%s`" % srcs, it.where())
    ok = any(len(_self_attr_uses(t, "_extensions")) >= 1 for t in expanded(gi))
    r.ob(rule + ".filesystem-siblings", gi.qualname + "#extensions", ok, "lookup must try exactly the supported extensions (self._extensions)", gi.where())
    # yielded key is the stem
    ys = [n for n in ast.walk(it.node) if isinstance(n, (ast.Yield, ast.YieldFrom))]
    ok = len(ys) == 1 and "splitext" in xsrc(it) and not any(isinstance(n, ast.If) for n in ast.walk(it.node)) and not any(
        isinstance(n, ast.comprehension) and n.ifs for n in ast.walk(it.node))
    r.ob(rule + ".filesystem-siblings", it.qualname + "#stem", ok, "iteration must yield the stem of every enumerated file", it.where())
    # id is the stem of the opened file; fall-through raises KeyError
    opened = [ast.unparse(c.args[0]) for c in _calls(gi, "open") if c.args]
    ok, what = _filesystem_id(p, gi, opened)
    r.ob(rule + ".filesystem-id", gi.qualname, ok, "the item's id must be the key looked up, i.e. the stem of the file that was opened: %s (opened: %s)" % (what, opened), gi.where())
    item_calls = [n for n in xwalk(gi) if isinstance(n, ast.Call) and isinstance(n.func, ast.Name) and n.func.id == "Item"]
    ok, what = _item_carries_id(p, gi, item_calls, opened)
    r.ob(rule + ".filesystem-id", gi.qualname + "#Item", ok, "the Item must carry the record's (re-assigned) id: %s" % what, gi.where())
    raises = [n for n in xwalk(gi) if isinstance(n, ast.Raise) and n.exc is not None]
    rets = [n for n in ast.walk(gi.node) if isinstance(n, ast.Return)]
    ok = (bool(raises) and all(ast.unparse(n.exc).startswith("KeyError(") for n in raises) and _terminates(gi.node.body)
          and all(n.value is not None and _returns_item(p, gi, _resolve_alias([gi.node], n.value), item_calls) for n in rets))
    r.ob(rule + ".filesystem-keyerror", gi.qualname, ok,
         "an absent key must raise KeyError: the lookup either returns the Item built from an existing file or ends in `raise KeyError(...)` (no other exit)", gi.where())
    # the file is opened only when it exists as a file: an `isfile` test of the same name, or a handler that covers both
    # ways the library refuses to open a path (fs.errors.ResourceNotFound: nothing there; fs.errors.FileExpected: a directory)
    for t in expanded(gi):
        par = {}
        for n in ast.walk(t):
            for ch in ast.iter_child_nodes(n):
                par[id(ch)] = n
        for c in [n for n in ast.walk(t) if isinstance(n, ast.Call) and isinstance(n.func, ast.Attribute) and n.func.attr == "open"
                  and "fs" in ast.unparse(n.func.value) and n.args]:
            name_src = ast.unparse(c.args[0])
            guarded, why = False, "no `isfile(%s)` test and no handler around `%s`" % (name_src, ast.unparse(c)[:40])
            cur = c
            while id(cur) in par:
                up = par[id(cur)]
                if isinstance(up, ast.If) and cur in up.body and any(
                        isinstance(x, ast.Call) and isinstance(x.func, ast.Attribute) and x.func.attr == "isfile" and x.args and ast.unparse(x.args[0]) == name_src
                        for x in ast.walk(up.test)):
                    guarded = True
                    break
                if isinstance(up, ast.Try) and cur in up.body:
                    import fs.errors as _fe

                    for h in up.handlers:
                        types = [h.type] if h.type is not None and not isinstance(h.type, ast.Tuple) else (h.type.elts if h.type is not None else [None])
                        covers_nf = covers_fe = False
                        for ty in types:
                            if ty is None:
                                covers_nf = covers_fe = True
                                continue
                            nm = ast.unparse(ty).split(".")[-1]
                            cls = getattr(_fe, nm, None) or {"Exception": Exception, "BaseException": BaseException, "OSError": OSError}.get(nm)
                            if isinstance(cls, type):
                                covers_nf = covers_nf or issubclass(_fe.ResourceNotFound, cls)
                                covers_fe = covers_fe or issubclass(_fe.FileExpected, cls)
                        if covers_nf and covers_fe:
                            guarded = True
                        elif covers_nf:
                            why = ("the handler around `%s` catches %s only: for a sub-directory named like the file the library raises "
                                   "fs.errors.FileExpected, which escapes instead of KeyError" % (ast.unparse(c)[:40], "/".join(ast.unparse(x) for x in types if x is not None)))
                    if guarded:
                        break
                cur = up
            if not guarded and "catches" not in why and t is not gi.node and any(
                    isinstance(x, ast.Call) and isinstance(x.func, ast.Attribute) and x.func.attr == "isfile" for x in xwalk(gi)):
                guarded = True  # the open sits in a helper; the lookup path tests isfile before it hands the name over
            if not guarded and "catches" not in why and isinstance(c.args[0], ast.Name):
                # the name opened was selected by isfile used as a predicate: next(filter(fs.isfile, candidates), None)
                for a in ast.walk(t):
                    val = a.value if isinstance(a, (ast.Assign, ast.NamedExpr)) else None
                    tg = (a.targets[0] if isinstance(a, ast.Assign) else a.target) if val is not None else None
                    if isinstance(tg, ast.Name) and tg.id == c.args[0].id and any(
                            isinstance(x, ast.Call) and isinstance(x.func, ast.Name) and x.func.id == "filter" and x.args
                            and isinstance(x.args[0], ast.Attribute) and x.args[0].attr == "isfile" for x in ast.walk(val)):
                        guarded = True
            r.ob(rule + ".filesystem-keyerror", gi.qualname + "#open", guarded, "a name that is not an existing file must end in KeyError: " + why, gi.where())
    wrap = [n for n in xwalk(gi) if isinstance(n, ast.Call) and isinstance(n.func, ast.Name) and n.func.id == "CircularRecord"]
    ok = bool(wrap) and any(kw.arg == "entity" and "characterize(record)" in ast.unparse(kw.value) for kw in item_calls[0].keywords) if item_calls else False
    r.ob(rule + ".circular-record", gi.qualname, ok, "the file's record must be wrapped in CircularRecord and that record characterised", gi.where())

    known_resistance_rule(ctx, rule)


# the cassette labels the library resolves at the pinned commit, read off moclo/registry/_utils.py and confirmed by hand: a
# plasmid of a user's directory that carries one of them is a "typed GenBank plasmid" of the quantifier, and its lookup ends
# in a RuntimeError (for a key the iteration yields) as soon as the label leaves the table.  New labels may be added freely.
CONFIRMED_CASSETTE_LABELS = {
    "KanR": "Kanamycin", "KnR": "Kanamycin", "CamR": "Chloramphenicol", "CmR": "Chloramphenicol",
    "AmpR": "Ampicillin", "SmR": "Spectinomycin", "SpecR": "Spectinomycin",
}


def known_resistance_rule(ctx, rule: str):
    """find_resistance returns only values of the antibiotics table, looked up under a key known to be in it, or raises"""
    p = ctx.program
    r = ctx.report
    fr = p.get_func("moclo.registry._utils.find_resistance")
    mod = fr.module
    from .roles import resistance_table, resistance_table_value

    tname = resistance_table(p)
    table = resistance_table_value(p, tname)
    if table is None:
        raise AnalysisError("%s: the antibiotics table `%s` does not fold to a mapping of labels to antibiotics" % (fr.where(), tname))
    for label, name in sorted(CONFIRMED_CASSETTE_LABELS.items()):
        r.ob(rule + ".known-resistance.table", "%s[%r]" % (tname, label), table.get(label) == name,
             "the cassette label %r must resolve to %r as it does at the pinned commit (the table gives %r): a directory plasmid "
             "carrying it is listed by the registry but its lookup raises" % (label, name, table.get(label)), fr.where())
    r.floor(rule + ".known-resistance.table", len(CONFIRMED_CASSETTE_LABELS))
    # what the function returns is decided by evaluating it (kernel K24); the provenance rule that reads the code's shape
    # is consulted only when the evaluation has no model for something the function does
    from .kernels4 import k24_known_resistance

    try:
        k24_known_resistance(ctx, rule + ".known-resistance")
        return
    except AnalysisError as exc:
        k24_error = exc
    bad = table_value_returns(p, fr, tname)
    if not _terminates(fr.node.body):
        bad.append("line %d: the function can fall off its end (returns None) instead of raising" % fr.node.body[-1].lineno)
    r.ob(rule + ".known-resistance", fr.qualname, not bad,
         "find_resistance must return only values of the antibiotics table, looked up under a key known to be in the table, or raise: %s" % "; ".join(bad), fr.where())


def _terminates(body) -> bool:
    """no path falls off the end of the block"""
    if not body:
        return False
    last = body[-1]
    if isinstance(last, (ast.Return, ast.Raise)):
        return True
    if isinstance(last, ast.If):
        return _terminates(last.body) and _terminates(last.orelse)
    if isinstance(last, ast.Try):
        handlers = all(_terminates(h.body) for h in last.handlers)
        if last.finalbody and _terminates(last.finalbody):
            return True
        return handlers and (_terminates(last.orelse) if last.orelse else _terminates(last.body))
    if isinstance(last, ast.With):
        return _terminates(last.body)
    if isinstance(last, ast.While) and isinstance(last.test, ast.Constant) and last.test.value:
        return not any(isinstance(n, ast.Break) for n in ast.walk(last))
    if isinstance(last, (ast.For, ast.While)) and last.orelse:
        return _terminates(last.orelse)
    return False


# provenance lattice of the key under which the table is read
_OTHER, _MEMBER, _MEMBERS, _SETS, _TABLE = "other", "member", "members", "sets-of-members", "the-table"


def table_value_returns(p: Program, fi: FuncInfo, table: str, depth: int = 3) -> List[str]:
    """Every return of ``fi`` is ``table[k]`` / ``table.get(k)`` where ``k`` is
    provably a key of the table: popped / indexed / unpacked / iterated from a
    collection built by intersecting with the table or by filtering on
    ``x in table`` (through module-level helpers), or guarded by such a test.
    Returns the list of complaints."""
    mod = fi.module

    ALIASES: List[Set[str]] = [set()]  # names of the function under evaluation that stand for the table

    def table_default_helper(callee: FuncInfo) -> bool:
        """a module-level helper that hands out the table itself unless an optional argument (default None) asks for an
        extended copy: `if extra is None: return TABLE` ... -- with the defaults of the existing API it is the table"""
        fn = callee.node
        a = fn.args
        pos = a.posonlyargs + a.args
        none_defaults = {prm.arg for prm, d in zip(pos[len(pos) - len(a.defaults):], a.defaults) if isinstance(d, ast.Constant) and d.value is None}
        rets = [n for n in ast.walk(fn) if isinstance(n, ast.Return) and n.value is not None]
        if rets and all(isinstance(n.value, ast.Name) and n.value.id == table for n in rets):
            return True
        for st in fn.body:
            if isinstance(st, ast.If) and isinstance(st.test, ast.Compare) and isinstance(st.test.left, ast.Name) and st.test.left.id in none_defaults \
                    and len(st.test.ops) == 1 and isinstance(st.test.ops[0], ast.Is) and isinstance(st.test.comparators[0], ast.Constant) \
                    and st.test.comparators[0].value is None and len(st.body) == 1 and isinstance(st.body[0], ast.Return) \
                    and isinstance(st.body[0].value, ast.Name) and st.body[0].value.id == table:
                return True
        return False

    def is_table(e, _depth=2) -> bool:
        if isinstance(e, ast.Name) and e.id in ALIASES[-1]:
            return True
        t = ast.unparse(e)
        if t in (table, "%s.keys()" % table, "set(%s)" % table, "frozenset(%s)" % table, "list(%s)" % table, "tuple(%s)" % table,
                 "six.viewkeys(%s)" % table, "six.iterkeys(%s)" % table, "%s.__contains__" % table):
            return True
        if isinstance(e, ast.Name) and _depth > 0:
            # a module-level constant that is the table's key set, built once (_CASSETTES = frozenset(_ANTIBIOTICS))
            raw = mod.assigns.get(e.id)
            return isinstance(raw, ast.AST) and is_table(raw, _depth - 1)
        return False

    class Env(object):
        def __init__(self, fn: ast.FunctionDef, depth: int, param_kinds: Optional[Dict[str, str]] = None):
            self.fn, self.depth = fn, depth
            param_kinds = param_kinds or {}
            self.aliases = {k for k, v in param_kinds.items() if v == _TABLE}
            for a_ in ast.walk(fn):
                if isinstance(a_, ast.Assign) and len(a_.targets) == 1 and isinstance(a_.targets[0], ast.Name):
                    nm_, v_ = a_.targets[0].id, a_.value
                    n_binds = sum(1 for b_ in ast.walk(fn) if isinstance(b_, ast.Assign) and any(isinstance(t_, ast.Name) and t_.id == nm_ for t_ in b_.targets))
                    if n_binds != 1:
                        continue
                    if isinstance(v_, ast.Name) and v_.id == table:
                        self.aliases.add(nm_)
                    elif isinstance(v_, ast.Call) and isinstance(v_.func, ast.Name):
                        callee_ = p.resolve_expr(mod, v_.func)
                        if isinstance(callee_, FuncInfo) and callee_.owner is None and table_default_helper(callee_):
                            self.aliases.add(nm_)
            ALIASES.append(self.aliases)
            self.kinds: Dict[str, str] = {}
            self.parents = {}
            for n in ast.walk(fn):
                for c in ast.iter_child_nodes(n):
                    self.parents[c] = n
            # each round recomputes every name from the previous round's table (join over all its bindings); names
            # start as "other", so cyclic definitions stay "other"
            for _ in range(6):
                new: Dict[str, str] = {}
                for n in ast.walk(fn):
                    for name, kind in self.bindings(n):
                        new[name] = kind if new.get(name, kind) == kind else _OTHER
                for a in fn.args.posonlyargs + fn.args.args + fn.args.kwonlyargs:
                    new[a.arg] = param_kinds.get(a.arg, _OTHER)  # what the (only) caller hands in
                if new == self.kinds:
                    break
                self.kinds = new
            ALIASES.pop()

        def __enter__(self):
            ALIASES.append(self.aliases)
            return self

        def __exit__(self, *exc):
            ALIASES.pop()
            return False

        def bindings(self, n):
            if isinstance(n, ast.Assign):
                for t in n.targets:
                    yield from self.bind(t, n.value)
            elif isinstance(n, ast.AnnAssign) and n.value is not None:
                yield from self.bind(n.target, n.value)
            elif isinstance(n, ast.NamedExpr):
                yield from self.bind(n.target, n.value)
            elif isinstance(n, (ast.For, ast.comprehension)):
                if isinstance(n.target, ast.Name):
                    yield n.target.id, (_MEMBER if self.kind(n.iter) == _MEMBERS else _OTHER)
                else:
                    for x in ast.walk(n.target):
                        if isinstance(x, ast.Name):
                            yield x.id, _OTHER
            elif isinstance(n, ast.Match):
                k = self.kind(n.subject)
                for case in n.cases:
                    pt = case.pattern
                    if isinstance(pt, ast.MatchSequence):
                        for sub in pt.patterns:
                            if isinstance(sub, ast.MatchAs) and sub.pattern is None and sub.name:
                                yield sub.name, (_MEMBER if k == _MEMBERS else _OTHER)
                            elif isinstance(sub, ast.MatchStar) and sub.name:
                                yield sub.name, (_MEMBERS if k == _MEMBERS else _OTHER)
                    elif isinstance(pt, ast.MatchAs) and pt.name:
                        yield pt.name, (k if pt.pattern is None else _OTHER)
            elif isinstance(n, ast.AugAssign) and isinstance(n.target, ast.Name):
                yield n.target.id, _OTHER
            elif isinstance(n, (ast.With,)):
                for it in n.items:
                    if it.optional_vars is not None:
                        for x in ast.walk(it.optional_vars):
                            if isinstance(x, ast.Name):
                                yield x.id, _OTHER

        def bind(self, target, value):
            if isinstance(target, ast.Name):
                yield target.id, self.kind(value)
            elif isinstance(target, (ast.Tuple, ast.List)):
                k = self.kind(value)
                for el in target.elts:
                    if isinstance(el, ast.Starred):
                        if isinstance(el.value, ast.Name):
                            yield el.value.id, (_MEMBERS if k == _MEMBERS else _OTHER)
                    elif isinstance(el, ast.Name):
                        yield el.id, (_MEMBER if k == _MEMBERS else _OTHER)
                    else:
                        for x in ast.walk(el):
                            if isinstance(x, ast.Name):
                                yield x.id, _OTHER

        def guarded(self, name_node: ast.Name) -> bool:
            """the use sits in the true branch of `if name in table` (or after `if name not in table: raise/continue/return`)"""
            cur = name_node
            while cur in self.parents:
                par = self.parents[cur]
                if isinstance(par, (ast.If, ast.IfExp)) and (cur in par.body if isinstance(par, ast.If) else cur is par.body):
                    for t in ([par.test] + (par.test.values if isinstance(par.test, ast.BoolOp) and isinstance(par.test.op, ast.And) else [])):
                        if (isinstance(t, ast.Compare) and len(t.ops) == 1 and isinstance(t.ops[0], ast.In)
                                and isinstance(t.left, ast.Name) and t.left.id == name_node.id and is_table(t.comparators[0])):
                            return True
                if isinstance(par, (ast.comprehension,)):
                    pass
                cur = par
            return False

        def kind(self, e) -> str:
            with self:
                return self._kind(e)

        def _kind(self, e) -> str:
            if isinstance(e, ast.Name):
                if e.id in self.aliases or e.id == table:
                    return _TABLE
                if self.guarded(e):
                    return _MEMBER
                return self.kinds.get(e.id, _OTHER)
            if isinstance(e, ast.BinOp) and isinstance(e.op, ast.BitAnd):
                if is_table(e.left) or is_table(e.right) or _MEMBERS in (self.kind(e.left), self.kind(e.right)):
                    return _MEMBERS
            if isinstance(e, (ast.ListComp, ast.SetComp, ast.GeneratorExp)) and len(e.generators) == 1 \
                    and not (isinstance(e.elt, ast.Name) and isinstance(e.generators[0].target, ast.Name) and e.elt.id == e.generators[0].target.id):
                # a collection of per-item member collections: (labels(f).intersection(table) for f in features)
                sub = Env.__new__(Env)
                sub.fn, sub.depth, sub.kinds, sub.parents = self.fn, self.depth, dict(self.kinds), self.parents
                sub.aliases = set(self.aliases)
                for x in ast.walk(e.generators[0].target):
                    if isinstance(x, ast.Name):
                        sub.kinds[x.id] = _OTHER
                if sub.kind(e.elt) == _MEMBERS:
                    return _SETS
            if isinstance(e, (ast.ListComp, ast.SetComp, ast.GeneratorExp)) and len(e.generators) == 1:
                g = e.generators[0]
                if isinstance(g.target, ast.Name) and isinstance(e.elt, ast.Name) and e.elt.id == g.target.id:
                    if self.kind(g.iter) == _MEMBERS:
                        return _MEMBERS
                    for c in g.ifs:
                        for t in ([c] + (c.values if isinstance(c, ast.BoolOp) and isinstance(c.op, ast.And) else [])):
                            if (isinstance(t, ast.Compare) and len(t.ops) == 1 and isinstance(t.ops[0], ast.In)
                                    and isinstance(t.left, ast.Name) and t.left.id == g.target.id and is_table(t.comparators[0])):
                                return _MEMBERS
            if isinstance(e, (ast.List, ast.Tuple, ast.Set)) and len(e.elts) == 1 and isinstance(e.elts[0], ast.Starred) and self.kind(e.elts[0].value) == _MEMBERS:
                return _MEMBERS  # [*members]
            if isinstance(e, ast.Subscript) and not isinstance(e.slice, ast.Slice) and self.kind(e.value) == _MEMBERS:
                return _MEMBER
            if isinstance(e, ast.Subscript) and isinstance(e.slice, ast.Slice) and self.kind(e.value) == _MEMBERS:
                return _MEMBERS
            if isinstance(e, ast.IfExp):
                a, b = self.kind(e.body), self.kind(e.orelse)
                return a if a == b else _OTHER
            if isinstance(e, ast.Call):
                f = e.func
                if isinstance(f, ast.Attribute):
                    if f.attr == "intersection" and e.args and (all(is_table(a) or self.kind(a) == _MEMBERS for a in e.args) or self.kind(f.value) == _MEMBERS):
                        return _MEMBERS
                    if f.attr == "intersection" and is_table(f.value):
                        return _MEMBERS
                    if f.attr == "pop" and self.kind(f.value) == _MEMBERS and len(e.args) <= 1:
                        return _MEMBER
                    if f.attr in ("copy",) and self.kind(f.value) == _MEMBERS:
                        return _MEMBERS
                if isinstance(f, ast.Name):
                    # known = KEYS.intersection, hoisted out of a loop: known(labels) is KEYS.intersection(labels)
                    binds_ = [a.value for a in ast.walk(self.fn) if isinstance(a, ast.Assign) and len(a.targets) == 1
                              and isinstance(a.targets[0], ast.Name) and a.targets[0].id == f.id]
                    if len(binds_) == 1 and isinstance(binds_[0], ast.Attribute) and binds_[0].attr == "intersection" and is_table(binds_[0].value) and e.args:
                        return _MEMBERS
                    if f.id in ("set", "list", "sorted", "tuple", "frozenset", "iter", "reversed") and len(e.args) == 1 and self.kind(e.args[0]) == _MEMBERS:
                        return _MEMBERS
                    if f.id in ("next", "min", "max") and len(e.args) == 1 and self.kind(e.args[0]) == _MEMBERS:
                        return _MEMBER
                    if f.id == "next" and len(e.args) in (1, 2) and self.kind(e.args[0]) == _SETS and (
                            len(e.args) == 1 or (isinstance(e.args[1], ast.Constant) and e.args[1].value is None)):
                        return _MEMBERS  # one of the member collections (or None, which the caller must test before use)
                    if f.id in ("filter",) and len(e.args) == 2 and self.kind(e.args[1]) == _SETS and ast.unparse(e.args[0]) in ("None", "bool", "len"):
                        return _SETS
                    if f.id in ("list", "tuple", "iter") and len(e.args) == 1 and self.kind(e.args[0]) == _SETS:
                        return _SETS
                    if f.id == "filter" and len(e.args) == 2 and (is_table(e.args[0]) or self.kind(e.args[1]) == _MEMBERS and ast.unparse(e.args[0]) == "None"):
                        return _MEMBERS
                    callee = p.resolve_expr(mod, f)
                    if isinstance(callee, FuncInfo) and callee.owner is None and self.depth > 0:
                        ps_ = [a_.arg for a_ in callee.node.args.posonlyargs + callee.node.args.args]
                        pk_ = {ps_[i_]: _TABLE for i_, a_ in enumerate(e.args) if i_ < len(ps_) and is_table(a_)}
                        pk_.update({kw_.arg: _TABLE for kw_ in e.keywords if kw_.arg and is_table(kw_.value)})
                        sub = Env(callee.node, self.depth - 1, pk_)
                        ks = set()
                        for rn in ast.walk(callee.node):
                            if isinstance(rn, ast.Return):
                                if rn.value is None or (isinstance(rn.value, ast.Constant) and rn.value.value is None):
                                    continue
                                ks.add(sub.kind(rn.value))
                        if len(ks) == 1:
                            return ks.pop()
            return _OTHER

    def complaints(fn: ast.FunctionDef, depth: int, param_kinds=None) -> List[str]:
        env = Env(fn, depth, param_kinds)
        out = []
        rets = [n for n in ast.walk(fn) if isinstance(n, ast.Return)]
        if not rets:
            out.append("%s has no return" % fn.name)
        for n in rets:
            v = n.value
            if isinstance(v, ast.Name):
                # a name bound once to a table read
                defs = [a.value for a in ast.walk(fn) if isinstance(a, ast.Assign) and len(a.targets) == 1
                        and isinstance(a.targets[0], ast.Name) and a.targets[0].id == v.id]
                if len(defs) == 1:
                    v = defs[0]
            key = None
            reads_table = lambda x: ast.unparse(x) == table or (isinstance(x, ast.Name) and x.id in env.aliases)
            if isinstance(v, ast.Subscript) and reads_table(v.value):
                key = v.slice
            elif (isinstance(v, ast.Call) and isinstance(v.func, ast.Attribute) and v.func.attr == "get"
                  and reads_table(v.func.value) and len(v.args) == 1 and not v.keywords):
                key = v.args[0]
            elif isinstance(v, ast.Call) and isinstance(v.func, ast.Name) and depth > 0:
                callee = p.resolve_expr(mod, v.func)
                if isinstance(callee, FuncInfo) and callee.owner is None:
                    # the helper is judged with what this call hands it (sound only if nobody else calls it)
                    others = [c for m_ in p.modules.values() if m_.name.startswith("moclo") for c in ast.walk(m_.tree)
                              if isinstance(c, ast.Call) and isinstance(c.func, ast.Name) and c.func.id == callee.name and c is not v]
                    pk = {}
                    if not others:
                        ps = [a.arg for a in callee.node.args.posonlyargs + callee.node.args.args]
                        for i, a in enumerate(v.args):
                            if i < len(ps):
                                pk[ps[i]] = env.kind(a)
                        for kw in v.keywords:
                            if kw.arg:
                                pk[kw.arg] = env.kind(kw.value)
                    out.extend(complaints(callee.node, depth - 1, pk))
                    continue
            if key is None:
                out.append("line %d: returns `%s`, not a read of %s" % (n.lineno, ast.unparse(n.value) if n.value is not None else "None", table))
                continue
            k = env.kind(key)
            if k != _MEMBER:
                out.append("line %d: `%s` is read under `%s`, which is not known to be a key of the table (it is not taken from the "
                           "labels that were matched against the table), so the lookup can answer None / raise KeyError for a record "
                           "that does carry a known cassette" % (n.lineno, table, ast.unparse(key)))
        return out

    return complaints(fi.node, depth)


def _filtered_pairs(fi: FuncInfo, call: ast.Call):
    """the comprehension behind `self._data.update(<pairs>)` when it is (key, item) for item in ... if key not in
    self._data with key == item.id (possibly bound by a walrus in the filter); None otherwise"""
    if len(call.args) != 1 or call.keywords:
        return None
    comp = _resolve_alias([fi.node], call.args[0])
    if not isinstance(comp, (ast.GeneratorExp, ast.ListComp)) or len(comp.generators) != 1:
        return None
    g = comp.generators[0]
    if not (isinstance(comp.elt, ast.Tuple) and len(comp.elt.elts) == 2 and isinstance(g.target, ast.Name)):
        return None
    key, val = comp.elt.elts
    if not (isinstance(val, ast.Name) and val.id == g.target.id):
        return None
    want = "%s.id" % g.target.id
    walrus = {}
    for c in g.ifs:
        for n in ast.walk(c):
            if isinstance(n, ast.NamedExpr) and isinstance(n.target, ast.Name):
                walrus[n.target.id] = ast.unparse(n.value)
    key_src = walrus.get(key.id) if isinstance(key, ast.Name) else ast.unparse(key)
    if key_src != want:
        return None
    for c in g.ifs:
        tests = [c] + (c.values if isinstance(c, ast.BoolOp) and isinstance(c.op, ast.And) else [])
        for t in tests:
            if isinstance(t, ast.Compare) and len(t.ops) == 1 and isinstance(t.ops[0], ast.NotIn) and ast.unparse(t.comparators[0]) == "self._data":
                left = t.left.value if isinstance(t.left, ast.NamedExpr) else t.left
                lsrc = walrus.get(left.id, left.id) if isinstance(left, ast.Name) else ast.unparse(left)
                if lsrc == want:
                    return comp
    return None


def _helper_of(p: Program, fi: FuncInfo, call: ast.Call) -> Optional[FuncInfo]:
    f = call.func
    g = None
    if isinstance(f, ast.Attribute) and isinstance(f.value, ast.Name) and f.value.id in ("self", "cls") and fi.owner is not None:
        _, g = p.class_attr_def(fi.owner, f.attr)
    elif isinstance(f, ast.Name):
        g = p.resolve_expr(fi.module, f)
    return g if isinstance(g, FuncInfo) else None


def _returns_item(p: Program, fi: FuncInfo, value: ast.expr, item_calls, depth: int = 2) -> bool:
    """the value is an Item(...) constructor call, directly or as the only thing a helper of the class returns"""
    if value in item_calls:
        return True
    if isinstance(value, ast.Call) and depth > 0:
        g = _helper_of(p, fi, value)
        if g is not None:
            rets = [n for n in ast.walk(g.node) if isinstance(n, ast.Return)]
            return bool(rets) and all(n.value is not None and _returns_item(p, g, _resolve_alias([g.node], n.value), item_calls, depth - 1) for n in rets)
    return False


def _derives_from_self_attr(p: Program, fi: FuncInfo, e: ast.expr, attr: str, depth: int = 3) -> bool:
    """the expression is computed from self.<attr>: directly, through a local bound once, through a property of the
    class, or through a helper that is handed self.<attr>"""
    if any(isinstance(n, ast.Attribute) and n.attr == attr and isinstance(n.value, ast.Name) and n.value.id == "self" for n in ast.walk(e)):
        return True
    if depth <= 0:
        return False
    if isinstance(e, ast.Name):
        defs = [n.value for n in ast.walk(fi.node) if isinstance(n, ast.Assign) and len(n.targets) == 1
                and isinstance(n.targets[0], ast.Name) and n.targets[0].id == e.id]
        return len(defs) == 1 and _derives_from_self_attr(p, fi, defs[0], attr, depth - 1)
    if isinstance(e, ast.Attribute) and isinstance(e.value, ast.Name) and e.value.id == "self" and fi.owner is not None:
        _, g = p.class_attr_def(fi.owner, e.attr)
        if isinstance(g, FuncInfo) and g.kind == "property":
            return any(n.value is not None and _derives_from_self_attr(p, g, n.value, attr, depth - 1) for n in ast.walk(g.node) if isinstance(n, ast.Return))
    if isinstance(e, ast.Call):
        g = _helper_of(p, fi, e)
        if g is not None:
            # the helper's result is a function of its arguments
            return any(_derives_from_self_attr(p, fi, a, attr, depth - 1) for a in list(e.args) + [k.value for k in e.keywords])
    return False


def _returns_only(fi: FuncInfo, forms) -> bool:
    rets = [n for n in ast.walk(fi.node) if isinstance(n, ast.Return)]
    body = [s for s in fi.node.body if not (isinstance(s, ast.Expr) and isinstance(s.value, ast.Constant))]
    return len(rets) == 1 and len(body) == 1 and _src(fi, rets[0].value).replace(" ", "") in [f.replace(" ", "") for f in forms]


def _len_via_iteration(fi: FuncInfo) -> bool:
    """__len__ defined through the class's own iteration: same key set by construction"""
    return _returns_only(fi, ("len(list(self))", "sum(1 for _ in self)", "len(list(iter(self)))", "len(tuple(self))", "sum(1 for _ in iter(self))"))


def _assigned_name(fi: FuncInfo, call: ast.Call) -> Optional[str]:
    for n in ast.walk(fi.node):
        if isinstance(n, ast.Assign) and n.value is call and isinstance(n.targets[0], ast.Name):
            return n.targets[0].id
    return None


def _uses_name(e: ast.AST, name: Optional[str]) -> bool:
    return name is not None and any(isinstance(n, ast.Name) and n.id == name for n in ast.walk(e))


# ---------------------------------------------------------------------------
# E6 registry data lint

_VERSION_RX = re.compile(r"^VERSION\s+(\S+)", re.M)
_ACCESSION_RX = re.compile(r"^ACCESSION\s+(\S+)", re.M)
_LOCUS_RX = re.compile(r"^LOCUS\s+(\S+)", re.M)


def genbank_id(text: str) -> Optional[str]:
    """The token Biopython's GenBank parser turns into record.id: VERSION,
    else ACCESSION, else the LOCUS name (read as text, T3)."""
    head = text.split("\nFEATURES", 1)[0]
    for rx in (_VERSION_RX, _ACCESSION_RX, _LOCUS_RX):
        m = rx.search(head)
        if m and m.group(1) not in (".",):
            return m.group(1)
    return None


def registry_data_lint(ctx, rule: str):
    r = ctx.report
    root = ctx.program.root
    total = 0
    per_dir: Dict[str, List[str]] = {}
    for kit in KITS:
        for d in sorted(glob.glob(os.path.join(root, "moclo-%s" % kit, "registry", "*"))):
            if not os.path.isdir(d):
                continue
            stems = []
            for f in sorted(glob.glob(os.path.join(d, "*.gb"))):
                stem = os.path.basename(f)[:-3]
                stems.append(stem)
                total += 1
                with open(f, "r", errors="replace") as fh:
                    text = fh.read(20000)
                gid = genbank_id(text)
                r.ob(rule + ".stem-is-id", os.path.relpath(f, root), gid == stem,
                     "the archive member is named after the file stem but the record's id will be %r: iteration would yield a key that cannot be looked up" % gid, os.path.relpath(f, root))
            per_dir[os.path.basename(d)] = stems
            dup = {s for s in stems if stems.count(s) > 1}
            r.ob(rule + ".stem-is-id", "moclo-%s/registry/%s" % (kit, os.path.basename(d)), not dup, "duplicate stems %s" % sorted(dup), "")
    r.analysed["genbank_files"] = total
    if total < 300:
        raise AnalysisError("registry data shrank: %d GenBank files found (362 confirmed by hand)" % total)
    # built archives, when present: member names == stems, regular files
    for kit in KITS:
        for tgz in sorted(glob.glob(os.path.join(root, "moclo-%s" % kit, "moclo", "registry", "*.tar.gz"))):
            name = os.path.basename(tgz)[:-7]
            try:
                with tarfile.open(tgz, "r:gz") as tf:
                    members = tf.getmembers()
            except Exception:
                r.note("built archive %s is unreadable (a build product, not source); skipped" % os.path.relpath(tgz, root))
                continue
            names = sorted(m.name for m in members)
            stems = sorted(per_dir.get(name, []))
            ok = names == stems and all(m.isfile() for m in members)
            r.ob(rule + ".archive-members", os.path.relpath(tgz, root), ok,
                 "the built archive must contain exactly the stems of its source directory as regular members (%d members vs %d files)" % (len(names), len(stems)),
                 os.path.relpath(tgz, root))
    # the build step names members after the stem
    setup = os.path.join(root, "moclo-ytk", "setup.py")
    if os.path.exists(setup):
        src = open(setup).read()
        r.note("archive build step: %s" % ("arcname" in src and "found arcname= in setup.py" or "no arcname in setup.py"))
