# coding: utf-8
"""E8 -- self-test of the checkers (validation of the machinery, never part of
a verdict about /repo).

A corpus of text edits is applied, one at a time, to scratch copies of the
current tree (outside /repo and /verif, removed as soon as judged); the quick
checks are aimed at the copy through VERIF_REPO.  Mutants must make their
property's check exit 1 with a VIOLATION line; twins (behaviour-preserving
rewrites) and neutral edits (behaviour changes that violate none of the twenty
properties) must leave every check at exit 0.
"""
from __future__ import annotations

import json
import os
import shutil
import subprocess
import sys
import tempfile
from concurrent.futures import ThreadPoolExecutor
from typing import Dict, List, Optional

VERIF = os.path.dirname(os.path.dirname(os.path.abspath(__file__)))
ALL = ["C%02d" % i for i in range(1, 21)]
SKIP_DIRS = {".git", "notebook", "scripts", "tests", "docs", ".github"}


def load_corpus() -> List[dict]:
    with open(os.path.join(VERIF, "selftest", "corpus.json")) as fh:
        edits = json.load(fh)["edits"]
    # seeded changes (written by sub-agents) and refactoring twins are patch files; every directory found is an entry
    import glob

    expectations = {}
    ep = os.path.join(VERIF, "seeded", "EXPECTATIONS.json")
    if os.path.exists(ep):
        expectations = {k: v for k, v in json.load(open(ep)).items() if not k.startswith("_")}
    for d in sorted(glob.glob(os.path.join(VERIF, "seeded", "*", "meta.json"))):
        m = json.load(open(d))
        sid = os.path.basename(os.path.dirname(d))
        # documented exceptions: "undecided" = the own check must not pass silently (exit 1 or 2); "silent" = not a
        # violation the code can show (kept in the corpus as a neutral so that a later rule firing on it is noticed)
        exp = expectations.get(sid, {}).get("expect")
        edits.append({"id": sid, "kind": "mutant" if exp is None else ("undecided" if exp == "undecided" else "neutral"),
                      "property": m.get("breaks_property") or m.get("property"), "suite": "survives",
                      "patch": os.path.join(os.path.dirname(d), "patch.diff"), "note": "seeded: " + m.get("summary", "")[:80]})
    tp = os.path.join(VERIF, "selftest", "twins", "EXPECTATIONS.json")
    twin_exp = {k: v for k, v in json.load(open(tp)).items() if not k.startswith("_")} if os.path.exists(tp) else {}
    for d in sorted(glob.glob(os.path.join(VERIF, "selftest", "twins", "*", "meta.json"))):
        m = json.load(open(d))
        sid = os.path.basename(os.path.dirname(d))
        # a documented exotic form: the checks may declare it undecided (ANALYSIS-ERROR, exit 2) but never a violation
        edits.append({"id": sid, "kind": "twin-undecided" if twin_exp.get(sid, {}).get("expect") == "undecided" else "twin",
                      "property": m.get("property", "C01"), "suite": "survives",
                      "patch": os.path.join(os.path.dirname(d), "patch.diff"), "note": "refactoring: " + m.get("summary", "")[:80]})
    vp = os.path.join(VERIF, "selftest", "suite_verdicts.json")
    if os.path.exists(vp):
        with open(vp) as fh:
            verdicts = json.load(fh)
        for e in edits:
            if e.get("suite") == "unknown" and e["id"] in verdicts:
                e["suite"] = verdicts[e["id"]]["suite"]
    return edits


def scratch_copy(src: str) -> str:
    d = tempfile.mkdtemp(prefix="verif_selftest_")
    for name in os.listdir(src):
        if name in SKIP_DIRS:
            continue
        s = os.path.join(src, name)
        if os.path.isdir(s):
            shutil.copytree(s, os.path.join(d, name), ignore=shutil.ignore_patterns("__pycache__", "*.pyc", "build", "*.egg-info", "*.tar.gz"))
        else:
            shutil.copy2(s, os.path.join(d, name))
    return d


def apply_edit(root: str, e: dict) -> Optional[str]:
    p = os.path.join(root, e["file"])
    if e.get("create"):
        os.makedirs(os.path.dirname(p), exist_ok=True)
        with open(p, "w") as fh:
            fh.write(e["new"])
        return None
    with open(p) as fh:
        s = fh.read()
    idx, start = -1, 0
    for _ in range(e.get("occurrence", 0) + 1):
        idx = s.find(e["old"], start)
        if idx < 0:
            return "edit does not apply: %r not found in %s" % (e["old"][:60], e["file"])
        start = idx + 1
    s = s[:idx] + e["new"] + s[idx + len(e["old"]):]
    with open(p, "w") as fh:
        fh.write(s)
    return None


def judge(entry: dict, pids: List[str], repo: str) -> dict:
    d = scratch_copy(repo)
    try:
        if entry.get("patch"):
            pr = subprocess.run(["git", "apply", entry["patch"]], cwd=d, stdout=subprocess.PIPE, stderr=subprocess.STDOUT, text=True)
            if pr.returncode != 0:
                return {"id": entry["id"], "error": "patch does not apply: " + pr.stdout[-200:], "results": {}}
        else:
            edits = entry.get("edits") or [entry]
            for e in edits:
                err = apply_edit(d, e)
                if err:
                    return {"id": entry["id"], "error": err, "results": {}}
        env = dict(os.environ, VERIF_REPO=d, VERIF_EVIDENCE_DIR=os.path.join(d, ".evidence"), VERIF_NO_SELFTEST="1")
        res = {}
        for pid in pids:
            pr = subprocess.run(["/venv/bin/python", "-B", "-m", "sa.cli", pid, "--tier", "quick"], cwd=VERIF, env=env,
                                stdout=subprocess.PIPE, stderr=subprocess.STDOUT, text=True)
            lines = [l for l in pr.stdout.splitlines() if "rule=" in l or l.startswith(("VIOLATION", "ANALYSIS-ERROR"))]
            res[pid] = {"exit": pr.returncode, "lines": lines[:4]}
        return {"id": entry["id"], "error": None, "results": res}
    finally:
        shutil.rmtree(d, ignore_errors=True)


def expected_fire(entry: dict) -> List[str]:
    if entry["kind"] != "mutant":
        return []
    return [entry["property"]] + list(entry.get("also", []))


def run_corpus(pids_for, entries: List[dict], repo: str, jobs: int = 16) -> List[dict]:
    with ThreadPoolExecutor(max_workers=jobs) as ex:
        futs = [ex.submit(judge, e, pids_for(e), repo) for e in entries]
        return [f.result() for f in futs]


def slice_for(pid: str, entries: List[dict]) -> List[dict]:
    out = []
    for e in entries:
        if e["kind"] == "mutant":
            if pid in expected_fire(e):
                out.append(e)
        elif e["kind"] == "undecided":
            if pid == e.get("property"):
                out.append(e)
        else:
            out.append(e)
    return out


def thorough_slice(ctx) -> None:
    """Run the property's slice of the corpus and record it in the evidence;
    a miss makes the run an analysis error (the checker is broken, not the repo)."""
    from .loader import AnalysisError

    pid = ctx.pid
    entries = slice_for(pid, load_corpus())
    repo = ctx.program.root
    res = run_corpus(lambda e: [pid], entries, repo)
    by_id = {e["id"]: e for e in entries}
    fired = total = silent = quiet_total = 0
    misses = []
    for r in res:
        e = by_id[r["id"]]
        if r["error"]:
            misses.append("%s: %s" % (r["id"], r["error"]))
            continue
        ex = r["results"][pid]["exit"]
        if e["kind"] == "mutant":
            total += 1
            if ex == 1:
                fired += 1
            else:
                misses.append("%s (%s) did not fire: exit %d %s" % (r["id"], e.get("note", ""), ex, r["results"][pid]["lines"][:1]))
        elif e["kind"] == "undecided":
            if ex == 0:
                misses.append("%s (%s) passes silently: it must at least be declared undecided" % (r["id"], e.get("note", "")))
        elif e["kind"] == "twin-undecided":
            if ex == 1:
                misses.append("%s (%s) is reported as a violation: at most undecided" % (r["id"], e.get("note", "")))
        else:
            quiet_total += 1
            if ex == 0:
                silent += 1
            else:
                misses.append("%s (%s, %s) is not silent: exit %d %s" % (r["id"], e["kind"], e.get("note", ""), ex, r["results"][pid]["lines"][:1]))
    ctx.report.extra["selftest"] = {
        "mutants_fired": fired, "mutants_total": total, "twins_and_neutrals_silent": silent, "twins_and_neutrals_total": quiet_total,
        "suite_surviving_mutants": sum(1 for e in entries if e["kind"] == "mutant" and e.get("suite") == "survives"),
        "ids": [e["id"] for e in entries],
    }
    if misses:
        raise AnalysisError("self-test of the %s checker failed: %s" % (pid, "; ".join(misses[:5])))


def main(argv=None) -> int:
    import argparse

    ap = argparse.ArgumentParser()
    ap.add_argument("--ids", default="")
    ap.add_argument("--props", default="")
    ap.add_argument("--jobs", type=int, default=16)
    ap.add_argument("--repo", default=os.environ.get("VERIF_REPO", "/repo"))
    ap.add_argument("--out", default="")
    a = ap.parse_args(argv)
    entries = load_corpus()
    if a.ids:
        want = set(a.ids.split(","))
        entries = [e for e in entries if e["id"] in want]
    props = a.props.split(",") if a.props else ALL
    res = run_corpus(lambda e: props, entries, a.repo, a.jobs)
    by_id = {e["id"]: e for e in entries}
    bad = 0
    rows = []
    for r in res:
        e = by_id[r["id"]]
        if r["error"]:
            print("%-6s ERROR %s" % (r["id"], r["error"]))
            bad += 1
            continue
        fired = sorted(p for p, v in r["results"].items() if v["exit"] == 1)
        if e["kind"] != "mutant":
            fired = [p for p in fired if p not in e.get("may_fire", [])]  # documented in the entry's note
        errs = sorted(p for p, v in r["results"].items() if v["exit"] not in (0, 1))
        exp = [p for p in expected_fire(e) if p in props]
        status = "ok"
        if e["kind"] == "mutant":
            if not set(exp) <= set(fired):
                status = "MISS"
        elif e["kind"] == "undecided":
            own = e.get("property")
            if own in props and own not in fired and own not in errs:
                status = "MISS"
        elif (e["kind"] == "neutral" and e["id"].startswith("C") and "_" in e["id"]) or e["kind"] == "twin-undecided":
            if fired:
                status = "FALSE-ALARM"  # errors are tolerated for a non-equivalent change / a documented exotic form
        else:
            if fired or errs:
                status = "FALSE-ALARM"
        if status != "ok":
            bad += 1
        rows.append((r["id"], e["kind"], e.get("suite", "?"), e.get("property"), status, fired, errs))
        print("%-6s %-7s %-9s %-4s %-11s fired=%s errors=%s  %s" % (r["id"], e["kind"], e.get("suite", "?"), e.get("property"), status, ",".join(fired), ",".join(errs), e.get("note", "")[:70]))
        if status != "ok":
            for p in (errs + [x for x in exp if x not in fired] + (fired if e["kind"] != "mutant" else []))[:3]:
                print("        %s: %s" % (p, r["results"][p]["lines"][:2]))
    print("%d entries, %d problems" % (len(res), bad))
    if a.out:
        with open(a.out, "w") as fh:
            json.dump([{"id": r[0], "kind": r[1], "suite": r[2], "property": r[3], "status": r[4], "fired": r[5], "errors": r[6]} for r in rows], fh, indent=1)
    return 1 if bad else 0


if __name__ == "__main__":
    sys.exit(main())
