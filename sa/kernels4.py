# coding: utf-8
"""K23: every class matches with the pattern of its *own* structure, whatever was typed before.

The function that hands a class its compiled pattern (found by role: the one that compiles `cls.structure()`) is run, by
abstract evaluation, through a *history* on a small family of classes created for the purpose -- a parent P, a child C of P
with another structure, a grandchild G of C -- in several orders (parent first, child first, each asked twice).  Class-level
stores made by one call are seen by the next ones (on the class itself and, through the MRO, on its subclasses), so a memo
that is read through inheritance, stored on the wrong class, or shared by a family shows as an answer compiled from another
class's structure.  What is checked is the answer: `getter(X)` is a pattern object compiled from `X.structure()`, for every
X at every point of every history.  The form of the memo (a slot guarded through `cls.__dict__` / `vars(cls)`, a reset in
`__init_subclass__`, a table keyed by the class, a lock around a second look, no memo at all) is not prescribed.

`structure()` and the pattern compiler are stand-ins (the structure of a class is an uninterpreted word indexed by the
class; compiling records what was compiled); anything else the getter does that has no model ends the evaluation as
undecided (ANALYSIS-ERROR), never as a violation.
"""
from __future__ import annotations

import itertools
from typing import List

from .absint import AObj, AStruct, Term
from .kernels import emit, run_paths
from .loader import AnalysisError, ClassInfo, FuncInfo


def k23_own_pattern(ctx, rule: str):
    p = ctx.program
    r = ctx.report
    from .roles import regex_getter
    from .kits import synthetic_generic

    getter = regex_getter(p)
    rx_cls = p.get_class("moclo.regex.DNARegex")
    P = synthetic_generic(p, "module", "BsaI", "HistoryParent")
    C = p.synthetic_class("HistoryChild", [P], {})
    G = p.synthetic_class("HistoryGrandchild", [C], {})
    S = synthetic_generic(p, "module", "BsmBI", "HistorySibling")
    family = {"P": P, "C": C, "G": G, "S": S}

    def structure_of(cls):
        return Term("structure-of", Term(cls.name if isinstance(cls, ClassInfo) else repr(cls)))

    hooks = {}
    # structure(): whatever implementation a class resolves to, its value is a word that names the class it was asked on
    seen = set()
    for ci in list(p.all_classes()) + list(family.values()):
        try:
            raw = p.class_attr_def(ci, "structure")[1]
        except AnalysisError:
            continue
        if isinstance(raw, FuncInfo) and raw.qualname not in seen:
            seen.add(raw.qualname)

            def structure_hook(I, f, args, kwargs):
                if args and isinstance(args[0], ClassInfo):
                    return structure_of(args[0])
                return NotImplemented

            hooks[raw.qualname] = structure_hook

    # the compiler: DNARegex(text) remembers the text
    init = p.class_attr_def(rx_cls, "__init__")[1]
    if not isinstance(init, FuncInfo):
        raise AnalysisError("anchor vanished: DNARegex.__init__")

    def compile_hook(I, f, args, kwargs):
        obj = args[0]
        if isinstance(obj, AObj):
            obj.attrs["pattern"] = args[1] if len(args) > 1 else kwargs.get("pattern")
        return None

    hooks[init.qualname] = compile_hook

    def lib_hook(fr, dotted, args, kwargs, node):
        if dotted in ("threading.RLock", "threading.Lock"):
            return AStruct("lock")
        if dotted in ("weakref.WeakKeyDictionary", "weakref.WeakValueDictionary") and not args:
            return {}
        return NotImplemented

    hooks["lib_call"] = lib_hook
    hooks["apply_decorators"] = True  # a memoising wrapper around the getter is built and run, not classified by shape

    orders: List[tuple] = [("P", "C", "G", "P", "C", "G", "S"), ("G", "C", "P", "G", "C", "P"), ("C", "P", "C", "S", "G"), ("S", "P", "C")]
    first = getter.node.args.args[0].arg if getter.node.args.args else "cls"
    is_cm = getter.kind == "classmethod"
    if not is_cm and getter.kind not in ("staticmethod", "function", "classproperty"):
        raise AnalysisError("%s: the function compiling the structure pattern is neither a classmethod nor a function of the class; "
                            "the history evaluation does not apply" % getter.where())

    n = 0
    for order in orders:
        def make_args(I, order=order):
            return (family[order[0]],), {}

        def post(I, o, order=order):
            # the first call is the kernel's own; the rest of the history runs here, on the same path (same class state)
            out = []
            results = [(order[0], o)]
            if o.kind == "return":
                for nm in order[1:]:
                    try:
                        v = I.call_function(getter, [family[nm]], {})
                    except Exception as exc:  # RaiseSig and analysis errors alike: reported below / propagated
                        from .absint import RaiseSig

                        if isinstance(exc, RaiseSig):
                            out.append((rule, "%s#%s" % (getter.qualname, "-".join(order)), False,
                                        "asking %s for its pattern after %s raises %r" % (nm, [x for x, _ in results], exc.exc)))
                            return out
                        raise
                    results.append((nm, v))
            hist = []
            for nm, res in results:
                v = res.value if res is o else res
                kind = o.kind if res is o else "return"
                ok = kind == "return" and isinstance(v, AObj) and v.cls is rx_cls and repr(v.attrs.get("pattern")) == repr(structure_of(family[nm]))
                got = v.attrs.get("pattern") if isinstance(v, AObj) else v
                out.append((rule, "%s#%s@%s" % (getter.qualname, "-".join(order), len(hist)), ok,
                            "after the patterns of %s were asked for, %s is given a pattern compiled from %r instead of its own structure"
                            % (hist or "no class", family[nm].name, got)))
                hist.append(family[nm].name)
            return out

        outs = run_paths(ctx, getter, make_args, [], hooks=hooks, post=post)
        emit(ctx, outs, getter.where())
        n += 1
    r.floor(rule, len(orders))


# ---------------------------------------------------------------------------
# K24  find_resistance answers with a value of the antibiotics table, or raises


def k24_known_resistance(ctx, rule: str):
    """`find_resistance(record)` evaluated on a record with an arbitrary feature table.  The labels of a feature are an
    opaque collection; intersecting them with the antibiotics table (`.intersection(TABLE)`, `& keys`) gives a set of
    *known cassettes* of unknown size; taking one out (`pop()`, iteration, `next(iter(...))`, unpacking) gives a known
    cassette, and looking a known cassette up in the table gives a value of the table.  Checked: every value returned is a
    table value looked up under a known cassette (never `None`, never a label as such), and the only exception raised is
    RuntimeError.  How the function gets there (helpers, generators, guard clauses) is not prescribed."""
    import ast

    from .absdom import Aff, Piece
    from .absint import ACollection, AExc, AList, ARec, BoundMethod, RaiseSig, _table_term
    from .kernels import N, ZERO
    from .roles import resistance_table, resistance_table_value

    p = ctx.program
    r = ctx.report
    fr_ = p.get_func("moclo.registry._utils.find_resistance")
    tname = resistance_table(p)
    table = resistance_table_value(p, tname)
    if table is None:
        raise AnalysisError("%s: the antibiotics table `%s` does not fold to a mapping of labels to antibiotics" % (fr_.where(), tname))
    AKEY = Term("known-cassette")
    keys = set(table)
    counter = {"n": 0}

    def is_table(v) -> bool:
        if isinstance(v, dict):
            return set(v) == keys
        if isinstance(v, (frozenset, set, list, tuple)):
            return set(v) == keys
        if isinstance(v, AList) and not v.generic:
            return set(x for x in v.items if isinstance(x, str)) == keys and len(v.items) == len(keys)
        return False

    def labelish(v) -> bool:
        return isinstance(v, Term) and v is not AKEY and "known-cassette" not in repr(v)

    def keyset(I):
        counter["n"] += 1
        out = AList([AKEY], I.loop_depth, origin="known-cassettes#%d" % counter["n"])
        out.generic, out.generic_from, out.min_len = True, 0, 0
        out.keyset = True
        return out

    def getattr_hook(fr, base, a, node):
        I = fr.I
        if a == "intersection" and (labelish(base) or is_table(base)):
            def inter(fr2, args, kwargs, node2):
                if len(args) == 1 and ((labelish(base) and is_table(args[0])) or (is_table(base) and labelish(args[0]))):
                    return keyset(fr2.I)
                fr2.unsupported(node2, "intersection of %r with %r" % (base, args))
            return BoundMethod("py", inter, a)
        if isinstance(base, AList) and getattr(base, "keyset", False):
            if a == "pop":
                def pop(fr2, args, kwargs, node2):
                    t = Aff.sym("len:list@%s" % base.uid)
                    if not fr2.I.ge0(t - 1):
                        raise RaiseSig(AExc("KeyError", ["pop from an empty set"], {}))
                    return AKEY
                return BoundMethod("py", pop, a)
            if a in ("copy",):
                return BoundMethod("py", lambda fr2, args, kwargs, node2: base, a)
        return NotImplemented

    def binop_hook(fr, op, l, r_, node):
        if isinstance(op, ast.BitAnd) and ((labelish(l) and is_table(r_)) or (is_table(l) and labelish(r_))):
            return keyset(fr.I)
        return NotImplemented

    def lib_hook(fr, dotted, args, kwargs, node):
        if dotted in ("builtins.set", "builtins.frozenset") and len(args) == 1 and is_table(args[0]) and isinstance(args[0], dict):
            return frozenset(args[0])  # the key set of the table
        if dotted in ("builtins.sorted", "builtins.list", "builtins.tuple") and len(args) == 1 and isinstance(args[0], AList) and getattr(args[0], "keyset", False):
            return args[0]  # the same known cassettes, in some order
        return NotImplemented

    def make_args(I):
        rec = ARec(True, [Piece("W", ZERO, N)], Term("rec"))
        rec.attrs["id"] = Term("id", Term("rec"))

        def make_feature():
            return AStruct("SeqFeature", qualifiers=Term("quals"), type=Term("ftype"), location=Term("loc"), id=Term("fid"))

        rec.attrs["feature_coll"] = ACollection("features", make_feature)
        # a known cassette is a key of the table
        I.path.termeq[("table-has", repr(_table_term(table)), repr(AKEY))] = True
        return (rec,), {}

    def post(I, o):
        name = fr_.qualname
        if o.kind == "return":
            v = o.value
            ok = isinstance(v, Term) and v.op in ("table-get", "table-value") and len(v.args) >= 2 and v.args[0] == _table_term(table) and v.args[1] == AKEY
            return [(rule, name, ok, "find_resistance must answer with the antibiotic the table gives for a cassette known to be in it "
                                     "(or raise RuntimeError): this path returns %r" % (v,))]
        if o.kind == "raise":
            ok = isinstance(o.value, AExc) and o.value.name == "RuntimeError"
            return [(rule, name + "#raises", ok, "the only failure find_resistance announces is RuntimeError: this path raises %r" % (o.value,))]
        return [(rule, name, False, "find_resistance ends with %r" % (o,))]

    outs = run_paths(ctx, fr_, make_args, [N - 1], hooks={"getattr": getattr_hook, "binop": binop_hook, "lib_call": lib_hook}, post=post)
    emit(ctx, outs, fr_.where())
    r.floor(rule, 2)
