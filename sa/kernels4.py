# coding: utf-8
"""K23: every class matches with the pattern of its *own* structure, whatever was typed before.

The function that hands a class its compiled pattern (found by role: the one that compiles `cls.structure()`) is run, by
abstract evaluation, through a *history* on a small family of classes created for the purpose -- a parent P, a child C of P
with another structure, a grandchild G of C -- in several orders (parent first, child first, each asked twice).  Class-level
stores made by one call are seen by the next ones (on the class itself and, through the MRO, on its subclasses), so a memo
that is read through inheritance, stored on the wrong class, or shared by a family shows as an answer compiled from another
class's structure.  What is checked is the answer: `getter(X)` is a pattern object compiled from `X.structure()`, for every
X at every point of every history.  The form of the memo (a slot guarded through `cls.__dict__` / `vars(cls)`, a reset in
`__init_subclass__`, a table keyed by the class, a lock around a second look, no memo at all) is not prescribed.

`structure()` and the pattern compiler are stand-ins (the structure of a class is an uninterpreted word indexed by the
class; compiling records what was compiled); anything else the getter does that has no model ends the evaluation as
undecided (ANALYSIS-ERROR), never as a violation.
"""
from __future__ import annotations

import itertools
from typing import List

from .absint import AObj, AStruct, Term
from .kernels import emit, run_paths
from .loader import AnalysisError, ClassInfo, FuncInfo


def k23_own_pattern(ctx, rule: str):
    p = ctx.program
    r = ctx.report
    from .roles import regex_getter
    from .kits import synthetic_generic

    getter = regex_getter(p)
    rx_cls = p.get_class("moclo.regex.DNARegex")
    P = synthetic_generic(p, "module", "BsaI", "HistoryParent")
    C = p.synthetic_class("HistoryChild", [P], {})
    G = p.synthetic_class("HistoryGrandchild", [C], {})
    S = synthetic_generic(p, "module", "BsmBI", "HistorySibling")
    family = {"P": P, "C": C, "G": G, "S": S}

    def structure_of(cls):
        return Term("structure-of", Term(cls.name if isinstance(cls, ClassInfo) else repr(cls)))

    hooks = {}
    # structure(): whatever implementation a class resolves to, its value is a word that names the class it was asked on
    seen = set()
    for ci in list(p.all_classes()) + list(family.values()):
        try:
            raw = p.class_attr_def(ci, "structure")[1]
        except AnalysisError:
            continue
        if isinstance(raw, FuncInfo) and raw.qualname not in seen:
            seen.add(raw.qualname)

            def structure_hook(I, f, args, kwargs):
                if args and isinstance(args[0], ClassInfo):
                    return structure_of(args[0])
                return NotImplemented

            hooks[raw.qualname] = structure_hook

    # the compiler: DNARegex(text) remembers the text
    init = p.class_attr_def(rx_cls, "__init__")[1]
    if not isinstance(init, FuncInfo):
        raise AnalysisError("anchor vanished: DNARegex.__init__")

    def compile_hook(I, f, args, kwargs):
        obj = args[0]
        if isinstance(obj, AObj):
            obj.attrs["pattern"] = args[1] if len(args) > 1 else kwargs.get("pattern")
        return None

    hooks[init.qualname] = compile_hook

    def lib_hook(fr, dotted, args, kwargs, node):
        if dotted in ("threading.RLock", "threading.Lock"):
            return AStruct("lock")
        if dotted in ("weakref.WeakKeyDictionary", "weakref.WeakValueDictionary") and not args:
            return {}
        return NotImplemented

    hooks["lib_call"] = lib_hook

    orders: List[tuple] = [("P", "C", "G", "P", "C", "G", "S"), ("G", "C", "P", "G", "C", "P"), ("C", "P", "C", "S", "G"), ("S", "P", "C")]
    first = getter.node.args.args[0].arg if getter.node.args.args else "cls"
    is_cm = getter.kind == "classmethod"
    if not is_cm and getter.kind not in ("staticmethod", "function", "classproperty"):
        raise AnalysisError("%s: the function compiling the structure pattern is neither a classmethod nor a function of the class; "
                            "the history evaluation does not apply" % getter.where())

    n = 0
    for order in orders:
        def make_args(I, order=order):
            return (family[order[0]],), {}

        def post(I, o, order=order):
            # the first call is the kernel's own; the rest of the history runs here, on the same path (same class state)
            out = []
            results = [(order[0], o)]
            if o.kind == "return":
                for nm in order[1:]:
                    try:
                        v = I.call_function(getter, [family[nm]], {})
                    except Exception as exc:  # RaiseSig and analysis errors alike: reported below / propagated
                        from .absint import RaiseSig

                        if isinstance(exc, RaiseSig):
                            out.append((rule, "%s#%s" % (getter.qualname, "-".join(order)), False,
                                        "asking %s for its pattern after %s raises %r" % (nm, [x for x, _ in results], exc.exc)))
                            return out
                        raise
                    results.append((nm, v))
            hist = []
            for nm, res in results:
                v = res.value if res is o else res
                kind = o.kind if res is o else "return"
                ok = kind == "return" and isinstance(v, AObj) and v.cls is rx_cls and repr(v.attrs.get("pattern")) == repr(structure_of(family[nm]))
                got = v.attrs.get("pattern") if isinstance(v, AObj) else v
                out.append((rule, "%s#%s@%s" % (getter.qualname, "-".join(order), len(hist)), ok,
                            "after the patterns of %s were asked for, %s is given a pattern compiled from %r instead of its own structure"
                            % (hist or "no class", family[nm].name, got)))
                hist.append(family[nm].name)
            return out

        outs = run_paths(ctx, getter, make_args, [], hooks=hooks, post=post)
        emit(ctx, outs, getter.where())
        n += 1
    r.floor(rule, len(orders))
