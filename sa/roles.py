# coding: utf-8
"""Functions of the assembly layer found by what they do, not by their name
or place: moving the citation rewrite out of the manager class (or renaming
it) must not blind the rules that speak about it."""
from __future__ import annotations

import ast
from typing import List, Optional, Tuple

from .loader import AnalysisError, FuncInfo, Program

ASSEMBLY_LAYER = ("moclo.core._assembly", "moclo.core._utils")


def layer_functions(p: Program) -> List[FuncInfo]:
    out = []
    for mn in ASSEMBLY_LAYER:
        m = p.modules.get(mn)
        if m is None:
            continue
        out.extend(m.functions.values())
        for ci in m.classes.values():
            out.extend(v for v in ci.attrs.values() if isinstance(v, FuncInfo))
    return out


def _callees(p: Program, fi: FuncInfo) -> List[FuncInfo]:
    out = []
    for n in ast.walk(fi.node):
        if isinstance(n, ast.Call):
            g = None
            if isinstance(n.func, ast.Attribute) and isinstance(n.func.value, ast.Name) and n.func.value.id in ("self", "cls") and fi.owner is not None:
                _, g = p.class_attr_def(fi.owner, n.func.attr)
            elif isinstance(n.func, ast.Name):
                g = p.resolve_expr(fi.module, n.func)
            if isinstance(g, FuncInfo):
                out.append(g)
    return out


def _mentions(fi: FuncInfo, text: str) -> bool:
    return any(isinstance(n, ast.Constant) and n.value == text for n in ast.walk(fi.node))


def touches_citation(p: Program, fi: FuncInfo, depth: int = 2) -> bool:
    if _mentions(fi, "citation"):
        return True
    return depth > 0 and any(touches_citation(p, g, depth - 1) for g in _callees(p, fi))


def _slot_stores(fi: FuncInfo) -> List[ast.Assign]:
    return [n for n in ast.walk(fi.node) if isinstance(n, ast.Assign)
            and any(isinstance(t, ast.Subscript) and not isinstance(t.slice, ast.Slice) for t in n.targets)]


def citation_functions(p: Program) -> Tuple[FuncInfo, FuncInfo]:
    """(dereference, re-reference): the two functions of the assembly layer
    that store into the slots of a feature's citation list; the re-reference
    one numbers through the record's reference list (``.index`` / the
    ``references`` annotation created on demand)."""
    cached = getattr(p, "_citation_functions", None)
    if cached is not None:
        return cached
    cands = [f for f in layer_functions(p) if _slot_stores(f) and touches_citation(p, f)]
    ref = [f for f in cands if any(isinstance(n, ast.Call) and isinstance(n.func, ast.Attribute) and n.func.attr == "index" for n in ast.walk(f.node))
           or any(isinstance(n, ast.Call) and isinstance(n.func, ast.Attribute) and n.func.attr == "setdefault" and n.args
                  and isinstance(n.args[0], ast.Constant) and n.args[0].value == "references" for n in ast.walk(f.node))]
    deref = [f for f in cands if f not in ref]
    if len(ref) != 1 or len(deref) != 1:
        raise AnalysisError("anchor vanished: the citation rewrite pair is not recognised in %s (dereference candidates %s, re-reference candidates %s)"
                            % (", ".join(ASSEMBLY_LAYER), [f.qualname for f in deref], [f.qualname for f in ref]))
    p._citation_functions = (deref[0], ref[0])
    return p._citation_functions


def citation_regex(p: Program, deref: FuncInfo) -> Optional[str]:
    """the literal pattern of the compiled regex the dereference function matches citations with"""
    names = set()
    nodes = list(ast.walk(deref.node))
    for g in _callees(p, deref):
        nodes += list(ast.walk(g.node))
    for n in nodes:
        if isinstance(n, ast.Call) and isinstance(n.func, ast.Attribute) and n.func.attr in ("match", "fullmatch", "search"):
            v = n.func.value
            if isinstance(v, ast.Attribute):
                names.add(v.attr)
            elif isinstance(v, ast.Name):
                names.add(v.id)
    for nm in sorted(names):
        raw = None
        if deref.owner is not None:
            _, raw = p.class_attr_def(deref.owner, nm)
        if raw is None:
            raw = deref.module.assigns.get(nm)
        if isinstance(raw, ast.Call) and raw.args and isinstance(raw.args[0], ast.Constant) and isinstance(raw.args[0].value, str):
            return raw.args[0].value
    return None
