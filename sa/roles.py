# coding: utf-8
"""Functions of the assembly layer found by what they do, not by their name
or place: moving the citation rewrite out of the manager class (or renaming
it) must not blind the rules that speak about it."""
from __future__ import annotations

import ast
from typing import List, Optional, Tuple

from .loader import AnalysisError, ClassInfo, FuncInfo, Program

_BASE_LAYER = ("moclo.core._assembly", "moclo.core._utils")


def assembly_layer(p: Program) -> tuple:
    """the modules of the assembly layer: moclo.core._assembly, moclo.core._utils, and any other private module of
    moclo.core (`_citations`, `_plan`, ...) that _assembly imports -- helpers split off into a file of their own; the
    module of the structured classes is not one of them"""
    cached = getattr(p, "_assembly_layer", None)
    if cached is not None:
        return cached
    out = list(_BASE_LAYER)
    m = p.modules.get("moclo.core._assembly")
    if m is not None:
        for node in ast.walk(m.tree):
            if isinstance(node, ast.ImportFrom) and node.level >= 1:
                cands = []
                if node.module:
                    cands.append("moclo.core." + node.module if node.level == 1 else None)
                else:
                    cands.extend("moclo.core." + a.name for a in node.names if node.level == 1)
                for c in cands:
                    if c and c in p.modules and c.rsplit(".", 1)[-1].startswith("_") and c not in out \
                            and c not in ("moclo.core._structured", "moclo.core.__init__"):
                        out.append(c)
    p._assembly_layer = tuple(out)
    return p._assembly_layer


def layer_functions(p: Program) -> List[FuncInfo]:
    """The assembly layer: everything defined in moclo.core._assembly, plus the functions of the other core modules it
    reaches by direct calls (helpers moved to core/_utils.py, context managers, value objects).  Helpers of the same
    utility module that only the structured classes call (the source annotator, span helpers of target_sequence) are
    the *accessor* layer and judged there (K7-K10, K12)."""
    cached = getattr(p, "_layer_functions", None)
    if cached is not None:
        return cached
    out = []
    m = p.modules.get("moclo.core._assembly")
    if m is not None:
        out.extend(m.functions.values())
        for ci in m.classes.values():
            out.extend(v for v in ci.attrs.values() if isinstance(v, FuncInfo))
    for f in list(out):
        for g in reach(p, f, 6):
            if g not in out:
                out.append(g)
    p._layer_functions = out
    return out


def _callees(p: Program, fi: FuncInfo) -> List[FuncInfo]:
    out = []
    for n in ast.walk(fi.node):
        if isinstance(n, ast.Call):
            g = None
            if isinstance(n.func, ast.Attribute) and isinstance(n.func.value, ast.Name) and n.func.value.id in ("self", "cls") and fi.owner is not None:
                _, g = p.class_attr_def(fi.owner, n.func.attr)
            elif isinstance(n.func, ast.Name):
                g = p.resolve_expr(fi.module, n.func)
                if isinstance(g, ClassInfo) and g.module is not None and g.module.name in assembly_layer(p):
                    g = g.attrs.get("__init__")  # a small class of the layer instantiated: its constructor runs
            if isinstance(g, FuncInfo):
                out.append(g)
    # methods handed on as values (a tuple of pipeline stages run by a loop: `for stage in (self._annotate, self._number): ...`)
    called = {id(n.func) for n in ast.walk(fi.node) if isinstance(n, ast.Call)}
    for n in ast.walk(fi.node):
        if isinstance(n, ast.Attribute) and id(n) not in called and isinstance(n.ctx, ast.Load) and isinstance(n.value, ast.Name) \
                and n.value.id in ("self", "cls") and fi.owner is not None:
            _, g = p.class_attr_def(fi.owner, n.attr)
            if isinstance(g, FuncInfo) and g.kind in ("method", "classmethod", "staticmethod") and g not in out:
                out.append(g)
    return out


def _layer_classes(p: Program):
    out = []
    for mn in assembly_layer(p):
        m = p.modules.get(mn)
        if m is not None:
            out.extend(m.classes.values())
    return out


def _may_be_value_object(p: Program, f: FuncInfo, recv: ast.expr, vclasses) -> bool:
    """can the receiver of a method call be an instance of one of the layer's value classes?  A local that is only ever
    bound to something else (a list taken from an annotation, a string, a record) cannot."""
    from .loader import ClassInfo

    if not isinstance(recv, ast.Name):
        return not isinstance(recv, (ast.Constant, ast.JoinedStr, ast.List, ast.Dict, ast.Tuple))
    binds = []
    for n in ast.walk(f.node):
        if isinstance(n, ast.Assign) and any(isinstance(x, ast.Name) and x.id == recv.id for t in n.targets for x in ast.walk(t)):
            binds.append(n.value)
        elif isinstance(n, (ast.For, ast.comprehension)) and any(isinstance(x, ast.Name) and x.id == recv.id for x in ast.walk(n.target)):
            binds.append(n.iter)
        elif isinstance(n, ast.withitem) and n.optional_vars is not None and any(isinstance(x, ast.Name) and x.id == recv.id for x in ast.walk(n.optional_vars)):
            binds.append(n.context_expr)
    if not binds:
        return True  # a parameter, a global
    for b in binds:
        for c in ast.walk(b):
            if isinstance(c, ast.Call):
                g = None
                try:
                    if isinstance(c.func, ast.Name) and f.kind == "classmethod" and f.owner is not None and f.node.args.args \
                            and c.func.id == f.node.args.args[0].arg:
                        g = f.owner  # cls(...) in an alternative constructor
                    elif isinstance(c.func, ast.Name):
                        g = p.resolve_expr(f.module, c.func)
                    elif isinstance(c.func, ast.Attribute) and isinstance(c.func.value, ast.Name) and c.func.value.id in ("self", "cls") and f.owner is not None:
                        _, g = p.class_attr_def(f.owner, c.func.attr)
                    elif isinstance(c.func, ast.Attribute) and isinstance(c.func.value, ast.Name):
                        g = p.resolve_expr(f.module, c.func.value)
                except Exception:
                    g = None
                if isinstance(g, ClassInfo) and g in vclasses:
                    return True
                if isinstance(g, FuncInfo) and g.module.name in assembly_layer(p):
                    return True  # a helper of the layer: may hand out value objects
    return False


def _class_members(p: Program, ci) -> set:
    """names an instance of ci answers to: what the class and its bases of the code base define, and what its methods
    bind on self"""
    cache = p.__dict__.setdefault("_class_members_cache", {})
    if id(ci) not in cache:
        names = set()
        open_ended = False
        for c in p.mro(ci):
            if not isinstance(c, ClassInfo):
                if getattr(c, "dotted", "") != "builtins.object":
                    open_ended = True  # a library base brings members we do not know
                continue
            names |= set(c.attrs)
            for raw in c.attrs.values():
                if isinstance(raw, FuncInfo) and raw.node.args.args:
                    me = raw.node.args.args[0].arg
                    for n in ast.walk(raw.node):
                        if isinstance(n, ast.Attribute) and isinstance(n.ctx, ast.Store) and isinstance(n.value, ast.Name) and n.value.id == me:
                            names.add(n.attr)
            if "__getattr__" in c.attrs or "__slots__" not in c.attrs and False:
                open_ended = True
        cache[id(ci)] = (names, open_ended)
    return cache[id(ci)]


def _candidate_classes(p: Program, f: FuncInfo, recv: ast.expr, vclasses):
    """the value classes of the layer an object named by `recv` in f can be an instance of: every attribute the function
    reads on that name must be something the class has (a record has .annotations, a plan object does not)"""
    if not isinstance(recv, ast.Name):
        return list(vclasses)
    used = {n.attr for n in ast.walk(f.node) if isinstance(n, ast.Attribute) and isinstance(n.value, ast.Name) and n.value.id == recv.id}
    out = []
    for ci in vclasses:
        names, open_ended = _class_members(p, ci)
        if open_ended or used <= names:
            out.append(ci)
    return out


def reach(p: Program, fi: FuncInfo, depth: int = 4) -> List[FuncInfo]:
    """fi and what it runs inside the assembly layer: self./cls. calls, calls of module-level names (also through
    `module.name`), functions handed on as values, and methods of the layer's value objects called on an instance
    (resolved by method name)"""
    from .loader import ClassInfo

    cache = p.__dict__.setdefault("_reach_cache", {})
    key = (id(fi), depth)
    if key in cache:
        return cache[key]
    out, todo = [fi], [(fi, depth)]
    vclasses = _layer_classes(p)
    while todo:
        f, d = todo.pop()
        if d <= 0:
            continue
        nxt = []
        params = {a.arg for a in f.node.args.posonlyargs + f.node.args.args}
        call_funcs = {id(n.func) for n in ast.walk(f.node) if isinstance(n, ast.Call)}
        for n in ast.walk(f.node):
            if isinstance(n, ast.Call):
                fn = n.func
                if isinstance(fn, ast.Attribute) and isinstance(fn.value, ast.Name) and fn.value.id in ("self", "cls") and f.owner is not None:
                    _, g = p.class_attr_def(f.owner, fn.attr)
                    if isinstance(g, FuncInfo):
                        nxt.append(g)
                elif isinstance(fn, ast.Attribute) and _is_module_attr(p, f, fn):
                    try:
                        g = p.resolve_expr(f.module, fn)
                    except Exception:
                        g = None
                    if isinstance(g, FuncInfo):
                        nxt.append(g)
                elif isinstance(fn, ast.Attribute):
                    exact = None
                    if isinstance(fn.value, ast.Name):
                        try:
                            exact = p.resolve_expr(f.module, fn.value) if fn.value.id not in params else None
                        except Exception:
                            exact = None
                    if isinstance(exact, ClassInfo):
                        # Class.method(...): that class's method, nothing else
                        raw = exact.attrs.get(fn.attr) if exact in vclasses else None
                        if isinstance(raw, FuncInfo):
                            nxt.append(raw)
                    elif _may_be_value_object(p, f, fn.value, vclasses):
                        for ci in _candidate_classes(p, f, fn.value, vclasses):
                            raw = ci.attrs.get(fn.attr)
                            if isinstance(raw, FuncInfo):
                                nxt.append(raw)
            if isinstance(n, ast.Name) and isinstance(n.ctx, ast.Load) and n.id not in params:
                try:
                    g = p.resolve_expr(f.module, n)
                except Exception:
                    g = None
                if isinstance(g, FuncInfo):
                    nxt.append(g)
                elif isinstance(g, ClassInfo) and g in vclasses:
                    # instantiating a value object runs its constructor; its other methods are reached when called
                    init = g.attrs.get("__init__")
                    if isinstance(init, FuncInfo):
                        nxt.append(init)
            if isinstance(n, ast.Attribute) and isinstance(n.ctx, ast.Load) and isinstance(n.value, ast.Name) and n.value.id in ("self", "cls") and f.owner is not None:
                # self.method handed on as a value
                _, g = p.class_attr_def(f.owner, n.attr)
                if isinstance(g, FuncInfo):
                    nxt.append(g)
            elif isinstance(n, ast.Attribute) and isinstance(n.ctx, ast.Load) and not n.attr.startswith("__") and id(n) not in call_funcs \
                    and _may_be_value_object(p, f, n.value, vclasses):
                # a method of a value object of the layer handed on as a value (table.lookup)
                for ci in _candidate_classes(p, f, n.value, vclasses):
                    raw = ci.attrs.get(n.attr)
                    if isinstance(raw, FuncInfo):
                        nxt.append(raw)
        for g in nxt:
            if g not in out and g.module.name in assembly_layer(p):
                out.append(g)
                todo.append((g, d - 1))
    cache[key] = out
    return out


def _mentions(fi: FuncInfo, text: str) -> bool:
    if any(isinstance(n, ast.Constant) and n.value == text for n in ast.walk(fi.node)):
        return True
    # through a class-level or module-level name the function uses (a getter object, a constant)
    for n in ast.walk(fi.node):
        raw = None
        if isinstance(n, ast.Attribute) and isinstance(n.value, ast.Name) and n.value.id in ("self", "cls") and fi.owner is not None:
            raw = fi.owner.attrs.get(n.attr)
        elif isinstance(n, ast.Name) and isinstance(n.ctx, ast.Load):
            raw = fi.module.assigns.get(n.id)
        if isinstance(raw, ast.AST) and any(isinstance(x, ast.Constant) and x.value == text for x in ast.walk(raw)):
            return True
    return False


def touches_citation(p: Program, fi: FuncInfo, depth: int = 2) -> bool:
    if _mentions(fi, "citation"):
        return True
    return depth > 0 and any(touches_citation(p, g, depth - 1) for g in _callees(p, fi))


def _slot_stores(fi: FuncInfo) -> List[ast.Assign]:
    return [n for n in ast.walk(fi.node) if isinstance(n, ast.Assign)
            and any(isinstance(t, ast.Subscript) and not isinstance(t.slice, ast.Slice) for t in n.targets)]


def _slot_storing_methods(p: Program) -> dict:
    """{method name: FuncInfo} for the methods of the layer's value classes that store into a slot of something the
    receiver holds (``self.container[self.index] = value``)"""
    out = {}
    for mn in assembly_layer(p):
        m = p.modules.get(mn)
        if m is None:
            continue
        for ci in m.classes.values():
            for nm, raw in ci.attrs.items():
                if isinstance(raw, FuncInfo) and _slot_stores(raw) and raw.node.args.args:
                    me = raw.node.args.args[0].arg
                    if any(isinstance(t, ast.Subscript) and isinstance(t.value, ast.Attribute) and isinstance(t.value.value, ast.Name) and t.value.value.id == me
                           for st in _slot_stores(raw) for t in st.targets):
                        out[nm] = raw
    return out


def _stores_slots(p: Program, f: FuncInfo) -> bool:
    if _slot_stores(f):
        return True
    via = _slot_storing_methods(p)
    for n in ast.walk(f.node):
        if isinstance(n, ast.Call) and isinstance(n.func, ast.Attribute) and n.func.attr in via and via[n.func.attr] is not f \
                and not (isinstance(n.func.value, ast.Name) and n.func.value.id in ("self", "cls")):
            return True
    return False


def citation_value_stores(p: Program) -> dict:
    """{id(method): [layer functions that call it on an instance]} for the slot-storing methods of value classes of the
    layer whose instances are built from a feature's citation list only (``_Citation(feature.qualifiers["citation"], i, ref)``)"""
    cached = getattr(p, "_citation_value_stores", None)
    if cached is not None:
        return cached
    from .loader import ClassInfo

    out = {}
    funcs = layer_functions(p)

    def builds(f: FuncInfo, ci) -> List[ast.Call]:
        hits = []
        for n in ast.walk(f.node):
            if isinstance(n, ast.Call):
                try:
                    v = p.resolve_expr(f.module, n.func)
                except Exception:
                    v = None
                if v is ci:
                    hits.append(n)
        return hits

    for nm, meth in _slot_storing_methods(p).items():
        ci = meth.owner
        if not isinstance(ci, ClassInfo):
            continue
        makers = [(f, c) for f in funcs for c in builds(f, ci)]
        if not makers or not all(any(isinstance(x, ast.Constant) and x.value == "citation" for a in c.args + [k.value for k in c.keywords] for x in ast.walk(a))
                                 for _, c in makers):
            continue
        maker_funcs = {id(f) for f, _ in makers}
        callers = []
        for f in funcs:
            if f is meth:
                continue
            for n in ast.walk(f.node):
                if not (isinstance(n, ast.Call) and isinstance(n.func, ast.Attribute) and n.func.attr == nm and isinstance(n.func.value, ast.Name)):
                    continue
                recv = n.func.value.id
                # the receiver is bound from a maker (directly, or by iterating one)
                from_maker = False
                for b in ast.walk(f.node):
                    src = None
                    if isinstance(b, (ast.For, ast.comprehension)) and any(isinstance(x, ast.Name) and x.id == recv for x in ast.walk(b.target)):
                        src = b.iter
                    elif isinstance(b, ast.Assign) and any(isinstance(x, ast.Name) and x.id == recv for t in b.targets for x in ast.walk(t)):
                        src = b.value
                    if src is None:
                        continue
                    for c in ast.walk(src):
                        if isinstance(c, ast.Call):
                            g = None
                            if isinstance(c.func, ast.Attribute) and isinstance(c.func.value, ast.Name) and c.func.value.id in ("self", "cls") and f.owner is not None:
                                _, g = p.class_attr_def(f.owner, c.func.attr)
                            elif isinstance(c.func, ast.Name):
                                g = p.resolve_expr(f.module, c.func)
                            if g is ci or (isinstance(g, FuncInfo) and id(g) in maker_funcs):
                                from_maker = True
                if from_maker and f not in callers:
                    callers.append(f)
        out[id(meth)] = callers
    p._citation_value_stores = out
    return out


def cutter_check_function(p: Program) -> FuncInfo:
    """the function every structured class consults before it is instantiated: refuses an undeclared (NotImplemented),
    blunt or unknown cutter"""
    cached = getattr(p, "_cutter_check", None)
    if cached is not None:
        return cached
    hits = []
    for mn, m in sorted(p.modules.items()):
        if not mn.startswith("moclo.core"):
            continue
        funcs = list(m.functions.values()) + [v for ci in m.classes.values() for v in ci.attrs.values() if isinstance(v, FuncInfo) and v.module is m]
        for f in funcs:
            calls = {n.func.attr for n in ast.walk(f.node) if isinstance(n, ast.Call) and isinstance(n.func, ast.Attribute)}
            ni = any(isinstance(n, ast.Compare) and any(isinstance(c, ast.Name) and c.id == "NotImplemented" for c in n.comparators) for n in ast.walk(f.node))
            if not ni:
                continue
            # the blunt / unknown tests may sit in a module-level table the function walks
            for n in ast.walk(f.node):
                if isinstance(n, ast.Name) and isinstance(n.ctx, ast.Load):
                    raw = f.module.assigns.get(n.id)
                    if isinstance(raw, ast.AST):
                        calls |= {x.attr for x in ast.walk(raw) if isinstance(x, ast.Attribute)} | {
                            x.value for x in ast.walk(raw) if isinstance(x, ast.Constant) and isinstance(x.value, str)}
            if {"is_blunt", "is_unknown"} <= calls and f not in hits:
                hits.append(f)
    if len(hits) != 1:
        raise AnalysisError("anchor vanished: the cutter check (NotImplemented / is_blunt / is_unknown) is not recognised: %s" % [f.qualname for f in hits])
    p._cutter_check = hits[0]
    return hits[0]


def source_annotator(p: Program) -> FuncInfo:
    """the function that marks a fragment with the 'source' feature naming the plasmid it was cut from"""
    cached = getattr(p, "_source_annotator", None)
    if cached is not None:
        return cached
    hits = []
    for mn, m in sorted(p.modules.items()):
        if not mn.startswith("moclo.core"):
            continue
        funcs = list(m.functions.values()) + [v for ci in m.classes.values() for v in ci.attrs.values() if isinstance(v, FuncInfo) and v.module is m]
        for f in funcs:
            def makes_source(g):
                return any(isinstance(n, ast.Call) and ast.unparse(n.func).endswith("SeqFeature")
                           and any(k.arg == "type" and isinstance(k.value, ast.Constant) and k.value.value == "source" for k in n.keywords)
                           for n in ast.walk(g.node))

            makes = makes_source(f) or any(makes_source(g) for g in _callees(p, f))  # ... or a factory it calls
            appends = any(isinstance(n, ast.Call) and isinstance(n.func, ast.Attribute) and n.func.attr in ("append", "insert", "extend")
                          and isinstance(n.func.value, ast.Attribute) and n.func.value.attr == "features" for n in ast.walk(f.node))
            if makes and appends and f not in hits:
                hits.append(f)
    if len(hits) != 1:
        raise AnalysisError("anchor vanished: the function adding the 'source' feature to a fragment is not recognised: %s" % [f.qualname for f in hits])
    p._source_annotator = hits[0]
    return hits[0]


def citation_functions(p: Program) -> Tuple[FuncInfo, FuncInfo]:
    """(dereference, re-reference): the two functions of the assembly layer
    that store into the slots of a feature's citation list; the re-reference
    one numbers through the record's reference list (``.index`` / the
    ``references`` annotation created on demand)."""
    cached = getattr(p, "_citation_functions", None)
    if cached is not None:
        return cached
    # Each of the two is the innermost function that, together with what it runs, (i) stores into a slot, (ii) names the
    # citation qualifier and (iii) either parses citation text (the dereference: a regex match / int()) or numbers
    # through the reference list (the re-reference: .index / .append / the list created on demand) -- not both, which is
    # what the orchestration around them (assemble, a context manager) does.
    def feats(f):
        T = reach(p, f)
        nodes = [n for g in T for n in ast.walk(g.node)]
        stores = any(_slot_stores(g) for g in T)
        cites = any(_mentions(g, "citation") for g in T)
        parses = any(isinstance(n, ast.Call) and ((isinstance(n.func, ast.Attribute) and n.func.attr in ("match", "fullmatch", "search"))
                                                  or (isinstance(n.func, ast.Name) and n.func.id == "int")) for n in nodes) or any(
            isinstance(n, ast.Attribute) and n.attr in ("match", "fullmatch") and isinstance(n.ctx, ast.Load) for n in nodes)
        def is_class_name(g, e):
            from .loader import ClassInfo
            try:
                return isinstance(e, ast.Name) and isinstance(p.resolve_expr(g.module, e), ClassInfo)
            except Exception:
                return False

        numbers = any(isinstance(n, ast.Call) and isinstance(n.func, ast.Attribute) and (
            (n.func.attr in ("index", "append") and not is_class_name(g, n.func.value) and not (isinstance(n.func.value, ast.Name) and n.func.value.id in ("cls", "self"))))
            for g in T for n in ast.walk(g.node))
        # the list created on demand: a weaker sign (a constructor shared by both halves may do it under a flag)
        creates = any(isinstance(n, ast.Call) and isinstance(n.func, ast.Attribute) and n.func.attr == "setdefault" and n.args
                      and isinstance(n.args[0], ast.Constant) and n.args[0].value == "references" for g in T for n in ast.walk(g.node))
        return stores, cites, parses, numbers, creates

    lf = [f for f in layer_functions(p) if not (f.owner is not None and f.owner in _layer_classes(p) and f.owner.name != "AssemblyManager" and f.name != "__call__")]
    table = {id(f): feats(f) for f in lf}
    d_entries = [f for f in lf if table[id(f)][0] and table[id(f)][1] and table[id(f)][2] and not table[id(f)][3]]
    r_entries = [f for f in lf if table[id(f)][0] and table[id(f)][1] and table[id(f)][3] and not table[id(f)][2]]
    if not r_entries:
        r_entries = [f for f in lf if table[id(f)][0] and table[id(f)][1] and table[id(f)][4] and not table[id(f)][2]]
        d_entries = [f for f in d_entries if not table[id(f)][4]]

    def innermost(entries):
        return [f for f in entries if not any(g is not f and g in reach(p, f) for g in entries)]

    deref, ref = innermost(d_entries), innermost(r_entries)
    if len(ref) != 1 or len(deref) != 1:
        # the pair may live on a small class of the layer (a citation table wrapped around one record, with one method for
        # each direction): its methods are candidates too
        lf2 = list(layer_functions(p))
        table = {id(f): feats(f) for f in lf2}
        d2 = [f for f in lf2 if table[id(f)][0] and table[id(f)][1] and table[id(f)][2] and not table[id(f)][3] and not table[id(f)][4]]
        r2 = [f for f in lf2 if table[id(f)][0] and table[id(f)][1] and (table[id(f)][3] or table[id(f)][4]) and not table[id(f)][2]]
        d2, r2 = innermost(d2), innermost(r2)
        if len(d2) == 1 and len(r2) == 1 and d2[0].owner is not None and d2[0].owner is r2[0].owner:
            deref, ref = d2, r2
    if len(ref) != 1 or len(deref) != 1:
        raise AnalysisError("anchor vanished: the citation rewrite pair is not recognised in %s (dereference candidates %s, re-reference candidates %s)"
                            % (", ".join(assembly_layer(p)), [f.qualname for f in deref], [f.qualname for f in ref]))
    p._citation_functions = (deref[0], ref[0])
    return p._citation_functions


def citation_private_helpers(p: Program) -> set:
    """ids of the functions only the citation rewrite pair runs (a shared slot-storing helper, a generator of citation
    slots, methods of a citation value object): reached from the pair and from nothing else in the layer"""
    cached = getattr(p, "_citation_private_helpers", None)
    if cached is not None:
        return cached
    deref, ref = citation_functions(p)
    inside = [g for g in reach(p, deref) + reach(p, ref)]
    pair = {id(deref), id(ref)}
    outside = set()
    for f in layer_functions(p):
        if any(f is g for g in inside):
            continue
        # what f runs without entering the pair
        seen, todo = {id(f)}, [f]
        while todo:
            h = todo.pop()
            for g in reach(p, h, 1):
                if id(g) in pair or id(g) in seen:
                    continue
                seen.add(id(g))
                todo.append(g)
        outside |= seen
    out = {id(g) for g in inside if id(g) not in outside and id(g) not in pair}
    p._citation_private_helpers = out
    return out


def citation_regex(p: Program, deref: FuncInfo) -> Optional[str]:
    """the literal pattern of the compiled regex the dereference function matches citations with"""
    names = set()
    nodes = list(ast.walk(deref.node))
    for g in reach(p, deref):
        if g is not deref:
            nodes += list(ast.walk(g.node))
    local = {}
    for n in nodes:
        if isinstance(n, ast.Assign) and len(n.targets) == 1 and isinstance(n.targets[0], ast.Name):
            local[n.targets[0].id] = n.value
    for n in nodes:
        # <pattern>.match(...) called, or handed on as a function (map(rx.match, ...))
        if isinstance(n, ast.Attribute) and n.attr in ("match", "fullmatch", "search") and isinstance(n.ctx, ast.Load):
            v = n.value
            if isinstance(v, ast.Name) and isinstance(local.get(v.id), (ast.Attribute, ast.Name)):
                v = local[v.id]
            if isinstance(v, ast.Attribute):
                names.add(v.attr)
            elif isinstance(v, ast.Name):
                names.add(v.id)
    for nm in sorted(names):
        raws = []
        for g in reach(p, deref):
            if g.owner is not None:
                raws.append(p.class_attr_def(g.owner, nm)[1])
            raws.append(g.module.assigns.get(nm))
        for raw in raws:
            if isinstance(raw, ast.Call) and raw.args and isinstance(raw.args[0], ast.Constant) and isinstance(raw.args[0].value, str):
                return raw.args[0].value
    return None


# ---------------------------------------------------------------------------
# the phases of AssemblyManager.assemble()


def _tree_mentions(p: Program, fi: FuncInfo, pred, depth: int = 3, seen=None) -> bool:
    seen = seen if seen is not None else set()
    if id(fi) in seen:
        return False
    seen.add(id(fi))
    if any(pred(n) for n in ast.walk(fi.node)):
        return True
    # through a module-level / class-level constant the function names (a table of annotations, a compiled pattern)
    for n in ast.walk(fi.node):
        raw = None
        if isinstance(n, ast.Name) and isinstance(n.ctx, ast.Load):
            raw = fi.module.assigns.get(n.id)
        elif isinstance(n, ast.Attribute) and isinstance(n.value, ast.Name) and n.value.id in ("self", "cls") and fi.owner is not None:
            raw = fi.owner.attrs.get(n.attr)
        if isinstance(raw, ast.AST) and any(pred(x) for x in ast.walk(raw)):
            return True
    if depth > 0 and any(_tree_mentions(p, g, pred, depth - 1, seen) for g in _callees(p, fi)):
        return True
    # ... or in a method of a value object of the layer it runs (an error built by _Clash(...).as_error())
    return depth > 0 and any(any(pred(n) for n in ast.walk(g.node)) for g in reach(p, fi, 2) if g is not fi and g.owner is not None and g.owner in _layer_classes(p)
                             and g.owner.name != "AssemblyManager")


def manager_phases(p: Program) -> dict:
    """{'map': f, 'walk': f, 'annotate': f}: the functions AssemblyManager.assemble()
    calls (directly, or through a helper / context manager it uses) to index
    the modules by overhang (the one that can raise DuplicateModules), to chain
    them (the one that can raise MissingModule) and to annotate the product
    (the one that writes the topology).  Found by what they do, so that
    renaming or moving them does not blind the kernels that evaluate them."""
    cached = getattr(p, "_manager_phases", None)
    if cached is not None:
        return cached
    entry = p.get_func("moclo.core._assembly.AssemblyManager.assemble")

    def names(word):
        return lambda n: (isinstance(n, ast.Attribute) and n.attr == word) or (isinstance(n, ast.Name) and n.id == word)

    preds = {
        "map": names("DuplicateModules"),
        "walk": names("MissingModule"),
        "annotate": lambda n: (isinstance(n, ast.Constant) and n.value == "topology") or (isinstance(n, ast.keyword) and n.arg == "topology"),
    }
    out = {}
    first = _callees(p, entry)
    second = [g for f in first for g in _callees(p, f)]
    # a helper that merely strings several phases together (generate + annotate + re-reference) is not a phase: its
    # callees stand in for it
    def roles_of(f):
        return [role for role, pred in preds.items() if _tree_mentions(p, f, pred)]

    def is_stage_table(f):
        # a function that only hands out other methods (`return (self._annotate, self._number)`): the stages are the phases
        body = [st for st in f.node.body if not (isinstance(st, ast.Expr) and isinstance(st.value, ast.Constant))]
        return len(body) == 1 and isinstance(body[0], ast.Return) and isinstance(body[0].value, (ast.Tuple, ast.List)) and body[0].value.elts \
            and all(isinstance(e, ast.Attribute) and isinstance(e.value, ast.Name) and e.value.id in ("self", "cls") for e in body[0].value.elts)

    def flatten(level, depth=2):
        res = []
        for f in level:
            if ((len(roles_of(f)) > 1) or is_stage_table(f)) and depth > 0 and f is not entry:
                res.extend(x for x in flatten(_callees(p, f), depth - 1) if x not in res)
            elif f not in res:
                res.append(f)
        return res

    first = flatten(first)
    for role, pred in preds.items():
        for level in (first, second):
            hits = []
            for f in level:
                if f not in hits and _tree_mentions(p, f, pred):
                    hits.append(f)
            # the outermost function of the phase: not one that merely is called by another hit
            hits = [f for f in hits if not any(f in _callees(p, g) for g in hits if g is not f)]
            if len(hits) == 1:
                out[role] = hits[0]
                break
        if role not in out:
            raise AnalysisError("anchor vanished: the %s phase of AssemblyManager.assemble() is not recognised" % role)
    p._manager_phases = out
    return out


def map_carrier(p: Program, map_phase: FuncInfo):
    """(class, attribute) when the map phase hands on, instead of the dict itself, an object of a small class of the code
    base that keeps the dict (`return _ModuleIndex.of(self.modules)`); None when it returns the dict.  The class is read off
    the return expressions; the attribute is the one `__init__` binds to an empty dict."""
    rets = [n.value for n in ast.walk(map_phase.node) if isinstance(n, ast.Return) and n.value is not None]
    found = set()
    if map_phase.name == "__init__" and map_phase.owner is not None and map_phase.owner.name != "AssemblyManager":
        found.add(map_phase.owner)  # the map phase is the constructor of the index object itself
    for v in rets:
        if not isinstance(v, ast.Call):
            continue
        fn = v.func
        ci = None
        try:
            r = p.resolve_expr(map_phase.module, fn)
        except Exception:
            r = None
        if isinstance(r, ClassInfo):
            ci = r
        elif isinstance(fn, ast.Attribute):
            try:
                r = p.resolve_expr(map_phase.module, fn.value)
            except Exception:
                r = None
            if isinstance(r, ClassInfo):
                _, m = p.class_attr_def(r, fn.attr)
                if isinstance(m, FuncInfo) and m.kind == "classmethod":
                    ci = r
        if ci is not None:
            found.add(ci)
    if len(found) != 1:
        return None
    ci = found.pop()
    _, init = p.class_attr_def(ci, "__init__")
    if not isinstance(init, FuncInfo) or not init.node.args.args:
        return None
    me = init.node.args.args[0].arg
    slots = [n.targets[0].attr for n in ast.walk(init.node)
             if isinstance(n, ast.Assign) and len(n.targets) == 1 and isinstance(n.targets[0], ast.Attribute)
             and isinstance(n.targets[0].value, ast.Name) and n.targets[0].value.id == me
             and ((isinstance(n.value, ast.Dict) and not n.value.keys) or (isinstance(n.value, ast.Call) and not n.value.args and not n.value.keywords
                                                                            and ast.unparse(n.value.func).split(".")[-1] in ("dict", "OrderedDict")))]
    if len(slots) != 1:
        return None
    return ci, slots[0]


# ---------------------------------------------------------------------------
# the per-class compiled structure


def _is_pattern_compiler(p: Program, f: FuncInfo, fn: ast.expr) -> bool:
    """`fn(text)` compiles the text: DNARegex itself, or a module-level helper whose every return is DNARegex(<its one
    parameter>) (a compile step shared between classes, memoised on the text or not)"""
    if not isinstance(fn, ast.Name):
        return False
    if fn.id == "DNARegex":
        return True
    try:
        g = p.resolve_expr(f.module, fn)
    except Exception:
        return False
    if not isinstance(g, FuncInfo) or g.owner is not None:
        return False
    params = [a.arg for a in g.node.args.posonlyargs + g.node.args.args]
    rets = [n.value for n in ast.walk(g.node) if isinstance(n, ast.Return)]
    return len(params) == 1 and bool(rets) and all(
        isinstance(v, ast.Call) and isinstance(v.func, ast.Name) and v.func.id == "DNARegex" and len(v.args) == 1 and not v.keywords
        and isinstance(v.args[0], ast.Name) and v.args[0].id == params[0] for v in rets)


def search_entries(p: Program):
    """[(method of DNARegex, its parameter names without self)]: the methods that take the target first and the `linear`
    flag -- `search` itself and whatever other doors lead to the scan (search_with -> _scan(string, pos, endpos, linear));
    a stand-in for the structure search is installed on every one of them, reading its arguments by name"""
    ci = p.get_class("moclo.regex.DNARegex")
    out = []
    for raw in ci.attrs.values():
        if isinstance(raw, FuncInfo):
            ps = [a.arg for a in raw.node.args.posonlyargs + raw.node.args.args]
            if raw.kind in ("method", "classmethod") and ps:
                ps = ps[1:]
            if raw.name == "search" or ("linear" in ps and ps and ps[0] in ("string", "target", "record", "sequence", "seq")):
                out.append((raw, ps, raw.kind in ("method", "classmethod")))
    return out


def bind_search_args(ps, skip_self, args, kwargs) -> dict:
    given = dict(zip(ps, list(args)[1:] if skip_self else list(args)))
    given.update(kwargs)
    return given


def regex_getter(p: Program) -> FuncInfo:
    """the function of moclo.core._structured that compiles DNARegex(cls.structure()) for a class"""
    cached = getattr(p, "_regex_getter", None)
    if cached is not None:
        return cached
    m = p.modules.get("moclo.core._structured")
    if m is None:
        raise AnalysisError("anchor vanished: module moclo.core._structured")
    cands = []
    funcs = list(m.functions.values()) + [v for ci in m.classes.values() for v in ci.attrs.values() if isinstance(v, FuncInfo)]
    # ... or a registry function next to DNARegex itself (structure_regex(cls))
    rx = p.modules.get("moclo.regex")
    if rx is not None:
        funcs += list(rx.functions.values())
    for f in funcs:
        if any(isinstance(n, ast.Call) and _is_pattern_compiler(p, f, n.func) and n.args and isinstance(n.args[0], ast.Call)
               and isinstance(n.args[0].func, ast.Attribute) and n.args[0].func.attr == "structure" for n in ast.walk(f.node)):
            cands.append(f)
    if len(cands) != 1:
        raise AnalysisError("anchor vanished: the function compiling the structure pattern (DNARegex(cls.structure())) is not recognised: %s"
                            % [f.qualname for f in cands])
    p._regex_getter = cands[0]
    return cands[0]


def regex_slot(p: Program) -> str:
    """name of the per-class attribute the compiled pattern is kept in"""
    g = regex_getter(p)
    for n in ast.walk(g.node):
        if isinstance(n, ast.Assign) and isinstance(n.value, ast.Call) and _is_pattern_compiler(p, g, n.value.func):
            for t in n.targets:
                if isinstance(t, ast.Attribute):
                    return t.attr
    raise AnalysisError("anchor vanished: the per-class slot of the compiled structure pattern is not recognised in %s" % g.qualname)


def letter_table(p: Program):
    """(name, ast.Dict) of DNARegex's letter -> character-class table"""
    ci = p.get_class("moclo.regex.DNARegex")
    hits = []
    for nm, raw in ci.attrs.items():
        if isinstance(raw, ast.Dict) and raw.values and all(
                isinstance(v, ast.Constant) and isinstance(v.value, str) and v.value.startswith("[") for v in raw.values):
            hits.append((nm, raw))
    if len(hits) != 1:
        for nm, raw in ci.module.assigns.items():
            if isinstance(raw, ast.Dict) and raw.values and all(
                    isinstance(v, ast.Constant) and isinstance(v.value, str) and v.value.startswith("[") for v in raw.values):
                hits.append((nm, raw))
    if len(hits) != 1:
        # a table computed in the class body (comprehension over a tuple of codes, dict(zip(...)), ...): evaluated
        from .fold import Folder

        folder, hits = Folder(p), []
        cands = [(nm, raw, True) for nm, raw in ci.attrs.items() if isinstance(raw, ast.AST) and not isinstance(raw, ast.Constant)]
        cands += [(nm, raw, False) for nm, raw in ci.module.assigns.items() if isinstance(raw, ast.AST) and not isinstance(raw, ast.Constant)]
        for nm, raw, in_class in cands:
            try:
                v = folder.class_const(ci, nm) if in_class else folder._module_expr(ci, raw)
            except Exception:
                continue
            if isinstance(v, dict) and v and all(isinstance(k, str) and isinstance(x, str) and x.startswith("[") for k, x in v.items()):
                lit = ast.parse(repr(dict(v)), mode="eval").body
                hits.append((nm, lit))
    if len(hits) != 1:
        raise AnalysisError("anchor vanished: DNARegex's letter table (a dict of character classes) is not recognised")
    return hits[0]


def by_canonical_name(p: Program, qualname: str) -> Optional[FuncInfo]:
    base = "moclo.core._assembly.AssemblyManager."
    try:
        if qualname == base + "_generate_modules_map":
            return manager_phases(p)["map"]
        if qualname == base + "_generate_assembly":
            return manager_phases(p)["walk"]
        if qualname == base + "_annotate_assembly":
            return manager_phases(p)["annotate"]
        if qualname == base + "_deref_citations":
            return citation_functions(p)[0]
        if qualname == base + "_ref_citations":
            return citation_functions(p)[1]
        if qualname == "moclo.core._structured.StructuredRecord._get_regex":
            return regex_getter(p)
    except AnalysisError:
        return None
    return None


def canonical_qualname(p: Program, role: str) -> str:
    """qualified name, on the analysed tree, of the function playing `role`"""
    return {"map": lambda: manager_phases(p)["map"], "walk": lambda: manager_phases(p)["walk"],
            "annotate": lambda: manager_phases(p)["annotate"], "get_regex": lambda: regex_getter(p)}[role]().qualname


def match_slot(p: Program) -> str:
    """name of the (cached) property of StructuredRecord that holds the vetted structure match -- `_match` at the pinned
    commit; found by role when it goes by another name (a rename that keeps `_match` as a forwarding alias): the property
    defined on StructuredRecord whose evaluation runs the pattern getter"""
    cached = getattr(p, "_match_slot", None)
    if cached is not None:
        return cached
    from .loader import ClassInfo

    sr = p.get_class("moclo.core._structured.StructuredRecord")
    name = None
    if isinstance(sr.attrs.get("_match"), FuncInfo):
        name = "_match"
    else:
        getter = regex_getter(p)
        cands = []
        for nm, raw in sr.attrs.items():
            if not (isinstance(raw, FuncInfo) and raw.kind == "property"):
                continue
            seen, todo = set(), [raw]
            runs_getter = False
            while todo and not runs_getter:
                f = todo.pop()
                if id(f) in seen:
                    continue
                seen.add(id(f))
                me = f.node.args.args[0].arg if f.node.args.args else "self"
                for n in ast.walk(f.node):
                    if isinstance(n, ast.Attribute) and isinstance(n.value, ast.Name) and n.value.id == me:
                        if n.attr == getter.name:
                            runs_getter = True
                        g = sr.attrs.get(n.attr)
                        if isinstance(g, FuncInfo) and g.kind != "property":
                            todo.append(g)
            if runs_getter:
                cands.append(nm)
        if len(cands) == 1:
            name = cands[0]
    if name is None:
        raise AnalysisError("anchor vanished: StructuredRecord._match (the property that holds the structure match is not recognised)")
    p._match_slot = name
    return name


def match_call_tree(p: Program, ci, root: Optional[str] = None) -> List[FuncInfo]:
    """every function that takes part in the evaluation of ``ci()._match``: the
    implementations of `_match` on the MRO and whatever they reach through
    self.<name> (hooks, split-off helpers, a separately cached raw match),
    the pattern getter and structure() excluded"""
    from .loader import ClassInfo

    skip = {regex_getter(p).name, "structure"}
    names, todo, out = set(), [root or match_slot(p)], []
    while todo:
        nm = todo.pop()
        if nm in names:
            continue
        names.add(nm)
        for c in p.mro(ci):
            if isinstance(c, ClassInfo):
                raw = c.attrs.get(nm)
                if isinstance(raw, FuncInfo):
                    if raw not in out:
                        out.append(raw)
                    me = raw.node.args.args[0].arg if raw.node.args.args else "self"
                    for n in ast.walk(raw.node):
                        if isinstance(n, ast.Attribute) and isinstance(n.value, ast.Name) and n.value.id == me and n.attr not in names and n.attr not in skip:
                            for c2 in p.mro(ci):
                                if isinstance(c2, ClassInfo) and isinstance(c2.attrs.get(n.attr), FuncInfo):
                                    todo.append(n.attr)
                                    break
    # module-level helpers of the core package those methods call (a screen moved to core/_utils.py)
    k = 0
    while k < len(out):
        f = out[k]
        k += 1
        for n in ast.walk(f.node):
            if isinstance(n, ast.Call) and isinstance(n.func, (ast.Name, ast.Attribute)):
                try:
                    g = p.resolve_expr(f.module, n.func) if (isinstance(n.func, ast.Name) or _is_module_attr(p, f, n.func)) else None
                except Exception:
                    g = None
                if isinstance(g, FuncInfo) and g.owner is None and g.module.name.startswith("moclo.core") and g not in out:
                    out.append(g)
            elif isinstance(n, ast.Name) and isinstance(n.ctx, ast.Load):
                # a module-level function of the core package handed on as a value (a pipeline stage: `return (locate, screen)`)
                try:
                    g = p.resolve_expr(f.module, n)
                except Exception:
                    g = None
                if isinstance(g, FuncInfo) and g.owner is None and g.module.name.startswith("moclo.core") and g not in out:
                    out.append(g)
    return out


def _is_module_attr(p: Program, f: FuncInfo, e: ast.Attribute) -> bool:
    """`mod.func` where `mod` names a module of the repo"""
    from .loader import ModRef

    if not isinstance(e.value, ast.Name):
        return False
    if e.value.id in [a.arg for a in f.node.args.posonlyargs + f.node.args.args]:
        return False
    try:
        return isinstance(p.lookup(f.module.name, e.value.id), ModRef)
    except Exception:
        return False


def resistance_table(p: Program) -> str:
    """name of the module-level table (a dict literal, a read-only view of one, or a dict computed from constants) that
    find_resistance reads its answers from"""
    fr = p.get_func("moclo.registry._utils.find_resistance")
    mod = fr.module
    dicts = [nm for nm, raw in mod.assigns.items() if isinstance(raw, ast.Dict)]
    trees = [fr.node] + [g.node for g in _callees(p, fr)]

    def is_used(nm):
        return any(isinstance(n, ast.Name) and n.id == nm for t in trees for n in ast.walk(t))

    used = [nm for nm in dicts if is_used(nm)]
    if len(used) != 1:
        table = resistance_table_value(p, None)
        used = [nm for nm in table if is_used(nm)]
        if len(used) > 1:
            # a key set derived from the table is not the table: keep the names that are mappings label -> antibiotic
            used = [nm for nm in used if isinstance(table[nm], dict)]
    if len(used) != 1:
        raise AnalysisError("anchor vanished: the antibiotics table read by find_resistance is not recognised (%s)" % (used or dicts))
    return used[0]


def resistance_table_value(p: Program, name):
    """the folded value of the module-level constant `name` of find_resistance's module when it is a non-empty mapping of
    strings to strings (name=None: every such constant, by name)"""
    from .fold import Folder

    fr = p.get_func("moclo.registry._utils.find_resistance")
    mod = fr.module
    folder = Folder(p)
    holder = next(iter(mod.classes.values()), None)
    out = {}
    for nm, raw in mod.assigns.items():
        if name is not None and nm != name:
            continue
        if not isinstance(raw, ast.AST) or isinstance(raw, ast.Constant):
            continue
        try:
            v = folder.module_const(mod, raw)
        except Exception:
            continue
        if isinstance(v, dict) and v and all(isinstance(k, str) and isinstance(x, str) for k, x in v.items()):
            out[nm] = dict(v)
    return out if name is None else out.get(name)
