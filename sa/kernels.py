# coding: utf-8
"""E4 (part 3) -- the arithmetic kernels K1..K12: abstract inputs, invariants,
specifications and the comparison of derived and specified results.

Each kernel evaluates a function of the current source of /repo on abstract
inputs.  The input space is partitioned on demand: the evaluator forks on
every test its facts do not decide, so the set of paths is an exhaustive
partition of the kernel's invariant into regions (each named by the decisions
that define it).  In every region the derived interval list must equal the
specified one.
"""
from __future__ import annotations

import ast
from typing import Callable, Dict, List, Optional

from .absdom import Aff, Constraints, Piece, show_pieces
from .absint import (ACollection, AEnzymeV, AExc, AList, AMapGen, AObj, AReMatch, ARec, ASeq, AStruct, Frame, Interp,
                     LibRef, Outcome, Path, RaiseSig, RecType, ReturnSig, StepDone, Term, explore, ABoolTerm)
from .loader import AnalysisError, ClassInfo, FuncInfo

N = Aff.sym("n")
ZERO = Aff.const(0)


def region_name(path: Path) -> str:
    parts = []
    for tag, v in path.choices:
        if tag.startswith("spec "):
            tag = tag[5:]
        if tag.startswith("arith "):
            e = tag[6:]
            if v:
                parts.append(e)
            else:
                parts.append(e.replace(">=0", "<0"))
        else:
            parts.append("%s=%s" % (tag, v))
    return ",".join(parts) or "all"


def run_paths(ctx, fi: FuncInfo, make_args: Callable[[Interp], tuple], facts: List[Aff], hooks=None,
              step_loop=None, post=None) -> List[Outcome]:
    """Explore all paths of ``fi`` on abstract arguments.  ``post(I, outcome)``
    computes the specification and compares *inside* the path, so that tests
    the specification needs fork the region like any other test; it returns a
    list of (rule, construct, ok, detail) tuples."""

    def run(path: Path) -> Outcome:
        I = Interp(ctx.program, path, hooks=dict(hooks or {}))
        I.step_loop = None
        try:
            args, kwargs = make_args(I)
        except RaiseSig as rs:
            out = Outcome("setup-abort", rs.exc, path)
            out.interp = I
            out.checks = []
            return out
        I.step_loop = step_loop
        I.kernel_args = args
        try:
            v = I.call_function(fi, list(args), dict(kwargs))
            out = Outcome("return", v, path)
        except RaiseSig as rs:
            out = Outcome("raise", rs.exc, path)
        except StepDone as sd:
            out = Outcome("step", None, path, env=sd.env)
        out.interp = I
        path.in_spec = True
        out.checks = post(I, out) if post is not None else []
        return out

    return explore(run, Constraints(facts))


def emit(ctx, outs: List[Outcome], where: str, prefix: str = ""):
    r = ctx.report
    outs = [o for o in outs if o.kind != "setup-abort"]
    if not outs:
        raise AnalysisError("no feasible path explored (%s)" % where)
    for o in outs:
        reg = prefix + region_name(o.path)
        for rule, construct, ok, detail in o.checks:
            r.ob(rule, construct, ok, detail, where, reg)


def pieces_of(v):
    if isinstance(v, (ASeq, ARec)):
        return v.pieces
    return None


# ---------------------------------------------------------------------------
# shared abstract inputs


def circ_record(name="W", ident="rec") -> ARec:
    return ARec(True, [Piece(name, ZERO, N)], Term(ident), ctor="input")


def shift_summary(fr: Frame, op, l, r, node):
    """Summary of CircularRecord.__lshift__/__rshift__ (proved by K3/K6):
    rec << k  ==  rot_{-k mod n}: the record re-read from position k mod n."""
    if not (isinstance(l, ARec) and l.circular):
        return NotImplemented
    I = fr.I
    from .absint import SUMMARIES_USED

    SUMMARIES_USED.add("shift")
    if not isinstance(r, (Aff, int)):
        fr.unsupported(node, "rotation amount %r" % (r,))
    k = Aff.of(r)
    n = I.seq_len(l.pieces)
    if isinstance(op, ast.RShift):
        k = -k
    k0 = I.mod(k, n)
    pieces = I.slice_pieces(l.pieces, k0, None) + I.slice_pieces(l.pieces, None, k0)
    out = ARec(True, pieces, l.ident, deriv=("rot", l.deriv, k0), ctor="rotation")
    out.attrs = {a: v for a, v in l.attrs.items() if a != "features"}
    return out


# ---------------------------------------------------------------------------
# K1  SeqMatch.group


def k1_group(ctx, pid: str):
    r = ctx.report
    p = ctx.program
    fi = p.get_func("moclo.regex.SeqMatch.group")
    cls = p.get_class("moclo.regex.SeqMatch")
    a, b = Aff.sym("a"), Aff.sym("b")
    rule = "K1.group-interval"
    total = 0
    from .kernels2 import seqmatch_templates

    templates = seqmatch_templates(ctx)
    # circular search: the text is doubled, starts in [0, n), window one turn; linear search: spans lie inside the text
    CIRC = [N - 1, a, b - a, a + N - b, N.scale(2) - 1 - b]
    LIN = [N - 1, a, b - a, N - b]
    scenarios = []
    for (kind, linear), tmpl in sorted(templates.items(), key=repr):
        doubled = kind == "CircularRecord" or linear is False
        scenarios.append(("%s,linear=%s" % (kind, {None: "default"}.get(linear, linear)), kind, tmpl, CIRC if doubled else LIN))
    for scen, rec_kind, tmpl, facts in scenarios:
        def make_args(I, rec_kind=rec_kind, tmpl=tmpl):
            if rec_kind == "CircularRecord":
                rec = circ_record()
            elif rec_kind == "SeqRecord":
                rec = ARec(False, [Piece("W", ZERO, N)], Term("rec"))
            else:
                rec = ASeq("Seq", [Piece("W", ZERO, N)])
            m = AReMatch(None, {}, generic_group=(a, b))
            attrs = {k: (m if v == "<match>" else rec if v == "<target>" else v) for k, v in tmpl.items()}
            obj = AObj(cls, attrs)
            return (obj, Term("g")), {}

        def post(I, o):
            if o.kind != "return" or pieces_of(o.value) is None:
                return [(rule, fi.qualname, False, "group() ends with %r instead of a sub-sequence" % (o,))]
            spec = I.circular_interval("W", N, a, b)
            got = I.canon(pieces_of(o.value))
            return [(rule, fi.qualname, I.same_pieces(got, spec),
                     "group(i) with span [a,b) must be the circular interval: got %s, spec %s" % (show_pieces(got), show_pieces(spec)))]

        outs = run_paths(ctx, fi, make_args, facts, post=post)
        total += len(outs)
        emit(ctx, outs, fi.where(), scen + ":")
    # span/start/end delegate unchanged
    for name in ("span", "start", "end"):
        f2 = p.get_func("moclo.regex.SeqMatch.%s" % name)

        def make_args2(I, name=name):
            m = AReMatch(None, {0: (a, b)}, generic_group=(a, b))
            from .kernels2 import new_seqmatch

            obj = new_seqmatch(p, m, circ_record())
            return ((obj, Term("g")) if name == "span" else (obj,)), {}

        def post2(I, o, name=name, f2=f2):
            want = {"span": (a, b), "start": a, "end": b}[name]
            return [("K1.delegation", f2.qualname, o.kind == "return" and o.value == want,
                     "%s() must return the match's own %s: got %r" % (name, name, o.value))]

        emit(ctx, run_paths(ctx, f2, make_args2, [N - 1, a, b - a], post=post2), f2.where())
    r.floor(rule, 8)
    return total


# ---------------------------------------------------------------------------
# K3/K4/K5/K6  rotation


def _rot_inputs(I, with_features: str):
    rec = circ_record()
    rec.attrs["letter_annotations"] = AMapGen("track", ASeq("list", [Piece("V", ZERO, N)]))
    rec.attrs["id"] = Term("id", Term("rec"))
    rec.attrs["name"] = Term("name", Term("rec"))
    rec.attrs["description"] = Term("description", Term("rec"))
    rec.attrs["dbxrefs"] = Term("dbxrefs", Term("rec"))
    rec.attrs["annotations"] = Term("annotations", Term("rec"))
    if with_features == "none":
        rec.attrs["features"] = AList([])
    return rec


def k3_rshift(ctx, pid: str, which=("K3", "K4")):
    """K3 sequence, K4 letter annotations, carry-over: evaluated on
    __rshift__ and __lshift__ for an arbitrary integer amount."""
    r = ctx.report
    p = ctx.program
    k = Aff.sym("any:k")
    if "K3" in which:
        ctx.established.add("shift")
    for meth, sign in (("__rshift__", 1), ("__lshift__", -1)):
        fi = p.get_func("moclo.record.CircularRecord.%s" % meth)

        def make_args(I):
            return (_rot_inputs(I, "none"), k), {}

        hooks = {"inline_record_methods": True, "shift": _inline_shift}
        kid = "K3" if meth == "__rshift__" else "K6"

        def post(I, o, fi=fi, sign=sign, kid=kid):
            out = []
            if o.kind != "return" or not isinstance(o.value, ARec):
                return [("%s.rotation" % kid, fi.qualname, False, "rotation ends with %r" % (o,))]
            res: ARec = o.value
            # specification: >> k moves the last (k mod n) letters to the front
            kk = k if sign == 1 else -k
            rr = I.mod(kk, N)
            spec = I.canon([Piece("W", N - rr, N), Piece("W", ZERO, N - rr)])
            got = I.canon(res.pieces)
            if "K3" in which:
                out.append(("%s.rotation" % kid, fi.qualname, I.same_pieces(got, spec),
                            "%s k must be rot_{%sk mod n}: got %s, spec %s" % (">>" if sign == 1 else "<<", "" if sign == 1 else "-", show_pieces(got), show_pieces(spec))))
                out.append(("%s.circular-type" % kid, fi.qualname, res.circular,
                            "the rotated value must be circular-typed (self or type(self)(...)), got a linear record (%s)" % (res.deriv,)))
            same_obj = res is I.kernel_args[0]
            if "K4" in which:
                la = res.attrs.get("letter_annotations")
                if same_obj:
                    okla, det = True, ""
                elif isinstance(la, AMapGen) and isinstance(la.value, ASeq):
                    gv = I.canon(la.value.pieces)
                    sv = I.canon([Piece("V", N - rr, N), Piece("V", ZERO, N - rr)])
                    okla = I.same_pieces(gv, sv)
                    det = "per-letter annotations must rotate with the sequence: got %s, spec %s" % (show_pieces(gv), show_pieces(sv))
                else:
                    okla, det = False, "letter_annotations of the rotated record is %r" % (la,)
                out.append(("K4.letter-annotations", fi.qualname, okla, det))
            if "carry" in which and not same_obj:
                for field in ("id", "name", "annotations"):
                    v = res.attrs.get(field)
                    want = Term(field, Term("rec"))
                    out.append(("K3.carry-over", "%s#%s" % (fi.qualname, field), isinstance(v, Term) and v == want,
                                "rotated record must carry the source's %s, got %r" % (field, v)))
                for field in ("description", "dbxrefs"):
                    v = res.attrs.get(field)
                    if not (isinstance(v, Term) and v == Term(field, Term("rec"))):
                        r.note("information only: rotated record does not carry %s (got %r)" % (field, v))
            return out

        emit(ctx, run_paths(ctx, fi, make_args, [N - 1], hooks=hooks, post=post), fi.where())


def _inline_shift(fr: Frame, op, l, r, node):
    """inside the rotation kernels ``self >> x`` / ``self << x`` run the
    repo's own operator."""
    if isinstance(l, ARec) and l.circular:
        name = "__lshift__" if isinstance(op, ast.LShift) else "__rshift__"
        fi = fr.I.p.get_func("moclo.record.CircularRecord.%s" % name)
        return fr.I.call_function(fi, [l, r], {}, node)
    return NotImplemented


# ---------------------------------------------------------------------------
# K7/K8/K9/K10  fragments and accessors


def _structured_obj(I: Interp, ci: ClassInfo, name: str, spans: Dict[int, tuple], five_prime=True, plain=False) -> AObj:
    rec = circ_record("W:" + name, ident=name)
    if plain:
        # the wrapped record is a plain SeqRecord (no topology annotation: searched circularly, cannot be rotated)
        rec = ARec(False, [Piece("W:" + name, ZERO, N)], Term(name), ctor="input")
    rec.attrs["id"] = Term("id", Term(name))
    # (an accessor that rotates the record through a helper of its own instead of `<<` walks the features: one generic
    # feature without location stands for them -- where features go is K5's business, not the fragment's letters)
    rec.attrs["feature_coll"] = ACollection("features", lambda: AStruct("SeqFeature", location=None, type=Term("ftype"), id=Term("fid"), qualifiers=Term("fquals")))
    sm_cls = I.p.get_class("moclo.regex.SeqMatch")
    rm = AReMatch(ASeq("str", [Piece("W:" + name, ZERO, N), Piece("W:" + name, ZERO, N)]), spans)
    from .kernels2 import new_seqmatch

    sm = new_seqmatch(I.p, rm, rec)
    obj = AObj(ci, {"record": rec, "seq": ASeq("Seq", rec.pieces), "cutter": AEnzymeV(five_prime)}, name=name)
    # the class's own _match is what the structure pattern matched (its screen is C04/C17 business)
    from .roles import match_slot

    obj.attrs[match_slot(I.p)] = sm
    return obj


S0, S1, S2, S3, E3 = (Aff.sym(x) for x in ("s0", "s1", "s2", "s3", "e3"))


def match_facts() -> List[Aff]:
    """Invariants of a structure match (from K2 and the pattern geometry):
    start i = s0 in [0, n); groups adjacent s1 <= s2 <= s3 <= e3; the match
    [s0, e0) lies in one turn: e3 <= s0 + n; overhangs non-empty."""
    return [N - 1, S0, N - 1 - S0, S1 - S0, S2 - S1 - 1, S3 - S2, E3 - S3 - 1, S0 + N - E3]


def _spans():
    return {0: (S0, E3), 1: (S1, S2), 2: (S2, S3), 3: (S3, E3)}


FRAG_HOOKS = {"shift": shift_summary}


def frag_hooks(p) -> dict:
    """FRAG_HOOKS plus a stand-in for the structure search: an accessor that searches again on its own (instead of
    reading the vetted `_match`) finds the same abstract match, so that what it does with it can still be judged"""
    hooks = dict(FRAG_HOOKS)
    try:
        from .roles import regex_getter

        rx_cls = p.get_class("moclo.regex.DNARegex")

        def get_regex(I, f, args, kwargs):
            return AObj(rx_cls, {}, name="rx")

        def search(I, f, args, kwargs):
            I.path.effects.append(("raw-search",))
            from .roles import match_slot

            return I.kernel_args[0].attrs.get(match_slot(p))

        hooks[regex_getter(p).qualname] = get_regex
        from .roles import search_entries

        for raw_, _ps, _skip in search_entries(p):
            hooks[raw_.qualname] = search
    except AnalysisError:
        pass
    return hooks


def vetted(o, name="x") -> bool:
    """the accessor read the object's vetted `_match` (structure found *and* screened), not a match it obtained otherwise"""
    from .roles import match_slot

    slot = match_slot(o.interp.p) if getattr(o, "interp", None) is not None else "_match"
    return any(e[0] == "getattr" and e[1] == name and e[2] == slot for e in o.path.effects) and not any(e[0] == "raw-search" for e in o.path.effects)


def k7_fragments(ctx, pid: str, which=("K7", "K8", "K9", "K10")):
    r = ctx.report
    p = ctx.program
    mod_cls = p.get_class("moclo.core.modules.AbstractModule")
    vec_cls = p.get_class("moclo.core.vectors.AbstractVector")
    facts = match_facts()

    def check_fragment(kid, ci, meth, spec_fn, want_source=True):
        owner, raw = p.class_attr_def(ci, meth)
        if not isinstance(raw, FuncInfo):
            raise AnalysisError("anchor vanished: %s.%s" % (ci.qualname, meth))

        def make_args(I):
            return (_structured_obj(I, ci, "x", _spans()),), {}

        def post(I, o):
            out = []
            if o.kind != "return" or pieces_of(o.value) is None:
                return [("%s.fragment" % kid, raw.qualname, False, "%s ends with %r" % (meth, o))]
            got = I.canon(pieces_of(o.value))
            spec = spec_fn(I)
            out.append(("%s.fragment" % kid, raw.qualname, I.same_pieces(got, spec),
                        "%s must be %s: got %s" % (meth, show_pieces(spec), show_pieces(got))))
            out.append(("%s.vetted-match" % kid, raw.qualname, vetted(o),
                        "%s must work from the vetted self._match (structure found and screened for illegal sites), not from a match obtained otherwise" % meth))
            # the fragment is a linear slice and must keep saying so: nothing writes a topology into its annotations, nor
            # pours another record's annotations (which may declare a circle) into them
            claims = []
            for e in o.path.effects:
                if not (len(e) > 1 and isinstance(e[1], Term) and e[1].op == "annotations" and e[1].args
                        and isinstance(e[1].args[0], Term) and e[1].args[0].op == "slice-of"):
                    continue
                if e[0] == "setitem" and e[2] == "topology" and not (isinstance(e[3], str) and e[3].lower() == "linear"):
                    claims.append("[%r] = %r" % (e[2], e[3]))
                if e[0] == "mutate" and e[2] in ("update", "__ior__"):
                    for a in e[3]:
                        if isinstance(a, dict) and not ("topology" in a and not (isinstance(a["topology"], str) and a["topology"].lower() == "linear")):
                            continue
                        claims.append("%s(%r)" % (e[2], a))
            out.append(("%s.fragment-annotations" % kid, raw.qualname, not claims,
                        "the fragment is a linear slice of the circle and must not be made to claim another topology: %s" % "; ".join(claims)))
            if want_source:
                v = o.value
                feats = v.added_features if isinstance(v, ARec) else []
                L = I.seq_len(v.pieces) if isinstance(v, ARec) else None
                okf = len(feats) == 1 and _is_source_feature(I, feats[0], L, "x")
                out.append(("K12.source-feature", raw.qualname, okf,
                            "the fragment must receive exactly one 'source' feature spanning [0, len(fragment)) labelled with the id of the record it was cut from; got %r" % (feats,)))
                d = v.deriv if isinstance(v, ARec) else None
                oks = bool(d) and d[0] == "slice" and isinstance(d[1], tuple) and d[1][0] in ("rot", "input")
                out.append(("%s.slice-of-rotation" % kid, raw.qualname, oks,
                            "the fragment must be one slice of the (rotated) record, not a concatenation of pieces, so that Biopython keeps exactly the contained features; derivation: %r" % (d,)))
            return out

        emit(ctx, run_paths(ctx, raw, make_args, facts, hooks=frag_hooks(p), post=post), raw.where())

        # the same accessor on a plain SeqRecord (the library wraps whatever it is given): nothing, or the right fragment
        def make_args_plain(I):
            return (_structured_obj(I, ci, "x", _spans(), plain=True),), {}

        def post_plain(I, o):
            if o.kind == "raise":
                return [("%s.fragment-plain-record" % kid, raw.qualname, True, "")]
            if pieces_of(o.value) is None:
                return [("%s.fragment-plain-record" % kid, raw.qualname, False, "%s on a plain SeqRecord ends with %r" % (meth, o))]
            got = I.canon(pieces_of(o.value))
            spec = spec_fn(I)
            return [("%s.fragment-plain-record" % kid, raw.qualname, I.same_pieces(got, spec),
                     "on a plain (non-circular) SeqRecord %s must either fail or still be %s (the structure is searched circularly, so the "
                     "spans can run past the end): got %s" % (meth, show_pieces(spec), show_pieces(got)))]

        emit(ctx, run_paths(ctx, raw, make_args_plain, facts, hooks=FRAG_HOOKS, post=post_plain), raw.where(), "plain:")

    # the base classes, and every class of the kits that resolves the method to another implementation (an override in a
    # kit module is analysed like the base implementation)
    def owners(base, meth):
        out, seen = [base], {id(p.class_attr_def(base, meth)[1])}
        for kc in ctx.inventory:
            if p.is_subclass(kc.ci, base):
                raw = p.class_attr_def(kc.ci, meth)[1]
                if isinstance(raw, FuncInfo) and id(raw) not in seen:
                    seen.add(id(raw))
                    out.append(kc.ci)
        return out

    if "K7" in which:
        for ci in owners(mod_cls, "target_sequence"):
            check_fragment("K7", ci, "target_sequence", lambda I: I.circular_interval("W:x", N, S1, S3))
    if "K8" in which:
        for ci in owners(vec_cls, "target_sequence"):
            check_fragment("K8", ci, "target_sequence", lambda I: I.circular_interval("W:x", N, S3, S1 + N))
    if "K9" in which:
        for ci in owners(vec_cls, "placeholder_sequence"):
            check_fragment("K9", ci, "placeholder_sequence", lambda I: I.circular_interval("W:x", N, S1, S3),
                           want_source=False)
    if "K10" in which:
        k10_accessors(ctx, pid)


def _is_source_feature(I: Interp, f, L, name: str) -> bool:
    if not (isinstance(f, AStruct) and f.kind == "SeqFeature"):
        return False
    if f.fields.get("type") != "source":
        return False
    loc = f.fields.get("location")
    if not (isinstance(loc, AStruct) and loc.kind == "FeatureLocation"):
        return False
    st, en = loc.fields.get("start"), loc.fields.get("end")
    try:
        # (equal under the facts of the region: a length computed as end - start and one computed piece by piece agree)
        if not I.aff_eq(Aff.of(st), ZERO) or not I.aff_eq(Aff.of(en), Aff.of(L)):
            return False
    except TypeError:
        return False
    q = f.fields.get("qualifiers")
    if not isinstance(q, dict):
        return False
    want = Term("id", Term(name))
    if q.get("plasmid") != want:
        return False
    lab = q.get("label")
    if not (isinstance(lab, Term) and repr(want) in repr(lab)):
        return False
    return True


def k10_accessors(ctx, pid: str):
    r = ctx.report
    p = ctx.program
    facts = match_facts()
    table = (
        ("moclo.core.modules.AbstractModule", "overhang_start", 1),
        ("moclo.core.modules.AbstractModule", "overhang_end", 3),
        ("moclo.core.vectors.AbstractVector", "overhang_start", 3),
        ("moclo.core.vectors.AbstractVector", "overhang_end", 1),
    )
    full = []
    for cname, meth, g in table:
        base = p.get_class(cname)
        full.append((base, meth, g))
        seen = {id(p.class_attr_def(base, meth)[1])}
        for kc in ctx.inventory:
            if p.is_subclass(kc.ci, base):
                raw = p.class_attr_def(kc.ci, meth)[1]
                if isinstance(raw, FuncInfo) and id(raw) not in seen:
                    seen.add(id(raw))
                    full.append((kc.ci, meth, g))
    for ci, meth, g in full:
        cname = ci.qualname
        owner, raw = p.class_attr_def(ci, meth)
        if not isinstance(raw, FuncInfo):
            raise AnalysisError("anchor vanished: %s.%s" % (cname, meth))

        def make_args(I, ci=ci):
            return (_structured_obj(I, ci, "x", _spans()),), {}

        def post(I, o, g=g, raw=raw, ci=ci, meth=meth):
            lo, hi = _spans()[g]
            spec = I.circular_interval("W:x", N, lo, hi)
            got = I.canon(pieces_of(o.value)) if o.kind == "return" and pieces_of(o.value) is not None else None
            ok = got is not None and I.same_pieces(got, spec) and isinstance(o.value, ASeq)
            return [("K10.accessor", raw.qualname, ok,
                     "%s.%s must report group %d as a sequence (%s): got %s" % (ci.name, meth, g, show_pieces(spec), show_pieces(got) if got is not None else o)),
                    ("K10.vetted-match", raw.qualname, vetted(o),
                     "%s.%s must work from the vetted self._match (structure found and screened for illegal sites), not from a match obtained otherwise" % (ci.name, meth))]

        emit(ctx, run_paths(ctx, raw, make_args, facts, hooks=frag_hooks(p), post=post), raw.where())


KERNELS = {
    "K1": k1_group,
}


def run_kernels(ctx, ids: List[str], pid: str):
    for k in ids:
        ctx.guard(_run_kernel, ctx, k, pid)


def _run_kernel(ctx, k: str, pid: str):
    done = set()
    for k in [k]:
        if k in done:
            continue
        done.add(k)
        if k == "K1":
            k1_group(ctx, pid)
        elif k in ("K3", "K6"):
            if "K3" in done and "K6" in done and k == "K6":
                continue
            k3_rshift(ctx, pid, which=("K3",))
            done.update(("K3", "K6"))
        elif k == "K4":
            k3_rshift(ctx, pid, which=("K4",))
        elif k == "K3carry":
            k3_rshift(ctx, pid, which=("carry",))
        elif k in ("K7", "K8", "K9", "K10"):
            k7_fragments(ctx, pid, which=(k,))
        else:
            from . import kernels2

            kernels2.run_kernel(ctx, k, pid)
