# coding: utf-8
"""E5 -- flow rules decided with the abstract interpreter: assemble entry
(K17), product annotation (K18), reverse_complement forwarding (C14),
constructor and slice of CircularRecord (C15), pattern transcription (C16),
the guard on + (C15)."""
from __future__ import annotations

import ast
import re
from typing import Dict, List, Optional

from .absdom import Aff, Piece
from .absint import (ACollection, AExc, AList, AMap, AObj, ARec, ASeq, AStruct, BoundMethod, DCDict, Frame, Interp,
                     RaiseSig, RecType, Term, AMapGen)
from .kernels import N, ZERO, circ_record, emit, run_paths, region_name
from .kernels2 import _entity, _entity_hooks, _is_exc, _mgr_world, strip_norm
from .loader import AnalysisError, ClassInfo, Ext, FuncInfo


# ---------------------------------------------------------------------------
# K17  AbstractVector.assemble: the manager receives what the caller passed


def k17_entry(ctx, pid: str):
    p, mgr, mod_cls, vec_cls = _mgr_world(ctx)
    base_fi = p.get_func("moclo.core.vectors.AbstractVector.assemble")
    todo, seen = [(vec_cls, base_fi)], {id(base_fi)}
    for kc in ctx.inventory:
        if p.is_subclass(kc.ci, vec_cls):
            raw = p.class_attr_def(kc.ci, "assemble")[1]
            if isinstance(raw, FuncInfo) and id(raw) not in seen:
                seen.add(id(raw))
                todo.append((kc.ci, raw))
    for owner_cls, fi in todo:
        _k17_one(ctx, pid, p, mgr, mod_cls, owner_cls, fi)


def _k17_one(ctx, pid, p, mgr, mod_cls, vec_cls, fi):
    hooks = _entity_hooks(p)
    ID, NAME = Term("ID"), Term("NAME")

    def stub_assemble(I, f, args, kwargs):
        I.the_mgr = args[0]
        return Term("result-of-assemble")

    hooks["moclo.core._assembly.AssemblyManager.assemble"] = stub_assemble

    for given in (True, False):
        def make_args(I, given=given):
            V = _entity(vec_cls, "V")
            m1, m2 = _entity(mod_cls, "m1"), _entity(mod_cls, "m2")
            I.ents = (V, m1, m2)
            return (V, m1, m2), ({"id": ID, "name": NAME} if given else {})

        def post(I, o, given=given):
            name = fi.qualname
            eq = [v for t, v in o.path.choices if t.startswith("equal ")]
            if eq and eq[0]:
                return [("K17.entry", name, o.kind == "raise" and _is_exc(p, o.value, "moclo.errors.InvalidSequence"),
                         "a vector with coinciding overhangs must be refused before anything is assembled: %r" % (o,))]
            if not eq:
                return [("K17.entry", name, False, "assemble() builds the product without the vector's overhangs being compared first")]
            out = []
            m = getattr(I, "the_mgr", None)
            ok = o.kind == "return" and o.value == Term("result-of-assemble") and isinstance(m, AObj)
            out.append(("K17.entry", name, ok, "assemble() must return what the manager's assemble() returns: %r" % (o,)))
            if not ok:
                return out
            V, m1, m2 = I.ents
            out.append(("K17.vector", name, m.attrs.get("vector") is V, "the manager's vector must be the receiver, got %r" % (m.attrs.get("vector"),)))
            def seq_items(v):
                # a list or a tuple of the very objects (an immutable copy holds the same modules)
                if isinstance(v, AList) and not v.generic:
                    return list(v.items)
                if isinstance(v, tuple):
                    return list(v)
                return None

            mods = m.attrs.get("modules")
            mi = seq_items(mods)
            okm = mi is not None and len(mi) == 2 and mi[0] is m1 and mi[1] is m2
            out.append(("K17.modules", name, okm, "the manager must receive every module passed (first and *rest): %r" % (mods,)))
            els = m.attrs.get("elements")
            ei = seq_items(els)
            oke = ei is not None and {id(x) for x in ei} == {id(V), id(m1), id(m2)} and len(ei) == 3
            out.append(("K17.elements", name, oke, "the elements whose citations are rewritten must be all modules and the vector: %r" % (els,)))
            want_id, want_name = (ID, NAME) if given else ("assembly", "assembly")
            out.append(("K17.id", name, m.attrs.get("id") == want_id, "the requested id must reach the manager's id, got %r" % (m.attrs.get("id"),)))
            out.append(("K17.name", name, m.attrs.get("name") == want_name, "the requested name must reach the manager's name, got %r" % (m.attrs.get("name"),)))
            return out

        emit(ctx, run_paths(ctx, fi, make_args, [], hooks=hooks, post=post), fi.where(), "given:" if given else "default:")
    ctx.report.floor("K17.id", 2)


# ---------------------------------------------------------------------------
# K18  _annotate_assembly


def annotate_summary(ctx) -> dict:
    """What _annotate_assembly does to the annotations the product already
    carries (K16 composes the phases of assemble() with it): kept and updated
    key by key, or replaced / emptied wholesale."""
    cached = getattr(ctx, "_annotate_summary", None)
    if cached is not None:
        return cached
    p, mgr, mod_cls, vec_cls = _mgr_world(ctx)
    fi = p.get_func("moclo.core._assembly.AssemblyManager._annotate_assembly")

    def make_args(I):
        V = _entity(vec_cls, "V")
        mods = ACollection("modules", lambda: _entity(mod_cls, "m"))
        prod = ARec(True, [Piece("PRODUCT", ZERO, Aff.sym("len:product"))], Term("product"))
        I.prod = prod
        from .kernels2 import build_manager
        obj = build_manager(I, mgr, V, mods, id_=Term("ID"), name=Term("NAME"))
        obj.attrs["modules"] = mods
        obj.attrs["__open__"] = True
        return (obj, prod), {}

    summary = {"replaces_annotations": False, "drops_references": False, "where": fi.where()}

    def post(I, o):
        ann_t = Term("annotations", Term("product"))
        if "annotations" in I.prod.attrs and I.prod.attrs["annotations"] != ann_t:
            summary["replaces_annotations"] = True
        for e in o.path.effects:
            if e[0] == "mutate" and isinstance(e[1], Term) and e[1] == ann_t and e[2] in ("clear",):
                summary["replaces_annotations"] = True
            if e[0] == "mutate" and isinstance(e[1], Term) and e[1] == ann_t and e[2] in ("pop",) and e[3] and e[3][0] == "references":
                summary["drops_references"] = True
            if e[0] == "setitem" and isinstance(e[1], Term) and e[1] == ann_t and e[2] == "references":
                summary["drops_references"] = True
            if e[0] == "delitem" and isinstance(e[1], Term) and e[1] == ann_t:
                summary["drops_references"] = True
        return []

    run_paths(ctx, fi, make_args, [], hooks=_entity_hooks(p), post=post)
    ctx._annotate_summary = summary
    return summary


def k18_annotate(ctx, pid: str):
    p, mgr, mod_cls, vec_cls = _mgr_world(ctx)
    fi = p.get_func("moclo.core._assembly.AssemblyManager._annotate_assembly")
    ID, NAME = Term("ID"), Term("NAME")

    def make_args(I, given=True):
        V = _entity(vec_cls, "V")
        mods = ACollection("modules", lambda: _entity(mod_cls, "m"))
        prod = ARec(True, [Piece("PRODUCT", ZERO, Aff.sym("len:product"))], Term("product"))
        I.prod = prod
        from .kernels2 import build_manager
        obj = build_manager(I, mgr, V, mods, **({"id_": ID, "name": NAME} if given else {}))
        obj.attrs["modules"] = mods
        obj.attrs["__open__"] = True
        return (obj, prod), {}

    def post_defaults(I, o):
        # a manager built without id / name: what it puts on the product must still be text (SeqRecord rebuilds --
        # rotation, reverse complement -- refuse anything else)
        name = fi.qualname
        if o.kind == "raise":
            return [("K18.annotate", name, False, "annotation raises %r" % (o.value,))]
        out = []
        for a in ("id", "name"):
            v = I.prod.attrs.get(a)
            out.append(("K18." + a, name, isinstance(v, str) and bool(v), "a manager built without %s must still give the product a text %s, got %r" % (a, a, v)))
        return out

    def post(I, o):
        name = fi.qualname
        out = []
        if o.kind == "raise":
            return [("K18.annotate", name, False, "annotation raises %r" % (o.value,))]
        prod = I.prod
        out.append(("K18.id", name, prod.attrs.get("id") == ID, "product.id must be the requested id, got %r" % (prod.attrs.get("id"),)))
        out.append(("K18.name", name, prod.attrs.get("name") == NAME, "product.name must be the requested name, got %r" % (prod.attrs.get("name"),)))
        ants = {}
        for e in o.path.effects:
            if e[0] == "setitem" and isinstance(e[1], Term) and e[1] == Term("annotations", Term("product")):
                ants[e[2]] = e[3]
            if e[0] == "mutate" and isinstance(e[1], Term) and e[1] == Term("annotations", Term("product")) and e[2] == "update":
                for a in e[3]:
                    if isinstance(a, AList) and not a.generic and all(isinstance(x, tuple) and len(x) == 2 for x in a.items):
                        a = dict(a.items)  # update([(key, value), ...])
                    if isinstance(a, (tuple, list)) and all(isinstance(x, tuple) and len(x) == 2 for x in a):
                        a = dict(a)  # update(((key, value), ...))
                    if not isinstance(a, dict):
                        raise AnalysisError("%s: annotations.update(%r) is not followed" % (fi.where(), a))
                    ants.update(a)
        if isinstance(prod.attrs.get("annotations"), dict):
            ants.update(prod.attrs["annotations"])
        out.append(("K18.topology", name, ants.get("topology") == "circular", "the product must be declared circular, topology=%r" % (ants.get("topology"),)))
        mt = ants.get("molecule_type")
        out.append(("K18.molecule-type", name, isinstance(mt, str) and bool(mt.strip()) and "RNA" not in mt.upper(),
                    "the product is a DNA construct: GenBank needs a molecule_type and Biopython complements by it, got %r" % (mt,)))
        com = ants.get("comment")
        items = com.items if isinstance(com, AList) else ([com] if com is not None else [])
        txt = [repr(x) for x in items]
        okv = any("id(V)" in t for t in txt)
        okm = any(("map(modules," in t or "generic<modules>" in t) and "id(m)" in t and "filter" not in t and "|filtered" not in t for t in txt)
        edited = [e for e in o.path.effects if e[0] in ("setitem", "mutate") and isinstance(e[1], Term) and any(repr(e[1]) in t for t in txt)]
        if edited:
            okm = False  # the list that is joined was edited in place (shortened, abbreviated ...) before the join
        out.append(("K18.comment-vector", name, okv, "the comment must name the vector: %r" % (txt,)))
        out.append(("K18.comment-modules", name, okm, "the comment must name every supplied module (a join over all of self.modules): %r" % (txt,)))
        return out

    emit(ctx, run_paths(ctx, fi, make_args, [], hooks=_entity_hooks(p), post=post), fi.where())
    emit(ctx, run_paths(ctx, fi, lambda I: make_args(I, False), [], hooks=_entity_hooks(p), post=post_defaults), fi.where(), "defaults:")
    ctx.report.floor("K18.topology", 1)
    ctx.report.floor("K18.name", 2)


# ---------------------------------------------------------------------------
# C14  reverse_complement


RC_PARAMS = ["id", "name", "description", "features", "annotations", "letter_annotations", "dbxrefs"]
RC_DEFAULTS = {"id": False, "name": False, "description": False, "features": True, "annotations": False,
               "letter_annotations": True, "dbxrefs": False}


def revcomp_wrapper_rule(ctx, rule: str):
    p = ctx.program
    fi = p.get_func("moclo.record.CircularRecord.reverse_complement")

    def lib_super(fr, rec, name, args, kwargs, node):
        if name != "reverse_complement":
            return NotImplemented
        kw = dict(zip(RC_PARAMS, args))
        kw.update(kwargs)
        fr.I.path.effects.append(("super-revcomp", kw))
        # T3: SeqRecord.reverse_complement builds its result with the subclass constructor
        out = ARec(True, rec.pieces, rec.ident, deriv=("revcomp", rec.deriv), ctor="SeqRecord.reverse_complement")
        out.attrs["feature_coll"] = ACollection("lib-features", lambda: Term("lib-feature"))
        fr.I.lib_result = out
        return out

    for mode in ("explicit", "defaults"):
        def make_args(I, mode=mode):
            rec = circ_record()
            kw = {k: Term("p:" + k) for k in RC_PARAMS} if mode == "explicit" else {}
            return (rec,), kw

        def post(I, o, mode=mode):
            name = fi.qualname
            out = []
            calls = [e for e in o.path.effects if e[0] == "super-revcomp"]
            if o.kind != "return" or len(calls) != 1:
                return [(rule + ".delegation", name, False, "reverse_complement must delegate once to SeqRecord.reverse_complement: %r" % (o,))]
            kw = calls[0][1]
            for k in RC_PARAMS:
                want = Term("p:" + k) if mode == "explicit" else RC_DEFAULTS[k]
                got = kw.get(k, RC_DEFAULTS[k])
                out.append((rule + ".forwarding", "%s#%s" % (name, k), got == want and type(got) is type(want),
                            "parameter %s must be forwarded unchanged (%s): library receives %r, expected %r" % (k, mode, got, want)))
            v = o.value
            altered = [e for e in o.path.effects if e[0] == "setattr" and ("lib-feature" in repr(e[1]) or e[1] is getattr(I, "lib_result", None) or e[1] is v)]
            std = {"id", "name", "description"}
            hidden = [e for e in altered if isinstance(e[1], ARec) and e[2] not in std]
            out.append((rule + ".library-result-as-is", name, not [e for e in altered if e not in hidden],
                        "the override rewrites what the library computed (%s): the reverse complement of a feature is then repo arithmetic outside the library's contract"
                        % sorted({"%s.%s" % ("feature" if "lib-feature" in repr(e[1]) else "record", e[2]) for e in altered if e not in hidden})))
            out.append((rule + ".no-hidden-state", name, not hidden,
                        "the override keeps state on the records (%s): a later call can be answered from it instead of from the record's current content"
                        % sorted({e[2] for e in hidden})))
            okc = isinstance(v, ARec) and v.circular and v.deriv and ("revcomp" in repr(v.deriv))
            out.append((rule + ".circular-type", name, okc, "the reverse complement must be circular-typed (the library result as is, or wrapped in type(self)/CircularRecord): got %r" % (v,)))
            return out

        emit(ctx, run_paths(ctx, fi, make_args, [N - 1], hooks={"lib_super": lib_super}, post=post), fi.where(), mode + ":")
    ctx.report.floor(rule + ".forwarding", 14)


# ---------------------------------------------------------------------------
# C15  constructor, slice, +


def ctor_rule(ctx, rule: str):
    p = ctx.program
    ci = p.get_class("moclo.record.CircularRecord")
    fi = p.get_func("moclo.record.CircularRecord.__init__")
    FIELDS = ["seq", "id", "name", "description", "dbxrefs", "features", "annotations", "letter_annotations"]

    def lib_super(fr, obj, name, args, kwargs, node):
        if name != "__init__":
            return NotImplemented
        kw = dict(zip(FIELDS, args))
        kw.update(kwargs)
        fr.I.path.effects.append(("super-init", kw))
        return None

    scen = []
    for topo in ("linear", "Linear", "circular", "CIRCULAR", None, "no-annotations"):
        scen.append(("direct", topo))
        scen.append(("wrap", topo))

    for how, topo in scen:
        def make_args(I, how=how, topo=topo):
            ann = None if topo == "no-annotations" else ({} if topo is None else {"topology": topo})
            obj = AObj(ci, {}, name="new")
            if how == "direct":
                vals = {f: Term("a:" + f) for f in FIELDS}
                vals["seq"] = ASeq("Seq", [Piece("W", ZERO, N)])
                vals["annotations"] = ann
                I.given = vals
                return (obj,) + tuple(vals[f] for f in FIELDS), {}
            src = ARec(False, [Piece("W", ZERO, N)], Term("src"))
            for f in FIELDS[1:]:
                src.attrs[f] = Term("src:" + f)
            src.attrs["annotations"] = ann if ann is not None else {}
            I.src = src
            return (obj, src), {}

        def post(I, o, how=how, topo=topo):
            name = fi.qualname
            out = []
            inits = [e for e in o.path.effects if e[0] == "super-init"]
            linear = isinstance(topo, str) and topo.lower() == "linear"
            if o.kind == "raise" and ("deepcopy-fails", True) in o.path.choices and o.value.name == "TypeError" and not inits:
                return []  # a record that cannot be deep-copied is refused: nothing is shared
            if linear:
                ok = o.kind == "raise" and o.value.name == "ValueError" and not inits
                return [(rule + ".topology-guard", name, ok,
                         "a record declared %r must be refused with ValueError before the base constructor runs (%s path): %r, base constructor calls: %d" % (topo, how, o, len(inits)))]
            if o.kind != "return" or len(inits) != 1:
                return [(rule + ".construct", name, False, "constructing from a %s record (topology %r) ends with %r" % (how, topo, o))]
            kw = inits[0][1]
            if how == "direct":
                for f in FIELDS:
                    want = I.given[f]
                    got = kw.get(f)
                    ok = got is want or (isinstance(want, Term) and got == want) or (want is None and got is None)
                    out.append((rule + ".construct", "%s#%s" % (name, f), ok, "argument %s must reach the base constructor unchanged, got %r" % (f, got)))
            else:
                src = I.src
                got = kw.get("seq")
                out.append((rule + ".wrap", "%s#seq" % name, isinstance(got, ASeq) and I.same_pieces(got.pieces, src.pieces), "the sequence of the wrapped record must be kept, got %r" % (got,)))
                for f in ("id", "name", "description"):
                    out.append((rule + ".wrap", "%s#%s" % (name, f), kw.get(f) == Term("src:" + f), "%s of the wrapped record must be kept, got %r" % (f, kw.get(f))))
                for f in ("dbxrefs", "features", "letter_annotations"):
                    got = kw.get(f)
                    ok = isinstance(got, Term) and got.op == "deepcopy" and repr(got.args[0]) == repr(Term("src:" + f))
                    detail = "wrapping an existing record must deep-copy its %s so that edits of the copy do not reach the original, got %r" % (f, got)
                    if not ok and f == "features" and isinstance(got, AList) and got.generic and len(got.items) == 1 \
                            and isinstance(got.items[0], AStruct) and got.items[0].kind == "SeqFeature":
                        # a hand-written per-feature clone: faithful only if each field is an independent copy of the same shape
                        verdict, why = _clone_verdict(got.items[0])
                        if verdict is None:
                            raise AnalysisError("%s: the features of a wrapped record are cloned by hand (%s): faithfulness of that clone is not decided" % (fi.where(), why))
                        ok, detail = verdict, "the features of a wrapped record are cloned by hand and %s" % why
                    out.append((rule + ".deepcopy", "%s#%s" % (name, f), ok, detail))
                got = kw.get("annotations")
                out.append((rule + ".deepcopy", "%s#annotations" % name, isinstance(got, DCDict) and dict(got) == dict(src.attrs["annotations"]) and got is not src.attrs["annotations"],
                            "wrapping an existing record must deep-copy its annotations, got %r (%s)" % (got, type(got).__name__)))
            return out

        emit(ctx, run_paths(ctx, fi, make_args, [N - 1], hooks={"lib_super": lib_super, "deepcopy_may_fail": True}, post=post), fi.where(), "%s,%s:" % (how, topo))
    ctx.report.floor(rule + ".topology-guard", 4)
    ctx.report.floor(rule + ".deepcopy", 16)


def _clone_verdict(feat: AStruct):
    """(True, why) faithful / (False, why) provably unfaithful / (None, why) undecided, for one cloned feature"""
    loc = feat.fields.get("location")
    if isinstance(loc, AStruct) and loc.kind == "FeatureLocation":
        srcs = {repr(v) for k, v in loc.fields.items() if k in ("start", "end")}
        if any("location(" in s_ for s_ in srcs):
            return False, ("every location is rebuilt as one FeatureLocation(start, end, strand) of the source location: a CompoundLocation "
                           "(join) is flattened to its overall span, so the copy's features no longer denote the same nucleotides")
    def copied(v, field):
        return isinstance(v, Term) and v.op == "deepcopy" and ("%s(" % field) in repr(v)
    if copied(loc, "location") and copied(feat.fields.get("qualifiers"), "qualifiers"):
        return True, "location and qualifiers are deep copies"
    return None, "location=%r qualifiers=%r" % (loc, feat.fields.get("qualifiers"))


def getitem_rule(ctx, rule: str):
    p = ctx.program
    ctx.established.add("getitem")
    fi = p.get_func("moclo.record.CircularRecord.__getitem__")
    FIELDS = ["seq", "id", "name", "description", "dbxrefs", "features", "annotations", "letter_annotations"]
    A, B = Aff.sym("x"), Aff.sym("y")

    def lib_super(fr, rec, name, args, kwargs, node):
        if name != "__getitem__":
            return NotImplemented
        idx = args[0]
        if isinstance(idx, AStruct) and idx.kind == "slice":
            # T3: the library slice is born of the subclass constructor (circular-typed), carries id/name/description,
            # the contained features, the sliced letter annotations and at most molecule_type as annotation
            out = ARec(True, fr.I.slice_pieces(rec.pieces, idx.fields["lo"], idx.fields["hi"]), rec.ident,
                       deriv=("lib-slice", rec.deriv), ctor="SeqRecord.__getitem__")
            for f in ("id", "name", "description", "dbxrefs", "features", "letter_annotations"):
                out.attrs[f] = Term("sl:" + f)
            out.attrs["annotations"] = {"molecule_type": Term("mt")}
            fr.I.lib_slice = out
            return out
        return Term("letter", Term(repr(idx)))

    def isinstance_hook(fr, dotted, args, kwargs, node):
        if dotted == "builtins.isinstance" and len(args) == 2 and isinstance(args[0], (AStruct, Aff, int)):
            from .absint import LibRef
            t = args[1]
            if isinstance(t, LibRef) and t.dotted == "builtins.slice":
                return isinstance(args[0], AStruct) and args[0].kind == "slice"
        return NotImplemented

    # the receiver's topology is whatever spelling the constructor accepted ("circular" in any letter case)
    for kind in ("slice", "slice-anycase", "index"):
        def make_args(I, kind=kind):
            rec = circ_record()
            rec.attrs["annotations"] = {"topology": Term("circular-in-any-case") if kind == "slice-anycase" else "circular",
                                        "molecule_type": Term("mt")}
            idx = AStruct("slice", lo=A, hi=B) if kind.startswith("slice") else Aff.sym("idx")
            return (rec, idx), {}

        def post(I, o, kind=kind):
            name = fi.qualname
            if kind == "index":
                return [(rule + ".index", name, o.kind == "return" and isinstance(o.value, Term) and o.value.op == "letter",
                         "an integer index must return the library's letter unchanged, got %r" % (o,))]
            out = []
            v = o.value if o.kind == "return" else None
            if not isinstance(v, ARec):
                return [(rule + ".slice", name, False, "a slice must be a record, got %r" % (o,))]
            out.append((rule + ".linear-type", name, not v.circular and v.ctor == "SeqRecord",
                        "a slice must be a plain (linear) SeqRecord, never the circular type: built by %s, circular=%s" % (v.ctor or v.deriv, v.circular)))
            lib = getattr(I, "lib_slice", None)
            out.append((rule + ".slice", name, lib is not None and I.same_pieces(v.pieces, lib.pieces), "the slice must carry exactly the library's sub-sequence, got %r" % (v,)))
            ann = v.attrs.get("annotations")
            topo = ann.get("topology") if isinstance(ann, dict) else "?"
            okt = isinstance(ann, dict) and (topo is None or (isinstance(topo, str) and topo.lower() != "circular"))
            out.append((rule + ".no-circular-claim", name, okt, "a slice must never claim circular topology: annotations %r" % (ann,)))
            for f in ("features", "dbxrefs", "letter_annotations"):
                got = v.attrs.get(f)
                ok = isinstance(got, Term) and got.op == "deepcopy" and repr(got.args[0]) == repr(Term("sl:" + f))
                out.append((rule + ".deepcopy", "%s#%s" % (name, f), ok,
                            "the slice must own deep copies of the library slice's %s (rotation shares qualifier dicts with its source, Biopython copies them only shallowly): got %r" % (f, got)))
            for f in ("id", "name", "description"):
                out.append((rule + ".slice-carry", "%s#%s" % (name, f), v.attrs.get(f) == Term("sl:" + f), "%s must be carried, got %r" % (f, v.attrs.get(f))))
            for f in ("features", "letter_annotations"):
                # position-bound data: whatever copy is made, it is a copy of the *sliced* record's (the receiver's own
                # tracks have the full length -- SeqRecord refuses them -- and its features the full record's coordinates)
                got = v.attrs.get(f)
                src = got
                while isinstance(src, Term) and src.op in ("deepcopy", "copy", "list", "dict") and src.args:
                    src = src.args[0]
                out.append((rule + ".slice-carry", "%s#%s" % (name, f), src == Term("sl:" + f),
                            "the slice's %s must be those of the library slice (cut to the slice), got %r" % (f, got)))
            return out

        emit(ctx, run_paths(ctx, fi, make_args, [N - 1], hooks={"lib_super": lib_super, "lib_call": isinstance_hook}, post=post), fi.where(), kind + ":")
    ctx.report.floor(rule + ".linear-type", 1)
    ctx.report.floor(rule + ".deepcopy", 3)


def _all_paths_raise(fn: ast.FunctionDef, exc_names=("TypeError",), resolve=None, _depth=3) -> Optional[str]:
    """None when every path of ``fn`` ends in ``raise <exc>(...)`` -- or in a call (``return self._refuse(...)``,
    ``self._refuse(...)``) of a function of the code base of which the same holds (``resolve(call)`` names it);
    otherwise why not."""

    def block(body) -> Optional[str]:
        if not body:
            return "an empty block falls through"
        for st in body[:-1]:
            for n in ast.walk(st):
                if isinstance(n, (ast.Return, ast.Try, ast.Yield)):
                    return "line %d: %s before the raise" % (n.lineno, type(n).__name__.lower())
        last = body[-1]
        if isinstance(last, ast.Raise):
            e = last.exc
            if isinstance(e, ast.Call):
                e = e.func
            nm = e.id if isinstance(e, ast.Name) else getattr(e, "attr", None)
            if nm in exc_names:
                return None
            return "line %d: raises %s, not %s" % (last.lineno, nm, "/".join(exc_names))
        if isinstance(last, ast.If):
            if not last.orelse:
                return "line %d: an if without else can fall through" % last.lineno
            return block(last.body) or block(last.orelse)
        if isinstance(last, (ast.Return, ast.Expr)) and isinstance(last.value, ast.Call) and resolve is not None and _depth > 0:
            g = resolve(last.value)
            if g is not None:
                why = _all_paths_raise(g.node, exc_names, resolve, _depth - 1)
                return None if why is None else "line %d: delegates to %s, where %s" % (last.lineno, g.qualname, why)
        return "line %d: the last statement is %s, not a raise" % (last.lineno, type(last).__name__)

    return block([s for s in fn.body if not (isinstance(s, ast.Expr) and isinstance(s.value, ast.Constant))])


def add_guard_rule(ctx, rule: str):
    """+ on a circular record is refused: __add__ and __radd__ resolve to a
    function all of whose paths raise TypeError (no __iadd__ escapes it)."""
    p = ctx.program
    r = ctx.report
    ctx.established.add("add-guard")
    ci = p.get_class("moclo.record.CircularRecord")

    def resolve(call):
        # self.<hook>(...) resolved on the circular record's own MRO; a plain module-level helper
        f = call.func
        g = None
        if isinstance(f, ast.Attribute) and isinstance(f.value, ast.Name) and f.value.id == "self":
            _, g = p.class_attr_def(ci, f.attr)
        elif isinstance(f, ast.Name):
            try:
                g = p.resolve_expr(ci.module, f)
            except Exception:
                g = None
        return g if isinstance(g, FuncInfo) and not g.node.decorator_list else None

    def evaluated(raw):
        """None when every path of the operator, run with its decorators applied, ends in TypeError; a reason otherwise;
        AnalysisError when the evaluation has no model for something"""
        from .kernels import circ_record, run_paths
        from .absint import AExc

        verdicts = []

        def post(I, o):
            ok = o.kind == "raise" and isinstance(o.value, AExc) and o.value.name == "TypeError"
            verdicts.append(None if ok else "a path of %s ends with %r instead of raising TypeError" % (raw.qualname, o))
            return []

        run_paths(ctx, raw, lambda I: ((circ_record(), Term("other")), {}), [], hooks={"apply_decorators": True}, post=post)
        if not verdicts:
            raise AnalysisError("%s: no path explored" % raw.where())
        bad = [v for v in verdicts if v]
        return bad[0] if bad else None

    for name in ("__add__", "__radd__"):
        owner, raw = p.class_attr_def(ci, name)
        if not isinstance(raw, FuncInfo):
            r.ob(rule, "moclo.record.CircularRecord.%s" % name, False,
                 "%s is not defined in the circular record: the library's concatenation applies" % name, ci.where())
            continue
        if raw.node.decorator_list:
            # what the decorated name does is decided by running it (the wrapper is built, then called); the shape of the
            # decorator is consulted only when the evaluation has no model for it
            try:
                why = evaluated(raw)
                r.ob(rule, raw.qualname, why is None, why or "", raw.where())
                continue
            except AnalysisError:
                pass
        why = None
        decs = raw.node.decorator_list
        if decs:
            # outermost decorator decides what the name is bound to
            d = decs[0]
            dv = p.resolve_expr(raw.module, d.func if isinstance(d, ast.Call) else d)
            if isinstance(dv, FuncInfo):
                inner = [n for n in dv.node.body if isinstance(n, ast.FunctionDef)]
                ret = [n for n in dv.node.body if isinstance(n, ast.Return)]
                if len(inner) == 1 and ret and isinstance(ret[-1].value, ast.Name) and ret[-1].value.id == inner[0].name:
                    why = _all_paths_raise(inner[0])
                    if why:
                        why = "%s (via decorator %s): %s" % (name, dv.qualname, why)
                else:
                    why = "decorator %s does not return a single inner function" % dv.qualname
            else:
                why = "decorator of %s cannot be resolved" % name
        else:
            why = _all_paths_raise(raw.node, resolve=resolve)
        r.ob(rule, raw.qualname, why is None, why or "", raw.where())
    owner, raw = p.class_attr_def(ci, "__iadd__")
    if isinstance(raw, FuncInfo):
        why = _all_paths_raise(raw.node, resolve=resolve)
        r.ob(rule, raw.qualname, why is None, why or "", raw.where())
    r.floor(rule, 2)


# ---------------------------------------------------------------------------
# C16  transcription table and case flag


def transcription_rule(ctx, rule: str, strict_key: bool = False):
    """Fold DNARegex.__init__ on every IUPAC code and compare the compiled
    character class with the IUPAC table (library data, T5)."""
    from Bio.Data import IUPACData

    p = ctx.program
    r = ctx.report
    cls = p.get_class("moclo.regex.DNARegex")
    fi = p.get_func("moclo.regex.DNARegex.__init__")
    table = {k: set(v) for k, v in IUPACData.ambiguous_dna_values.items() if k != "X"}
    compiled = {}

    def lib_hook(fr, dotted, args, kwargs, node):
        if dotted == "re.compile":
            flags = 0
            for a in list(args[1:]) + list(kwargs.values()):
                from .absint import LibRef
                if isinstance(a, LibRef) and a.dotted in ("re.I", "re.IGNORECASE"):
                    flags |= re.I
                elif isinstance(a, int):
                    flags |= a
                else:
                    fr.unsupported(node, "re.compile flags %r" % (a,))
            if not isinstance(args[0], (str, Term)):
                fr.unsupported(node, "re.compile of a non-constant pattern %r" % (args[0],))
            return AStruct("regex", pattern=args[0], flags=flags)
        return NotImplemented

    for code in sorted(table):
        def make_args(I, code=code):
            obj = AObj(cls, {}, name="rx")
            I.obj = obj
            return (obj, code), {}

        def post(I, o, code=code):
            rx = I.obj.attrs.get("regex")
            if o.kind != "return" or not (isinstance(rx, AStruct) and rx.kind == "regex"):
                return [(rule + ".compile", "%s#%s" % (fi.qualname, code), False, "DNARegex(%r) does not compile a constant pattern: %r" % (code, o))]
            if not isinstance(rx.fields["pattern"], str):
                return [(rule + ".compile", "%s#%s" % (fi.qualname, code), False, "DNARegex(%r) compiles a non-constant pattern: %r" % (code, rx.fields["pattern"]))]
            compiled[code] = (rx.fields["pattern"], rx.fields.get("flags", 0))
            return []

        emit_quiet(ctx, run_paths(ctx, fi, make_args, [], hooks={"lib_call": lib_hook}, post=post), fi.where())
    for code in sorted(table):
        if code not in compiled:
            continue
        pat, flags = compiled[code]
        try:
            rx = re.compile(pat, flags)
        except re.error as e:
            r.ob(rule + ".compile", "%s#%s" % (fi.qualname, code), False, "pattern %r for %s does not compile: %s" % (pat, code, e), fi.where())
            continue
        for nuc in "ACGT":
            want = nuc in table[code]
            for case in (nuc, nuc.lower()):
                got = rx.fullmatch(case) is not None
                r.ob(rule + ".iupac", "DNARegex#%s~%s" % (code, case), got == want,
                     "pattern letter %s must %smatch nucleotide %s (IUPAC: %s = %s); transcribed as %r flags=%s"
                     % (code, "" if want else "not ", case, code, "".join(sorted(table[code])), pat, flags), fi.where())
        # case symmetry on every letter a target may carry (the 15 IUPAC letters): C18
        for letter in sorted(table):
            up, lo = rx.fullmatch(letter) is not None, rx.fullmatch(letter.lower()) is not None
            r.ob(rule + ".case-symmetry", "DNARegex#%s~%s/%s" % (code, letter, letter.lower()), up == lo,
                 "pattern letter %s matches target letter %s but not %s (or the reverse): the spelling of a record changes whether it is accepted; transcribed as %r flags=%s"
                 % (code, letter if up else letter.lower(), letter.lower() if up else letter, pat, flags), fi.where())
    r.floor(rule + ".iupac", 15 * 8)
    letterwise_rule(ctx, rule, lib_hook, strict_key)
    extra = set("ACGTN")
    note = [c for c in sorted(table) if compiled.get(c) and re.compile(*compiled[c]).fullmatch("N") and c not in ("N",)]
    if note:
        r.note("codes also matching the letter N in a target: %s" % note)


def letterwise_rule(ctx, rule: str, lib_hook, strict_key: bool = False):
    """The per-letter obligations above decide every pattern only if the
    transcription is a letter-wise map: evaluated on a pattern of arbitrary
    letters, what reaches re.compile is a constant prefix followed, for each
    pattern letter x in order, by table.get(x, x) -- and each table value is a
    single regex atom without a capturing group, so that a quantifier or group
    written after a code applies to the code's class and group numbers are the
    pattern's own."""
    from .absint import AJoin, AList

    p = ctx.program
    r = ctx.report
    cls = p.get_class("moclo.regex.DNARegex")
    fi = p.get_func("moclo.regex.DNARegex.__init__")
    from .roles import letter_table

    lm_name, lm_raw = letter_table(p)
    lm = ast.literal_eval(lm_raw)
    keys = ",".join(sorted(lm))
    X = Term("letter")

    def make_args(I):
        pat = AList([X], 0, origin="pattern")
        pat.generic, pat.min_len = True, 0
        obj = AObj(cls, {}, name="rx")
        I.obj = obj
        return (obj, pat), {}

    def post(I, o):
        name = fi.qualname
        rx = I.obj.attrs.get("regex")
        if o.kind != "return" or not (isinstance(rx, AStruct) and rx.kind == "regex"):
            return [(rule + ".letterwise", name, False, "DNARegex(<any pattern>) ends with %r without compiling" % (o,))]
        v = rx.fields["pattern"]
        prefix = ""
        while isinstance(v, tuple) and v and v[0] == "concat":  # prefix + join(...)
            prefix, v = prefix + v[1], v[2]
        if not (isinstance(v, AJoin) and v.sep == "" and isinstance(v.alist, AList) and v.alist.generic):
            raise AnalysisError("%s: the compiled pattern is not recognised as a join over the pattern's letters: %r" % (fi.where(), v))
        L = v.alist
        once, rep = L.items[:L.generic_from], L.items[L.generic_from:]
        if not all(isinstance(x, str) for x in once) or len(rep) != 1:
            raise AnalysisError("%s: unrecognised list shape in the transcription: %r" % (fi.where(), L))
        prefix += "".join(once)
        img = rep[0]
        table = Term("table", Term(keys))
        UX = Term("upper", X)
        ok_img = img in (Term("table-get", table, X, X), Term("table-value", table, X), X,
                         Term("table-get", table, UX, X), Term("table-value", table, UX))
        if strict_key and ok_img and UX in getattr(img, "args", ()):
            # the table is read under a case-folded key: the lower-case letters of the regex syntax a structure may use
            # (names of named groups, escapes, inline flags) are rewritten into character classes and no longer compile
            out0 = [(rule + ".syntax-letters", name, False,
                     "the letter table is read under upper(x): lower-case letters that belong to the regex syntax of a structure "
                     "(`(?P<name>`, `\\b`, inline flags) are transcribed too and the pattern raises re.error; image %r" % (img,))]
        else:
            out0 = [(rule + ".syntax-letters", name, True, "")] if strict_key else []
        out = out0 + [(rule + ".letterwise", name, ok_img,
                "each pattern letter x must be transcribed as lettermap.get(x, x) on its own, in order: the per-letter image is %r" % (img,))]
        try:
            tree = list(re._parser.parse(prefix))
        except Exception as e:
            tree = [("error", str(e))]
        out.append((rule + ".letterwise", name + "#prefix", not tree,
                    "the constant prefix must consist of inline flags only (no pattern item): %r" % (prefix,)))
        return out

    emit(ctx, run_paths(ctx, fi, make_args, [], hooks={"lib_call": lib_hook}, post=post), fi.where(), "any-pattern:")
    for code, val in sorted(lm.items()):
        try:
            items = list(re._parser.parse(val))
        except Exception as e:
            items = None
        ok = items is not None and len(items) == 1 and str(items[0][0]) in ("IN", "LITERAL", "ANY", "NOT_LITERAL")
        r.ob(rule + ".atom", "DNARegex.<letter table>#%s" % code, ok,
             "the transcription %r of %s must be one regex atom (a character class) with no capturing group: a quantifier after the code "
             "would otherwise bind to part of it, or group numbers shift" % (val, code), cls.where())
    r.floor(rule + ".letterwise", 2)
    r.floor(rule + ".atom", 11)


def emit_quiet(ctx, outs, where):
    for o in outs:
        for rule, construct, ok, detail in o.checks:
            ctx.report.ob(rule, construct, ok, detail, where, region_name(o.path))
