# coding: utf-8
"""K22: the registries, decided by abstract evaluation.

The three registry classes are run on a symbolic world -- an archive with an
arbitrary number of members, a directory with an arbitrary listing, a member
registry with arbitrary items -- instead of being matched against the shapes
their code has today.  What is checked is what the methods *do* on that world:

  embedded    `_data` files, for every member of the archive, exactly one item
              under the id of the record read from that member, the item
              carries that id, its entity is built from the circular record;
              `__iter__` yields the name of every member of the same archive,
              `__len__` is the number of members of the same archive (or of the
              table), `__getitem__` is the table (KeyError when absent)
  filesystem  `__getitem__(k)` opens `k.<ext>` for the declared extensions only
              when it is a file, renames the record to `k`, returns an item with
              id `k` built from the circular record, and ends in KeyError(k)
              otherwise; `__iter__` yields the stem of every entry of one
              listing, `__len__` counts the entries of the same listing
  combined    `add_registry` visits every value of the member and files it under
              its own id only when that id is not there yet; the views are the
              views of the table

Library calls are stand-ins (trusted facts T6: pkg_resources / tarfile / fs /
Bio.SeqIO do what their documentation says); a call that has no stand-in ends
the evaluation as undecided (ANALYSIS-ERROR), never as a violation.
"""
from __future__ import annotations

import ast
from typing import Dict, List, Optional

from .absdom import Aff, Piece
from .absint import (ACollection, AExc, AList, AMap, AObj, ARec, ASeq, AStruct, BoundMethod, Frame, Interp, LibRef, RaiseSig, Term)
from .kernels import N, ZERO, emit, run_paths
from .loader import AnalysisError, ClassInfo, FuncInfo

BASE = "moclo.registry.base."


# ---------------------------------------------------------------------------
# the symbolic world


def _member(k: str = "member") -> AStruct:
    return AStruct("tar-member", name=Term("name", Term(k)), ident=Term(k))


def _record_from(handle) -> ARec:
    """Bio.SeqIO.read(handle, fmt): a plain SeqRecord whose fields are whatever the file says"""
    src = handle.fields.get("of") if isinstance(handle, AStruct) else None
    tag = repr(src) if src is not None else "file"
    rec = ARec(False, [Piece("W:" + tag, ZERO, N)], Term("record", Term(tag)), ctor="input")
    for a in ("id", "name", "description"):
        rec.attrs[a] = Term(a + "-in-file", Term(tag))
    rec.attrs["annotations"] = {"topology": "circular"}
    return rec


def world_hooks(p, events: list) -> Dict[str, object]:
    """stand-ins for the library calls the registries make"""

    def lib_call(fr: Frame, dotted: str, args, kwargs, node):
        I = fr.I
        short = dotted.rsplit(".", 1)[-1]
        if dotted == "pkg_resources.resource_stream" and len(args) == 2:
            return AStruct("res-stream", module=args[0], file=args[1])
        if dotted == "tarfile.open":
            src = kwargs.get("fileobj", args[2] if len(args) > 2 else (args[0] if args else None))
            I.path.effects.append(("tar-open", src))
            return AStruct("tar", stream=src)
        if dotted in ("io.TextIOWrapper", "io.BufferedReader", "codecs.getreader"):
            return args[0] if args else None
        if dotted == "Bio.SeqIO.read" and args:
            h = args[0]
            I.path.effects.append(("seqio-read", h))
            return _record_from(h)
        if dotted == "builtins.iter" and len(args) == 2 and isinstance(args[0], BoundMethod) and getattr(args[0], "tar_next", None) is not None and args[1] is None:
            return _members_of(I, args[0].tar_next)
        if dotted == "builtins.iter" and len(args) == 1 and isinstance(args[0], (AMap, dict)):
            return args[0]  # iterating a table is iterating its keys
        if dotted == "importlib.import_module" and len(args) == 1:
            return AStruct("py-module", name=args[0])
        if dotted == "collections.ChainMap" and not args and not kwargs:
            return {}  # an empty chain of mappings is an empty table (`new_child` on it: see the attribute hook)
        if dotted in ("pathlib.Path", "pathlib.PurePath", "os.fspath", "os.path.dirname", "os.path.abspath") and len(args) == 1:
            return args[0] if isinstance(args[0], AStruct) and args[0].kind == "path" else (
                AStruct("path", of=args[0]) if short in ("Path", "PurePath") else args[0])
        if dotted in ("importlib.resources.files",) and len(args) == 1:
            return AStruct("path", of=AStruct("module-dir", name=args[0]))
        if dotted in ("importlib.resources.open_binary", "importlib.resources.open_text") and len(args) == 2:
            return AStruct("res-stream", module=args[0], file=args[1])
        if dotted in ("fs.open_fs",) and args:
            return AStruct("fs", url=args[0])
        if dotted in ("fs.wrap.read_only", "fs.wrap.cache_directory"):
            return args[0]
        if dotted in ("fs.path.splitext", "os.path.splitext", "posixpath.splitext") and len(args) == 1:
            return _splitext(args[0])
        if dotted in ("fs.path.basename", "os.path.basename") and len(args) == 1:
            return args[0]  # the listing yields bare names of the top directory
        if dotted in ("six.itervalues",) and len(args) == 1 and isinstance(args[0], AStruct) and args[0].kind == "member-registry":
            return _items_of(args[0])
        if dotted in ("six.itervalues", "six.iteritems", "six.iterkeys") and len(args) == 1 and isinstance(args[0], AObj):
            return _mapping_view(fr, args[0], {"itervalues": "values", "iteritems": "items", "iterkeys": "keys"}[short], node)
        return NotImplemented

    def _members_of(I, tar):
        I.path.effects.append(("tar-walk", tar))
        return ACollection("members", lambda: AStruct("tar-member", name=Term("name", Term("member")), ident=Term("member"), tar=tar))

    def _items_of(reg):
        return ACollection("items", lambda: _an_item(p, "item"))

    def _mapping_view(fr, obj, which, node):
        """values() / items() / keys() of an object of the code base that is a Mapping (typing.Mapping mix-in, T6): derived
        from its __iter__ and __getitem__ -- for every key the iteration gives, the item the lookup gives"""
        I = fr.I
        _, it_ = p.class_attr_def(obj.cls, "__iter__")
        _, gi_ = p.class_attr_def(obj.cls, "__getitem__")
        if not (isinstance(it_, FuncInfo) and isinstance(gi_, FuncInfo)):
            fr.unsupported(node, "%s() of an object without __iter__/__getitem__" % which)
        keys = I.call_function(it_, [obj], {}, node)
        if not isinstance(keys, AMap):
            fr.unsupported(node, "%s() of a mapping whose iteration is %r" % (which, keys))
        key = I.new_term("key")
        keys.adds.append((key, keys.value_for(key)))
        keys.known[repr(key)] = True
        I.path.effects.append(("loop", "%s:%s" % (which, keys.base), key))
        val = I.call_function(gi_, [obj, key], {}, node)
        elem = {"values": val, "items": (key, val), "keys": key}[which]
        return ACollection("%s-of:%s" % (which, keys.base), lambda: elem)

    def getattr_hook(fr: Frame, base, a: str, node):
        I = fr.I
        if isinstance(base, AObj) and a in ("values", "items", "keys") and isinstance(base.cls, ClassInfo) and p.class_attr_def(base.cls, a)[0] is None \
                and isinstance(p.class_attr_def(base.cls, "__getitem__")[1], FuncInfo):
            return BoundMethod("py", lambda fr2, args, kwargs, node2: _mapping_view(fr2, base, a, node2), a)
        if isinstance(base, AStruct) and base.kind == "tar":
            if a == "next":
                bm = BoundMethod("py", lambda fr2, args, kwargs, node2: fr2.unsupported(node2, "tar.next() called directly"), a)
                bm.tar_next = base
                return bm
            if a == "getmembers":
                return BoundMethod("py", lambda fr2, args, kwargs, node2: _members_of(fr2.I, base), a)
            if a == "getnames":
                def names(fr2, args, kwargs, node2):
                    fr2.I.path.effects.append(("tar-walk", base))
                    return ACollection("member-names", lambda: Term("name", Term("member")))
                return BoundMethod("py", names, a)
            if a == "extractfile":
                return BoundMethod("py", lambda fr2, args, kwargs, node2: AStruct("handle", of=args[0].fields.get("ident") if isinstance(args[0], AStruct) else args[0]), a)
            if a in ("close", "__enter__", "__exit__"):
                return BoundMethod("py", lambda fr2, args, kwargs, node2: None, a)
            return NotImplemented
        if isinstance(base, AStruct) and base.kind == "py-module" and a == "__file__":
            return AStruct("module-file", name=base.fields["name"])
        if isinstance(base, AStruct) and base.kind == "path":
            of = base.fields.get("of")
            if a == "parent" and isinstance(of, AStruct) and of.kind == "module-file":
                return AStruct("path", of=AStruct("module-dir", name=of.fields["name"]))
            if a in ("joinpath",):
                return BoundMethod("py", lambda fr2, args, kwargs, node2: _join(base, args[0]), a)
            if a in ("open",):
                def popen(fr2, args, kwargs, node2):
                    if isinstance(of, AStruct) and of.kind == "module-member":
                        return AStruct("res-stream", module=of.fields["module"], file=of.fields["file"])
                    fr2.unsupported(node2, "open() of a path that is not a file next to a module")
                return BoundMethod("py", popen, a)
            return NotImplemented
        if isinstance(base, AStruct) and base.kind == "res-stream" and a in ("close", "read"):
            return BoundMethod("py", lambda fr2, args, kwargs, node2: None, a)
        if isinstance(base, AStruct) and base.kind == "fs":
            if a == "filterdir":
                def filterdir(fr2, args, kwargs, node2):
                    spec = (repr(args[0]) if args else None, repr(kwargs.get("files")), repr(kwargs.get("exclude_dirs")), repr(kwargs.get("dirs")),
                            repr(kwargs.get("exclude_files")))
                    fr2.I.path.effects.append(("listing", spec))
                    return ACollection("entries", lambda: AStruct("fs-info", name=Term("entry-name"), is_dir=False, is_file=True))
                return BoundMethod("py", filterdir, a)
            if a == "isfile":
                def isfile(fr2, args, kwargs, node2):
                    fr2.I.path.effects.append(("isfile", args[0]))
                    return fr2.I.path.choose("isfile %r" % (args[0],))
                return BoundMethod("py", isfile, a)
            if a in ("open", "openbin", "opentext", "readtext", "readbytes"):
                def open_(fr2, args, kwargs, node2):
                    I2 = fr2.I
                    tested = [c for c in I2.path.choices if c[0] == "isfile %r" % (args[0],)]
                    if not (tested and tested[-1][1] is True):
                        # opened without having been found to be a file: what is there decides (T6: fs raises
                        # ResourceNotFound for nothing, FileExpected for a directory)
                        what = I2.path.choose("at %r" % (args[0],), ["file", "nothing", "directory"])
                        I2.path.effects.append(("eafp", args[0], what))
                        if what == "nothing":
                            raise RaiseSig(AExc("fs.errors.ResourceNotFound", [args[0]], {}))
                        if what == "directory":
                            raise RaiseSig(AExc("fs.errors.FileExpected", [args[0]], {}))
                    I2.path.effects.append(("fs-open", args[0]))
                    return AStruct("handle", of=args[0])
                return BoundMethod("py", open_, a)
            return NotImplemented
        if isinstance(base, AMap) and a == "new_child":
            # collections.ChainMap (T6): the mapping handed to new_child is consulted *before* everything already there
            def new_child(fr2, args, kwargs, node2):
                fr2.I.path.effects.append(("map-shadow", base.base, args[0] if args else None))
                return base
            return BoundMethod("py", new_child, a)
        if isinstance(base, AStruct) and base.kind == "member-registry":
            if a in ("values", "itervalues"):
                return BoundMethod("py", lambda fr2, args, kwargs, node2: _items_of(base), a)
            return NotImplemented
        return NotImplemented

    def _join(base, name):
        of = base.fields.get("of")
        if isinstance(of, AStruct) and of.kind == "module-dir":
            return AStruct("path", of=AStruct("module-member", module=of.fields["name"], file=name))
        return NotImplemented

    def binop_hook(fr, op, l, r_, node):
        if isinstance(op, ast.Div) and isinstance(l, AStruct) and l.kind == "path":
            return _join(l, r_)  # pathlib: directory / name
        return NotImplemented

    def iterate_hook(fr, it, node):
        if isinstance(it, AStruct) and it.kind == "tar":
            return _members_of(fr.I, it)  # iterating a TarFile gives its members
        return NotImplemented

    return {"lib_call": lib_call, "getattr": getattr_hook, "binop": binop_hook, "iterate": iterate_hook}


def _splitext(x):
    """splitext(stem + "." + ext) == (stem, "." + ext) when ext holds no dot (the declared extensions do not)"""
    if isinstance(x, Term) and x.op == "format" and len(x.args) == 3 and repr(x.args[0]) in ("'{}.{}'", "Term('{}.{}')", '"{}.{}"'):
        return (x.args[1], Term("dot-ext", x.args[2]))
    if isinstance(x, tuple) and len(x) == 3 and x[0] == "joined-name":
        return (x[1], Term("dot-ext", x[2]))
    t = x if isinstance(x, Term) else Term(repr(x))
    return (Term("stem", t), Term("ext", t))


def _an_item(p, tag: str):
    """an Item of a member registry: whatever it is, it has an id"""
    item_cls = p.get_class(BASE + "Item")
    return AObj(item_cls, {"id": Term("id", Term(tag)), "name": Term("name", Term(tag)), "entity": Term("entity", Term(tag)),
                           "resistance": Term("resistance", Term(tag))}, name=tag)


def _item_fields(v):
    """(id, entity, resistance) of whatever stands for an Item in the evaluation"""
    from .absint import ANT

    if isinstance(v, ANT):
        d = dict(zip(v._nt_fields, v))
        return d.get("id"), d.get("entity"), d.get("resistance")
    if isinstance(v, AObj):
        return v.attrs.get("id"), v.attrs.get("entity"), v.attrs.get("resistance")
    if isinstance(v, AStruct) and v.kind == "Item":
        return v.fields.get("id"), v.fields.get("entity"), v.fields.get("resistance")
    return None, None, None


# ---------------------------------------------------------------------------
# embedded registries


def k22_embedded(ctx, rule: str):
    p = ctx.program
    r = ctx.report
    emb = p.get_class(BASE + "EmbeddedRegistry")
    owner, data = p.class_attr_def(emb, "_data")
    if not isinstance(data, FuncInfo):
        raise AnalysisError("anchor vanished: %s._data" % emb.qualname)
    events: list = []
    hooks = world_hooks(p, events)

    def entity_hook(I, f, args, kwargs):
        I.path.effects.append(("load-entity", args[1] if len(args) > 1 else None))
        return AStruct("entity", record=args[1] if len(args) > 1 else None)

    def resistance_hook(I, f, args, kwargs):
        I.path.effects.append(("find-resistance", args[0] if args else None))
        return Term("resistance-of", Term(repr(getattr(args[0], "ident", args[0])))) if args else None

    for c in [emb] + p.subclasses(emb):
        o2, le = p.class_attr_def(c, "_load_entity")
        if isinstance(le, FuncInfo):
            hooks[le.qualname] = entity_hook
    hooks["moclo.registry._utils.find_resistance"] = resistance_hook

    def self_obj():
        return AObj(emb, {"_module": Term("the-module"), "_file": Term("the-file")}, name="registry")

    # -- the table --------------------------------------------------------
    def post_data(I, o):
        name = data.qualname
        if o.kind != "return":
            return [(rule + ".embedded-table", name, False, "loading the archive ends with %r" % (o,))]
        stores = [e for e in o.path.effects if e[0] in ("map-store", "map-setdefault")]
        # (a table filled while a generator of the records is being driven stays a plain dict in the evaluation)
        stores += [("map-store", "dict", e[2], e[3], None) for e in o.path.effects if e[0] == "setitem" and e[1] is o.value and isinstance(e[1], dict)]
        if not stores and isinstance(o.value, dict) and len(o.value) == 1 and not any(e[0] == "setitem" for e in o.path.effects):
            stores = [("map-store", "dict", k_, v_, None) for k_, v_ in o.value.items()]  # {record.id: item for ...}
        if not stores and isinstance(o.value, AMap) and len(o.value.adds) == 1 and o.value.base.startswith("comp:"):
            stores = [("map-store", o.value.base, o.value.adds[0][0], o.value.adds[0][1], None)]  # a dict comprehension over the members
        walked = [e for e in o.path.effects if e[0] in ("tar-walk",)]
        out = []
        if not walked:
            return [(rule + ".embedded-table", name, False, "the table is not built from the members of an archive")]
        if len(stores) != 1:
            return [(rule + ".embedded-table", name, False, "expected one entry filed per archive member, found %d" % len(stores))]
        e = stores[0]
        key, val = e[2], e[3]
        vid, ventity, vres = _item_fields(val)
        reads = [x for x in o.path.effects if x[0] == "seqio-read"]
        rec_tag = Term("member")
        want_id = Term("id-in-file", Term(repr(rec_tag)))
        out.append((rule + ".embedded-key-is-id", name, isinstance(key, Term) and key == want_id,
                    "an entry must be filed under the id of the record read from the member: key %r" % (key,)))
        out.append((rule + ".embedded-key-is-id", name + "#item", vid is not None and repr(vid) == repr(key),
                    "an item must be filed under the id it carries: key %r, item id %r" % (key, vid)))
        ent_rec = ventity.fields.get("record") if isinstance(ventity, AStruct) and ventity.kind == "entity" else None
        okc = isinstance(ent_rec, ARec) and ent_rec.circular and repr(ent_rec.ident) == repr(Term("record", Term(repr(rec_tag))))
        out.append((rule + ".circular-record", name, okc,
                    "the entity must be built from the CircularRecord made of the member's record: entity %r" % (ventity,)))
        okid = isinstance(ent_rec, ARec) and repr(ent_rec.attrs.get("id")) == repr(key)
        out.append((rule + ".embedded-key-is-id", name + "#record", okid,
                    "the record the item holds must carry the key as its id: record id %r" % (ent_rec.attrs.get("id") if isinstance(ent_rec, ARec) else None,)))
        out.append((rule + ".known-resistance-source", name, vres is not None and vres is not NotImplemented,
                    "the item must carry the resistance found for its record: %r" % (vres,)))
        if e[0] == "map-store" and len(e) > 4 and e[4] is not False:
            # a plain store: a later member with the same id replaces an earlier one (ids are unique in the archives, E6)
            pass
        src = [x for x in o.path.effects if x[0] == "tar-open"]
        I.data_archive = _archive_of(src)
        out.append((rule + ".embedded-table", name, isinstance(o.value, (AMap, dict)), "the table itself must be returned: %r" % (o.value,)))
        return out

    archives = {}

    def run_data(I):
        return (self_obj(),), {}

    outs = run_paths(ctx, data, run_data, [N - 1], hooks=hooks, post=post_data)
    emit(ctx, outs, data.where())
    for o in outs:
        if getattr(o.interp, "data_archive", None) is not None:
            archives["data"] = o.interp.data_archive

    # -- iteration, length, lookup ------------------------------------------
    def with_table():
        obj = self_obj()
        obj.attrs["_data@%s" % emb.qualname] = AMap("TABLE")
        obj.attrs["_data"] = obj.attrs["_data@%s" % emb.qualname]
        return obj

    _, it = p.class_attr_def(emb, "__iter__")
    _, ln = p.class_attr_def(emb, "__len__")
    _, gi = p.class_attr_def(emb, "__getitem__")
    for nm, f_ in (("__iter__", it), ("__len__", ln), ("__getitem__", gi)):
        if not isinstance(f_, FuncInfo):
            raise AnalysisError("anchor vanished: %s.%s" % (emb.qualname, nm))

    def post_iter(I, o):
        name = it.qualname
        if o.kind != "return":
            return [(rule + ".embedded-siblings", name, False, "iteration ends with %r" % (o,))]
        v = o.value
        items = v.items if isinstance(v, AList) else None
        walked = [e for e in o.path.effects if e[0] == "tar-walk"]
        src = [x for x in o.path.effects if x[0] == "tar-open"]
        if items is None and isinstance(v, (AMap,)):
            return [(rule + ".embedded-siblings", name, True, "")]  # iter(self._data): the keys of the table
        if isinstance(v, Term) and "TABLE" in repr(v):
            return [(rule + ".embedded-siblings", name, True, "")]
        ok = bool(walked) and _each_of(v, "members", repr(Term("name", Term("member"))), o.path.effects)
        I.iter_archive = _archive_of(src)
        return [(rule + ".embedded-siblings", name, ok, "iteration must yield the name of every archive member: yields %r" % (v,))]

    outs = run_paths(ctx, it, lambda I: ((with_table(),), {}), [N - 1], hooks=hooks, post=post_iter)
    emit(ctx, outs, it.where())
    for o in outs:
        if getattr(o.interp, "iter_archive", None) is not None:
            archives["iter"] = o.interp.iter_archive

    def post_len(I, o):
        name = ln.qualname
        if o.kind != "return":
            return [(rule + ".embedded-siblings", name, False, "len() ends with %r" % (o,))]
        v = o.value
        src = [x for x in o.path.effects if x[0] == "tar-open"]
        I.len_archive = _archive_of(src)
        ok = isinstance(v, Aff) and (v == Aff.sym("len:coll:members") or v == Aff.sym("len:coll:member-names") or v == Aff.sym("len:map:TABLE")
                                     or repr(v) in ("len:list@members", "count(members)"))
        if not ok and isinstance(v, Aff) and len(v.symbols()) == 1 and v == Aff.sym(list(v.symbols())[0]):
            # the length of a tuple / list of one image per member (names collected once and kept)
            s_ = list(v.symbols())[0]
            ok = s_.startswith("len(") and "map(members," in s_ and "filter" not in s_
        return [(rule + ".embedded-siblings", name, ok,
                 "the length must be the number of archive members (or of entries of the table): got %r" % (v,))]

    outs = run_paths(ctx, ln, lambda I: ((with_table(),), {}), [N - 1], hooks=hooks, post=post_len)
    emit(ctx, outs, ln.where())
    for o in outs:
        if getattr(o.interp, "len_archive", None) is not None:
            archives["len"] = o.interp.len_archive

    KEY = Term("key")

    def post_get(I, o):
        name = gi.qualname
        hit = any(t.startswith("getitem TABLE") and v == "hit" for t, v in o.path.choices)
        asked = [e for e in o.path.effects if e[0] == "map-getitem" and e[1] == "TABLE"]
        if not asked or repr(asked[0][2]) != repr(KEY):
            return [(rule + ".embedded-siblings", name, False, "lookup must read the table under the key it is given: %r" % (asked,))]
        if hit:
            return [(rule + ".embedded-siblings", name, o.kind == "return" and "TABLE" in repr(o.value), "a present key must give the item filed under it: %r" % (o,))]
        return [(rule + ".embedded-siblings", name, o.kind == "raise" and o.value.name == "KeyError", "an absent key must raise KeyError: %r" % (o,))]

    emit(ctx, run_paths(ctx, gi, lambda I: ((with_table(), KEY), {}), [N - 1], hooks=hooks, post=post_get), gi.where())
    # one archive for all three
    seen = {k: v for k, v in archives.items() if v is not None}
    vals = {repr(v) for v in seen.values()}
    r.ob(rule + ".embedded-siblings", emb.qualname + "#archive", "data" in seen and len(vals) == 1,
         "iteration, length and the table must read the same archive: %s" % ", ".join("%s=%r" % kv for kv in sorted(seen.items())), emb.where())
    # every concrete embedded registry keeps these (no override that leaves the agreement)
    for ci in p.subclasses(emb):
        for nm in ("__iter__", "__len__", "__getitem__", "_data"):
            o_, raw = p.class_attr_def(ci, nm)
            r.ob(rule + ".embedded-siblings", "%s.%s" % (ci.qualname, nm), raw is {"__iter__": it, "__len__": ln, "__getitem__": gi, "_data": data}[nm],
                 "%s overrides %s: the key set agreement decided for %s no longer applies to it" % (ci.name, nm, emb.name), ci.where())
        o_, raw = p.class_attr_def(ci, "_load_entity")
        base_le = p.class_attr_def(emb, "_load_entity")[1]
        r.ob(rule + ".embedded-entity", ci.qualname, isinstance(raw, FuncInfo) and raw is not base_le, "%s must implement _load_entity" % ci.name, ci.where())
    r.floor(rule + ".embedded-key-is-id", 3)
    r.floor(rule + ".embedded-siblings", 4)


def _each_of(v, source: str, image: str, effects=()) -> bool:
    """what a generator yielded is one `image` for every element of the collection `source`, none left out: a generic
    list of that one image, directly or through `yield from` of a mapped collection"""
    if isinstance(v, Term) and v.op == "map" and repr(v).startswith("map(%s,%s" % (source, image)):
        return True  # a generator expression over the collection, handed out as it is
    for e in effects:
        # `yield from <one image per element of the collection>`
        if e[0] == "yield-generic" and isinstance(e[1], AList) and e[1].generic and getattr(e[1], "source", None) == source \
                and not getattr(e[1], "filtered", False) and len(e[1].items) == 1 and repr(e[1].items[0]) == image \
                and isinstance(v, AList) and len(v.items) == 1 and repr(v.items[0]) == image:
            return True
    if not (isinstance(v, AList) and len(v.items) >= 1) or getattr(v, "filtered", False):
        return False
    items = v.items[v.generic_from:] if v.generic else v.items
    if len(items) != 1:
        return False
    x = items[0]
    if v.generic and repr(x) == image:
        return True
    if repr(x) == image and any(e[0] == "loop" and e[1] == source for e in effects) and not any(e[0] == "break" for e in effects):
        return True  # yielded once per round of a loop over the collection (the generator was driven round by round)
    if isinstance(x, Term) and x.op == "each" and x.args:
        inner = x.args[0]
        while isinstance(inner, Term) and inner.op in ("tuple", "list") and len(inner.args) == 1:
            inner = inner.args[0]  # frozen into a tuple / list on the way: the same elements
        inner = repr(inner)
        return inner.startswith("map(%s,%s" % (source, image)) and "filter" not in inner
    if isinstance(x, AList):
        return _each_of(x, source, image)
    return False


def _archive_of(opens):
    """(module, file) of the one archive the evaluation opened"""
    out = set()
    for e in opens:
        s = e[1]
        if isinstance(s, AStruct) and s.kind == "res-stream":
            out.add((repr(s.fields.get("module")), repr(s.fields.get("file"))))
        else:
            out.add(("?", repr(s)))
    if len(out) == 1:
        return out.pop()
    return tuple(sorted(out)) if out else None


# ---------------------------------------------------------------------------
# the filesystem registry


def k22_filesystem(ctx, rule: str):
    p = ctx.program
    r = ctx.report
    fsr = p.get_class(BASE + "FilesystemRegistry")
    hooks = world_hooks(p, [])
    EXT = ("gb", "gbk")
    KEY = Term("key")

    def characterize_hook(I, f, args, kwargs):
        rec = args[1] if len(args) > 1 else (args[0] if args else None)
        I.path.effects.append(("characterize", rec, rec.attrs.get("id") if isinstance(rec, ARec) else None))
        return AStruct("entity", record=rec)

    def resistance_hook(I, f, args, kwargs):
        I.path.effects.append(("find-resistance", args[0] if args else None))
        return Term("resistance-of", Term(repr(getattr(args[0], "ident", args[0])))) if args else None

    hooks["moclo.core.parts.AbstractPart.characterize"] = characterize_hook
    hooks["moclo.registry._utils.find_resistance"] = resistance_hook

    base_cls = p.get_class("moclo.core.parts.AbstractPart")

    _, init = p.class_attr_def(fsr, "__init__")

    def self_obj(I=None):
        """the registry as its own constructor builds it (so that attributes a change adds in __init__ exist), opened on
        the symbolic directory with the default extensions"""
        obj = AObj(fsr, {}, name="registry")
        if I is not None and isinstance(init, FuncInfo):
            n0 = len(I.path.effects)
            I.call_function(init, [obj, Term("url"), base_cls], {})
            del I.path.effects[n0:]
            ext = obj.attrs.get("_extensions")
            if isinstance(ext, AList) and not ext.generic:
                obj.attrs["_extensions"] = tuple(ext.items)
            if tuple(obj.attrs.get("_extensions") or ()) != EXT:
                raise AnalysisError("%s: the default extensions of the filesystem registry are %r, the evaluation assumes %r" % (init.where(), obj.attrs.get("_extensions"), EXT))
            return obj
        obj.attrs.update({"fs": AStruct("fs", url=Term("url")), "base": base_cls, "_extensions": EXT, "_recurse": False})
        return obj

    _, gi = p.class_attr_def(fsr, "__getitem__")
    _, it = p.class_attr_def(fsr, "__iter__")
    _, ln = p.class_attr_def(fsr, "__len__")
    for nm, f_ in (("__getitem__", gi), ("__iter__", it), ("__len__", ln)):
        if not isinstance(f_, FuncInfo):
            raise AnalysisError("anchor vanished: %s.%s" % (fsr.qualname, nm))

    def name_of(ext):
        return repr(Term("format", Term(repr("{}.{}")), KEY, Term(repr(ext))))

    def post_get(I, o):
        name = gi.qualname
        out = []
        tests = [(e[1], v) for e, (t, v) in zip([x for x in o.path.effects if x[0] == "isfile"], [c for c in o.path.choices if c[0].startswith("isfile ")])]
        tests += [(e[1], e[2] == "file") for e in o.path.effects if e[0] == "eafp"]  # asked by opening (EAFP)
        opened = [e[1] for e in o.path.effects if e[0] == "fs-open"]
        found = [n for n, v in tests if v]
        if o.kind == "raise":
            ok = o.value.name == "KeyError" and not found
            det = "a key without a file must raise KeyError (and only then): %r after %r" % (o, tests)
            # the candidates that were tried: key + "." + every declared extension
            tried = {repr(n) for n, _v in tests}
            want = {name_of(x) for x in EXT}
            out.append((rule + ".filesystem-keyerror", name, ok, det))
            if ok:
                out.append((rule + ".filesystem-siblings", name + "#extensions", tried == want,
                            "lookup must try <key>.<ext> for exactly the declared extensions: tried %s" % sorted(tried)))
            return out
        if o.kind != "return":
            return [(rule + ".filesystem-keyerror", name, False, "lookup ends with %r" % (o,))]
        if not found:
            return [(rule + ".filesystem-keyerror", name, False, "lookup returns %r although no candidate file exists" % (o.value,))]
        out.append((rule + ".filesystem-keyerror", name + "#open", len(opened) == 1 and repr(opened[0]) in {repr(x) for x in found} and repr(opened[0]) in {name_of(x) for x in EXT},
                    "the file opened must be the candidate that was found to be a file: opened %r, found %r" % (opened, found)))
        vid, ventity, vres = _item_fields(o.value)
        out.append((rule + ".filesystem-id", name + "#Item", vid is not None and repr(vid) == repr(KEY),
                    "the item's id must be the key looked up (the stem of the file opened): %r" % (vid,)))
        ent_rec = ventity.fields.get("record") if isinstance(ventity, AStruct) and ventity.kind == "entity" else None
        okc = isinstance(ent_rec, ARec) and ent_rec.circular
        out.append((rule + ".circular-record", name, okc, "the file's record must be wrapped in CircularRecord and that record characterised: %r" % (ventity,)))
        okid = isinstance(ent_rec, ARec) and repr(ent_rec.attrs.get("id")) == repr(KEY)
        out.append((rule + ".filesystem-id", name, okid,
                    "the record the item holds must carry the key as its id: %r" % (ent_rec.attrs.get("id") if isinstance(ent_rec, ARec) else None,)))
        ch = [e for e in o.path.effects if e[0] == "characterize"]
        out.append((rule + ".filesystem-id", name + "#typed-as", bool(ch) and repr(ch[-1][2]) == repr(KEY),
                    "the record must carry its final id when it is characterised: %r" % ([e[2] for e in ch],)))
        out.append((rule + ".known-resistance-source", name, vres is not None, "the item must carry the resistance found for its record: %r" % (vres,)))
        return out

    emit(ctx, run_paths(ctx, gi, lambda I: ((self_obj(I), KEY), {}), [N - 1], hooks=hooks, post=post_get), gi.where())

    listings = {}

    def post_iter(I, o):
        name = it.qualname
        if o.kind != "return":
            return [(rule + ".filesystem-siblings", name, False, "iteration ends with %r" % (o,))]
        v = o.value
        ls = [e[1] for e in o.path.effects if e[0] == "listing"]
        I.listing = ls[0] if len(ls) == 1 else None
        want = repr(Term("stem", Term("entry-name")))
        ok = len(ls) == 1 and _each_of(v, "entries", want, o.path.effects)
        return [(rule + ".filesystem-siblings", name + "#stem", ok, "iteration must yield the stem of every entry of one listing: yields %r over %r" % (v, ls))]

    outs = run_paths(ctx, it, lambda I: ((self_obj(I),), {}), [N - 1], hooks=hooks, post=post_iter)
    emit(ctx, outs, it.where())
    for o in outs:
        if getattr(o.interp, "listing", None) is not None:
            listings["iter"] = o.interp.listing

    def post_len(I, o):
        name = ln.qualname
        if o.kind != "return":
            return [(rule + ".filesystem-siblings", name, False, "len() ends with %r" % (o,))]
        ls = [e[1] for e in o.path.effects if e[0] == "listing"]
        I.listing = ls[0] if len(ls) == 1 else None
        v = o.value
        ok = len(ls) == 1 and isinstance(v, Aff) and (v == Aff.sym("len:coll:entries") or "entries" in repr(v))
        return [(rule + ".filesystem-siblings", name, ok, "the length must be the number of entries of one listing: got %r over %r" % (v, ls))]

    outs = run_paths(ctx, ln, lambda I: ((self_obj(I),), {}), [N - 1], hooks=hooks, post=post_len)
    emit(ctx, outs, ln.where())
    for o in outs:
        if getattr(o.interp, "listing", None) is not None:
            listings["len"] = o.interp.listing
    want_files = repr(["*.%s" % x for x in EXT])
    ok = len(listings) == 2 and listings["iter"] == listings["len"]
    r.ob(rule + ".filesystem-siblings", fsr.qualname + "#listing", ok,
         "iteration and length must enumerate the same listing: %r" % (listings,), fsr.where())
    if ok:
        spec = listings["iter"]
        r.ob(rule + ".filesystem-siblings", fsr.qualname + "#extensions", spec[1] is not None and spec[1].replace('"', "'") == want_files.replace('"', "'"),
             "the listing must be filtered by the declared extensions (the ones lookup tries): files=%s" % (spec[1],), fsr.where())
        r.ob(rule + ".filesystem-siblings", fsr.qualname + "#no-directories", spec[2] is not None and "*" in spec[2],
             "the listing must leave sub-directories out: exclude_dirs=%s" % (spec[2],), fsr.where())
    r.floor(rule + ".filesystem-siblings", 3)
    r.floor(rule + ".filesystem-id", 2)


# ---------------------------------------------------------------------------
# the combined registry


def k22_combined(ctx, rule: str):
    p = ctx.program
    r = ctx.report
    comb = p.get_class(BASE + "CombinedRegistry")
    hooks = world_hooks(p, [])
    _, add = p.class_attr_def(comb, "add_registry")
    if not isinstance(add, FuncInfo):
        raise AnalysisError("anchor vanished: %s.add_registry" % comb.qualname)

    # where the registry keeps its table: the empty dict its constructor makes, on the object itself (`self._data = {}`) or on a
    # small object of the code base the constructor hangs on it (`self._union = Union()`, whose `index` is the dict)
    table_path: List[str] = []

    def find_empty_dicts(obj, prefix=(), depth=2):
        found = []
        for an, av in sorted(obj.attrs.items()):
            if isinstance(av, dict) and not av:
                found.append(prefix + (an,))
            elif isinstance(av, AObj) and isinstance(av.cls, ClassInfo) and depth > 0:
                found += find_empty_dicts(av, prefix + (an,), depth - 1)
        return found

    def holder_and_slot(obj, path):
        for an in path[:-1]:
            obj = obj.attrs[an]
        return obj, path[-1]

    def table_of(obj):
        h, slot = holder_and_slot(obj, table_path)
        return h.attrs.get(slot)

    def self_obj(I=None, base="TABLE", name="combined"):
        init = p.class_attr_def(comb, "__init__")[1]
        if not isinstance(init, FuncInfo):
            raise AnalysisError("anchor vanished: %s.__init__" % comb.qualname)
        I2 = I if I is not None else Interp(p, __import__("sa.absint", fromlist=["Path"]).Path(__import__("sa.absdom", fromlist=["Constraints"]).Constraints([]), []), hooks=dict(hooks))
        obj = AObj(comb, {}, name=name)
        n0 = len(I2.path.effects)
        I2.call_function(init, [obj], {})
        del I2.path.effects[n0:]
        found = find_empty_dicts(obj)
        if len(found) != 1:
            raise AnalysisError("%s: the constructor of the combined registry does not make exactly one empty table (found %r)" % (init.where(), found))
        if not table_path:
            table_path.extend(found[0])
        h, slot = holder_and_slot(obj, list(found[0]))
        h.attrs[slot] = AMap(base)
        return obj

    ITEM_ID = Term("id", Term("item"))

    def post_add(I, o):
        name = add.qualname
        out = []
        if o.kind != "return":
            return [(rule + ".combined-first-wins", name, False, "adding a member ends with %r" % (o,))]
        loops = [e for e in o.path.effects if e[0] == "loop"]
        out.append((rule + ".combined-union", name, any(e[1] == "items" for e in loops) and not any(e[0] in ("break", "return-in-loop") for e in o.path.effects),
                    "add_registry must visit every item of the member: loops over %r" % ([e[1] for e in loops],)))
        shadow = [e for e in o.path.effects if e[0] == "map-shadow"]
        if shadow:
            return out + [(rule + ".combined-first-wins", name + "@shadow", False,
                           "the member is laid over the table (ChainMap.new_child): its entries take precedence over those of the members added before it")]
        sd = [e for e in o.path.effects if e[0] == "map-setdefault" and e[1] == "TABLE"]
        stores = [e for e in o.path.effects if e[0] == "map-store" and e[1] == "TABLE"]
        if sd:
            key, val = sd[0][2], sd[0][3]
            ok = len(sd) == 1 and not stores and repr(key) == repr(ITEM_ID) and isinstance(val, AObj) and val.name == "item"
            out.append((rule + ".combined-first-wins", name + "@setdefault", ok,
                        "an item must be filed under its own id only when that id is not there yet: setdefault(%r, %r)" % (key, val)))
            return out
        asked = [e for e in o.path.effects if e[0] in ("map-haskey", "map-getitem", "map-get") and e[1] == "TABLE"]
        present = any(t.split(" ")[0] in ("haskey", "getitem", "get") and v in (True, "hit") for t, v in o.path.choices)
        if present:
            out.append((rule + ".combined-first-wins", name + "@present", not stores,
                        "an id that is already there must keep the item of the member added first: %r" % ([e[2:4] for e in stores],)))
            return out
        ok = len(stores) == 1 and bool(asked) and repr(stores[0][2]) == repr(ITEM_ID) and isinstance(stores[0][3], AObj) and stores[0][3].name == "item" \
            and repr(asked[0][2]) == repr(ITEM_ID)
        out.append((rule + ".combined-first-wins", name + "@absent", ok,
                    "an item whose id is not there yet must be filed under its own id (after asking for that id): stores %r, asked %r"
                    % ([e[2:4] for e in stores], [e[2] for e in asked])))
        return out

    def run_add(I):
        return (self_obj(I), AStruct("member-registry")), {}

    emit(ctx, run_paths(ctx, add, run_add, [], hooks=hooks, post=post_add), add.where())

    # ... and a member that is itself a combined registry (class invariant, by induction over the calls that built it:
    # every key of its table is the id of the item filed under it)
    def run_add_combined(I):
        me = self_obj(I)
        member = self_obj(I, base="MEMBER", name="member")
        I.member_table = table_of(member)
        I.own_table = table_of(me)
        return (me, member), {}

    def post_add_combined(I, o):
        name = add.qualname + "#combined-member"
        if o.kind != "return":
            return [(rule + ".combined-first-wins", name, False, "adding a combined registry ends with %r" % (o,))]
        me = I.kernel_args[0]
        now = table_of(me)
        out = []
        if now is not I.own_table:
            # the table was replaced
            if now is I.member_table:
                return [(rule + ".combined-first-wins", name + "@rebinding", False,
                         "the registry adopts the member's own table (no copy): from then on the two registries are one -- what is added to either shows in both")]
            empty = any(t == "nonempty TABLE" and v is False for t, v in o.path.choices)
            copied = isinstance(now, AMap) and now.base == "copy-of:MEMBER"
            return [(rule + ".combined-first-wins", name + "@rebinding", empty and copied,
                     "the table may be replaced only by a copy of a member's table, and only while it is still empty: now %r (empty: %s)" % (now, empty))]
        if any(t == "nonempty MEMBER" and v is False for t, v in o.path.choices) and not any(e[0].startswith("map-") and e[1] == "TABLE" for e in o.path.effects):
            return []  # nothing to add
        sd = [e for e in o.path.effects if e[0] == "map-setdefault" and e[1] == "TABLE"]
        stores = [e for e in o.path.effects if e[0] == "map-store" and e[1] == "TABLE"]
        loops = [e for e in o.path.effects if e[0] == "loop" and str(e[1]).endswith(":MEMBER")]
        if not loops:
            return [(rule + ".combined-union", name, False, "the entries of the member's table are not visited: %r" % ([e[:3] for e in o.path.effects if e[0] == "loop"],))]
        key = loops[0][2]
        want_val = I.member_table.value_for(key)
        if sd:
            ok = len(sd) == 1 and not stores and repr(sd[0][2]) in (repr(key), repr(Term("id", want_val)) if isinstance(want_val, Term) else "") and repr(sd[0][3]) == repr(want_val)
            return [(rule + ".combined-first-wins", name + "@setdefault", ok,
                     "an entry of the member's table must be filed under its own key only when that key is not there yet: setdefault(%r, %r)" % (sd[0][2], sd[0][3]))]
        present = any(t.split(" ")[0] in ("haskey", "getitem", "get") and v in (True, "hit") for t, v in o.path.choices)
        if present:
            return [(rule + ".combined-first-wins", name + "@present", not stores, "an id that is already there must keep the item of the member added first: %r" % ([e[2:4] for e in stores],))]
        asked = [e for e in o.path.effects if e[0] in ("map-haskey", "map-getitem", "map-get") and e[1] == "TABLE"]
        ok = len(stores) == 1 and bool(asked) and stores[0][4] is False
        return [(rule + ".combined-first-wins", name + "@absent", ok, "an entry whose key is not there yet must be filed (after asking for that key): stores %r" % ([e[2:4] for e in stores],))]

    emit(ctx, run_paths(ctx, add, run_add_combined, [], hooks=hooks, post=post_add_combined), add.where())
    KEY = Term("key")
    for nm in ("__getitem__", "__iter__", "__len__", "__contains__"):
        _, f_ = p.class_attr_def(comb, nm)
        if not isinstance(f_, FuncInfo):
            continue  # inherited from Mapping: derived from the others

        def post_view(I, o, nm=nm, f_=f_):
            name = f_.qualname
            if nm == "__getitem__":
                hit = any(t.startswith("getitem TABLE") and v == "hit" for t, v in o.path.choices)
                asked = [e for e in o.path.effects if e[0] == "map-getitem" and e[1] == "TABLE" and repr(e[2]) == repr(KEY)]
                ok = bool(asked) and ((o.kind == "return" and "TABLE" in repr(o.value)) if hit else (o.kind == "raise" and o.value.name == "KeyError"))
                return [(rule + ".combined-views", name, ok, "lookup must be the table's: %r" % (o,))]
            if nm == "__len__":
                return [(rule + ".combined-views", name, o.kind == "return" and isinstance(o.value, Aff) and o.value == Aff.sym("len:map:TABLE"),
                         "the length must be the number of entries of the table: %r" % (o,))]
            if nm == "__iter__":
                return [(rule + ".combined-views", name, o.kind == "return" and "TABLE" in repr(o.value) and not isinstance(o.value, AList),
                         "iteration must be over the keys of the table: %r" % (o,))]
            ok = o.kind == "return" and (isinstance(o.value, bool) or "TABLE" in repr(o.value)) and any(
                e[0] in ("map-haskey", "contains") or "TABLE" in repr(e) for e in o.path.effects)
            return [(rule + ".combined-views", name, ok, "membership must be membership in the table: %r" % (o,))]

        args = (lambda I, nm=nm: ((self_obj(I),) + ((KEY,) if nm in ("__getitem__", "__contains__") else ()), {}))
        emit(ctx, run_paths(ctx, f_, args, [], hooks=hooks, post=post_view), f_.where())
    _, lsh = p.class_attr_def(comb, "__lshift__")
    if isinstance(lsh, FuncInfo):
        def post_lsh(I, o):
            called = [e for e in o.path.effects if e[0] == "add-called"]
            return [(rule + ".combined-views", lsh.qualname, o.kind == "return" and o.value is I.kernel_args[0] and len(called) == 1 and called[0][1] is I.kernel_args[1],
                     "<< must add the registry and return the combined registry itself: %r" % (o,))]

        def add_hook(I, f, args, kwargs):
            I.path.effects.append(("add-called", args[1] if len(args) > 1 else None))
            return None

        h2 = dict(hooks)
        h2[add.qualname] = add_hook
        emit(ctx, run_paths(ctx, lsh, lambda I: ((self_obj(I), AStruct("member-registry")), {}), [], hooks=h2, post=post_lsh), lsh.where())
    r.floor(rule + ".combined-first-wins", 2)
    r.floor(rule + ".combined-union", 1)
