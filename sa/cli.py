# coding: utf-8
from __future__ import annotations

import argparse
import importlib
import json
import os
import sys
import traceback


def main(argv=None) -> int:
    ap = argparse.ArgumentParser(prog="check")
    ap.add_argument("property")
    ap.add_argument("--tier", default=os.environ.get("VERIF_TIER", "quick"), choices=["quick", "thorough"])
    ap.add_argument("--replay", default=None)
    ap.add_argument("--no-selftest", action="store_true", help="thorough tier without the self-test slice")
    args = ap.parse_args(argv)
    pid = args.property.upper()
    from .loader import AnalysisError

    try:
        mod = importlib.import_module("sa.props.%s" % pid.lower())
    except ImportError as e:
        print("ANALYSIS-ERROR property=%s no check built: %s" % (pid, e))
        return 2
    try:
        from .context import Context

        ctx = Context(pid, args.tier)
        ctx.no_selftest = args.no_selftest or os.environ.get("VERIF_NO_SELFTEST") == "1"
        if args.replay:
            with open(args.replay) as fh:
                rp = json.load(fh)
            print("replaying %d recorded obligation(s) of %s against %s" % (len(rp.get("failed_obligations", [])), pid, ctx.program.root))
            for o in rp.get("failed_obligations", []):
                print("  recorded: %s" % json.dumps(o))
        ctx.guard(mod.run, ctx)
        ctx.discharge_lemmas()
        failed = [o for o in ctx.report.obs if not o.ok]
        if ctx.analysis_errors and not failed:
            raise AnalysisError("; ".join(ctx.analysis_errors[:3]))
        if ctx.analysis_errors:
            for e in ctx.analysis_errors[:5]:
                print("note: part of the analysis could not be completed: %s" % e)
            ctx.report.notes += ["analysis incomplete: %s" % e for e in ctx.analysis_errors[:5]]
            ctx.report.floors.clear()
        if ctx.thorough and not ctx.no_selftest:
            from .selftest import thorough_slice

            thorough_slice(ctx)
        return ctx.report.finish()
    except AnalysisError as e:
        print("ANALYSIS-ERROR property=%s %s" % (pid, e))
        return 2
    except Exception:
        traceback.print_exc()
        print("ANALYSIS-ERROR property=%s internal error in the analyser (see traceback)" % pid)
        return 2


if __name__ == "__main__":
    sys.exit(main())
