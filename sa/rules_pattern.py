# coding: utf-8
"""Pattern-level obligations shared by C01, C04, C05, C11, C12, C17."""
from __future__ import annotations

import ast
from typing import List, Optional, Tuple

from .fold import Enzyme, Raises, _rc
from .kits import (KitClass, describe, enzyme_geometry, enzymes_in_scope, synthetic_generic, synthetic_part, SYM_UP,
                   SYM_DOWN)
from .loader import AnalysisError, ClassInfo, FuncInfo
from .pattern import Atom, Pattern, comp_letter, includes, show_canonical, NUC

N_SET = frozenset(NUC)


def _n_set(ctx):
    return ctx.lettermap.letters("N")


def geometry(ctx, kc: KitClass, rule: str, construct: Optional[str] = None) -> bool:
    """Three adjacent groups, |g1| = |g3| = k, and for each of g1 and g3 a
    cutter site at distance n on a side from which the cut lands on the group
    boundary.  Holds for every string the pattern matches."""
    r = ctx.report
    name = construct or kc.name
    where = kc.structure_func.where() if kc.structure_func else kc.ci.where()
    pat = kc.pattern
    site, n, k = enzyme_geometry(kc.cutter)
    rcsite = _rc(site)
    bad = kc.pattern_error or pat.three_adjacent_groups()
    if not r.ob(rule + ".groups", name, bad is None, bad or "", where):
        return False
    ok = True
    (a1, b1), (a2, b2), (a3, b3) = pat.groups
    for gi, (a, b) in ((1, (a1, b1)), (3, (a3, b3))):
        w = pat.group_width(gi)
        ok &= r.ob(
            rule + ".overhang-width", "%s#g%d" % (name, gi), w == k,
            "group %d has width %s, the %s overhang is %d nt (pattern %s)" % (gi, w, kc.cutter.name, k, pat.text), where,
        )
        fwd = pat.site_before(a, site, n)
        rev = pat.site_after(b, rcsite, n)
        ok &= r.ob(
            rule + ".site-distance", "%s#g%d" % (name, gi), fwd or rev,
            "no %s site (%s / %s) at cut distance %d from group %d in %s" % (kc.cutter.name, site, rcsite, n, gi, pat.text),
            where,
        )
    if kc.role == "module":
        # the two cuts must enclose g1+g2: site before g1 or inside g2 right
        # after g1; site after g3 or inside g2 right before g3 -- covered above.
        pass
    return ok


def generic_classes(ctx, names: List[str]):
    """Synthetic user classes ``class X(Entry): cutter = E`` and
    ``class Y(EntryVector): cutter = E`` for every enzyme name."""
    out = []
    for e in names:
        for role in ("module", "vector"):
            ci = synthetic_generic(ctx.program, role, e)
            kc = describe(ctx.program, ctx.folder, ctx.lettermap, ci)
            if not kc.concrete:
                raise AnalysisError("generic %s class over %s does not fold: %s" % (role, e, kc.abstract_reason))
            out.append(kc)
    return out


def has_generic_structure(ctx, kc: KitClass) -> Optional[bool]:
    """The class's pattern is the one moclo.core derives for a plain user class with the same role and enzyme (`class X(Entry):
    cutter = E`): said of what the class computes, wherever the code that makes it so lives (an override, a class attribute
    the base method honours, a class decorator).  None when the comparison cannot be made."""
    memo = ctx.__dict__.setdefault("_generic_structure_memo", {})
    if kc.name in memo:
        return memo[kc.name]
    res = None
    if kc.cutter is not None and kc.role in ("module", "vector") and kc.pattern_text is not None:
        try:
            ref = describe(ctx.program, ctx.folder, ctx.lettermap, synthetic_generic(ctx.program, kc.role, kc.cutter.name))
            if ref.concrete and ref.pattern_text is not None:
                res = ref.pattern_text == kc.pattern_text
        except AnalysisError:
            res = None
    memo[kc.name] = res
    return res


def enzymes_for_tier(ctx) -> List[str]:
    used = sorted({k.cutter.name for k in ctx.inventory if k.cutter is not None})
    allz = [e[0] for e in enzymes_in_scope()]
    if len(allz) < 20:
        raise AnalysisError("enzyme quantifier shrank to %d (expected 58 with Biopython 1.88)" % len(allz))
    names = sorted(set(allz) | set(used))
    ctx.report.analysed["enzymes"] = len(names)
    ctx.report.analysed["enzyme_geometries"] = len({enzyme_geometry(Enzyme.get(e))[0].__len__() * 10000 + enzyme_geometry(Enzyme.get(e))[1] * 100 + enzyme_geometry(Enzyme.get(e))[2] for e in names})
    return names


def generic_shape(ctx, kc: KitClass, rule: str) -> bool:
    """Beyond the cut geometry: the generic module keeps both sites *outside*
    the groups and the generic vector keeps both *inside* group 2, so that the
    retained fragments carry no site (C01: backbones and sites contribute
    nothing)."""
    r = ctx.report
    pat = kc.pattern
    site, n, k = enzyme_geometry(kc.cutter)
    rcsite = _rc(site)
    if pat.three_adjacent_groups() is not None:
        return False
    (a1, b1), (a2, b2), (a3, b3) = pat.groups
    if kc.role == "module":
        ok = pat.site_before(a1, site, n) and pat.site_after(b3, rcsite, n)
        det = "module pattern must read S N^n (g1)(g2)(g3) N^n rc(S): %s" % pat.text
    else:
        ok = pat.site_after(b1, rcsite, n) and pat.site_before(a3, site, n)
        det = "vector pattern must read (g1)(N^n rc(S) ... S N^n)(g3): %s" % pat.text
    return r.ob(rule, kc.name, ok, det, kc.structure_func.where() if kc.structure_func else "")


# ---------------------------------------------------------------------------
# C05


def part_erasure(ctx, kc: KitClass, rule: str, symbolic: bool = False) -> bool:
    r = ctx.report
    p = ctx.program
    where = kc.structure_func.where() if kc.structure_func else kc.ci.where()
    gen_ci = synthetic_generic(p, kc.role, kc.cutter.name, "Generic%s_%s" % (kc.role.title(), kc.cutter.name))
    gen = describe(p, ctx.folder, ctx.lettermap, gen_ci)
    site, n, k = enzyme_geometry(kc.cutter)
    pat = kc.pattern
    bad = kc.pattern_error or gen.pattern_error or pat.three_adjacent_groups() or gen.pattern.three_adjacent_groups()
    if not r.ob(rule + ".groups", kc.name, bad is None, bad or "", where):
        return False
    nset = _n_set(ctx)
    c_part = pat.canonical(True, nset)
    c_gen = gen.pattern.canonical(True, nset)
    ok = r.ob(
        rule + ".erasure", kc.name, c_part == c_gen,
        "with the overhang groups erased the part pattern must equal the generic %s pattern of %s: %s  vs  %s"
        % (kc.role, kc.cutter.name, show_canonical(c_part), show_canonical(c_gen)),
        where,
    )
    sig = kc.signature
    if not (isinstance(sig, tuple) and len(sig) == 2 and all(isinstance(s, str) for s in sig)):
        r.ob(rule + ".signature", kc.name, False, "signature %r is not a pair of strings" % (sig,), where)
        return False
    up, down = sig
    segs = pat.segments()
    g1 = "".join(a.ch for a in segs[1])
    g3 = "".join(a.ch for a in segs[3])
    want1, want3 = (up, down) if kc.role == "module" else (down, up)
    ok &= r.ob(
        rule + ".slots", kc.name, (g1, g3) == (want1, want3) and all(a.fixed for a in segs[1] + segs[3]),
        "%s role: group 1/3 must hold %s/%s, pattern has %s/%s"
        % (kc.role, _show(want1), _show(want3), _show(g1), _show(g3)),
        where,
    )
    ok &= r.ob(
        rule + ".sig-width", kc.name, len(up) == k and len(down) == k,
        "signature lengths %d/%d differ from the %s overhang (%d)" % (len(up), len(down), kc.cutter.name, k), where,
    )
    return ok


def _show(s: str) -> str:
    return "".join(c if c.isascii() else "U%d" % (ord(c) & 0xF) for c in s)


# ---------------------------------------------------------------------------
# C12


def revcomp_symmetry(ctx, kc: KitClass, rule: str) -> bool:
    pat = kc.pattern
    r = ctx.report
    where = kc.structure_func.where() if kc.structure_func else ""
    bad = pat.three_adjacent_groups()
    if bad is not None:
        return r.ob(rule, kc.name, False, bad, where)
    c1 = pat.canonical()
    c2 = pat.revcomp(comp_letter).canonical()
    return r.ob(
        rule, kc.name, c1 == c2,
        "pattern is not its own reverse complement (groups 1 and 3 exchanged): %s  vs  %s"
        % (show_canonical(c1), show_canonical(c2)),
        where,
    )


# ---------------------------------------------------------------------------
# C11


# The vector classes confirmed by hand (on the tree the checks were built on) to embed the sites of the next level: the
# reference for later changes.  A class of this table that still exists is an instance whether or not its structure still
# differs from the generic one -- when it no longer does, its products are no modules of the next level, which is what the
# inclusion obligation then reports (instead of the instance silently dropping out of the count).
CONFIRMED_NEXT_LEVEL_VECTORS = ("CIDAREntryVector", "CIDARCassetteVector", "CIDARDeviceVector", "EcoFlexCassetteVector",
                                "EcoFlexDeviceVector", "MoCloEntryVector", "MoCloCassetteVector")


def next_level_instances(ctx) -> List[Tuple[KitClass, Optional[KitClass], KitClass]]:
    """(vector, product-or-None, next-level module class)."""
    inv = [k for k in ctx.inventory if k.concrete]
    out = []
    p = ctx.program
    generic_of = {"vector": p.get_class("moclo.core.vectors.AbstractVector"), "module": p.get_class("moclo.core.modules.AbstractModule")}
    memo = {}

    def custom(k) -> bool:
        """the class's structure is not the generic one of moclo.core for its enzyme (wherever the code that makes it so
        lives: in the class, in a base class of the kit, in a mixin of moclo.core)"""
        if k.name not in memo:
            g_ = has_generic_structure(ctx, k)
            if g_ is not None:
                memo[k.name] = not g_
                return memo[k.name]
            base = generic_of.get(k.role)
            raw = base.attrs.get("structure") if base is not None else None
            if not isinstance(raw, FuncInfo) or k.pattern_text is None:
                memo[k.name] = k.structure_owner is not None and k.structure_owner.module is not None and k.structure_owner.module.name.startswith("moclo.kits.") and not _delegates_to_super(k)
            else:
                try:
                    memo[k.name] = ctx.folder.call_func(raw, k.ci, [], {}) != k.pattern_text
                except AnalysisError:
                    memo[k.name] = True
        return memo[k.name]

    for v in inv:
        if v.role != "vector" or v.is_part or v.level is None:
            continue
        if not custom(v) and v.ci.name not in CONFIRMED_NEXT_LEVEL_VECTORS:
            continue
        cands = [m for m in inv if m.role == "module" and not m.is_part and m.ci.module is v.ci.module and m.level == v.level]
        if len(cands) != 1:
            # several module classes of that level: the one with the generic structure of moclo.core (the others are products)
            cands = [m for m in cands if not custom(m)]
        if len(cands) != 1:
            raise AnalysisError(
                "cannot pair %s with the module class of its level (%d candidates)" % (v.name, len(cands))
            )
        out.append((v, None, cands[0]))
    # products that carry the next level's sites themselves
    for m in inv:
        if m.role == "module" and not m.is_part and m.level is not None and custom(m):
            # the vector of the same level+1 in the same module, and the module class of that level
            vecs = [v for v in inv if v.role == "vector" and not v.is_part and v.ci.module is m.ci.module
                    and v.level == (m.level + 1) and v.cutter == m.cutter]
            nxt = [x for x in inv if x.role == "module" and not x.is_part and x.ci.module is m.ci.module
                   and x.level == m.level + 1 and not custom(x)]
            if len(vecs) != 1 or len(nxt) != 1:
                raise AnalysisError("cannot pair product %s with its vector / next level" % m.name)
            out.append((vecs[0], m, nxt[0]))
    return out


def effective_structure_owner(p, kc: KitClass):
    """the class whose structure() does the work for kc: pass-through overrides (`return super(...).structure()`) skipped"""
    owner, func = kc.structure_owner, kc.structure_func
    guard = 0
    while owner is not None and func is not None and _delegates_node(func.node) and guard < 10:
        guard += 1
        nxt_owner, nxt = p.class_attr_def(kc.ci, "structure", after=owner)
        if nxt_owner is None or not isinstance(nxt, FuncInfo):
            break
        owner, func = nxt_owner, nxt
    return owner


def _delegates_to_super(kc: KitClass) -> bool:
    """structure() is just ``return super(...).structure()``."""
    return _delegates_node(kc.structure_func.node)


def _delegates_node(fn) -> bool:
    body = [s for s in fn.body if not (isinstance(s, ast.Expr) and isinstance(s.value, ast.Constant))]
    if len(body) == 1 and isinstance(body[0], ast.Return) and isinstance(body[0].value, ast.Call):
        f = body[0].value.func
        if isinstance(f, ast.Attribute) and isinstance(f.value, ast.Call) and isinstance(f.value.func, ast.Name) \
                and f.value.func.id == "super":
            return True
    return False


def _one_run(atoms: List[Atom], what: str):
    idx = [i for i, a in enumerate(atoms) if not a.fixed]
    if len(idx) != 1:
        raise AnalysisError("%s: expected exactly one unbounded run, found %d" % (what, len(idx)))
    return idx[0]


def next_level_inclusion(ctx, vec: KitClass, prod: Optional[KitClass], nxt: KitClass, rule: str, v_min: int = 2) -> bool:
    r = ctx.report
    B = nxt.pattern
    if B.three_adjacent_groups() is not None:
        return r.ob(rule, "%s->%s" % (vec.name, nxt.name), False, "next-level pattern malformed", nxt.ci.where())
    bi = _one_run(B.atoms, nxt.name)
    if not B.atoms[bi].is_n:
        raise AnalysisError("%s: unbounded run is not N" % nxt.name)
    headB, tailB = B.atoms[:bi], B.atoms[bi + 1:]
    if prod is None:
        A = vec.pattern
        name = "%s->%s" % (vec.ci.name, nxt.ci.name)
        where = vec.structure_func.where()
        bad = A.three_adjacent_groups()
        if bad is not None:
            return r.ob(rule, name, False, bad, where)
        pre, g1, g2, g3, post = A.segments()
        if not all(a.fixed for a in pre + g1 + g3 + post):
            raise AnalysisError("%s: unbounded atom outside group 2" % vec.name)
        preA, postA = pre + g1, g3 + post
        left_limit, right_limit = len(pre), 0
    else:
        A = prod.pattern
        name = "%s+%s->%s" % (vec.ci.name, prod.ci.name, nxt.ci.name)
        where = prod.structure_func.where()
        bad = A.three_adjacent_groups()
        if bad is not None:
            return r.ob(rule, name, False, bad, where)
        pre, g1, g2, g3, post = A.segments()
        ri = _one_run(g1 + g2 + g3, prod.name)
        body = g1 + g2 + g3
        if not body[ri].is_n:
            raise AnalysisError("%s: unbounded run is not N" % prod.name)
        preA, postA = body[:ri], body[ri + 1:]
        left_limit, right_limit = len(preA), 0
    alts_head = [(lo, hi, w) for lo, hi, w in B.alts if hi <= bi]
    alts_tail = [(lo - (bi + 1), hi - (bi + 1), w) for lo, hi, w in B.alts if lo > bi]
    aligns = includes(preA, v_min, postA, headB, tailB, alts_head=alts_head, alts_tail=alts_tail)
    ok = r.ob(
        rule + ".inclusion", name, bool(aligns),
        "no alignment: a product %s . N{%d,} . %s is not always accepted by %s (%s)"
        % ("".join(map(repr, preA)), v_min, "".join(map(repr, postA)), nxt.ci.name, B.text),
        where,
    )
    if not aligns:
        return False
    # containment of the inserts in the next level's target, for some valid alignment
    (b1s, b1e), _, (b3s, b3e) = B.groups
    good = []
    for delta, eps in aligns:
        start = len(preA) + delta - len(headB)
        g1_start = start + b1s
        # g3 start in postA coordinates (0 = first atom of postA)
        g3_start = -eps + (b3s - (bi + 1))
        if g1_start <= left_limit and g3_start >= right_limit:
            good.append((delta, eps))
    ok &= r.ob(
        rule + ".containment", name, bool(good),
        "in every alignment %s the next level's overhang groups eat into the insert (target of %s would not contain every module target)"
        % (aligns, nxt.ci.name),
        where,
    )
    r.note("C11 %s: alignments %s, containing %s" % (name, aligns, good))
    return ok


# ---------------------------------------------------------------------------
# C04 (2): the illegal-site screen


def _norm_threshold(test: ast.expr):
    """Smallest fragment count for which ``test`` is true, and the node of
    the len(...) call; test must be a comparison of len(X.catalyse(Y)) with an
    integer constant."""
    neg = False
    while isinstance(test, ast.UnaryOp) and isinstance(test.op, ast.Not):
        neg = not neg
        test = test.operand
    if not (isinstance(test, ast.Compare) and len(test.ops) == 1):
        return None
    l, op, rr = test.left, test.ops[0], test.comparators[0]

    def is_len(x):
        return isinstance(x, ast.Call) and isinstance(x.func, ast.Name) and x.func.id == "len" and len(x.args) == 1

    def const(x):
        return x.value if isinstance(x, ast.Constant) and isinstance(x.value, int) else None

    if is_len(l) and const(rr) is not None:
        c, lennode = const(rr), l
    elif is_len(rr) and const(l) is not None:
        c, lennode = const(l), rr
        op = {ast.Lt: ast.Gt, ast.LtE: ast.GtE, ast.Gt: ast.Lt, ast.GtE: ast.LtE}.get(type(op), type(op))()
    else:
        return None
    if neg:
        op = {ast.Lt: ast.GtE, ast.LtE: ast.Gt, ast.Gt: ast.LtE, ast.GtE: ast.Lt}.get(type(op), type(op))()
    if isinstance(op, ast.Gt):
        return c + 1, lennode
    if isinstance(op, ast.GtE):
        return c, lennode
    return ("other", lennode)


def screen_of(ctx, fi: FuncInfo):
    """Find ``if len(self.cutter.catalyse(<matched region>)) > T: raise ...``
    in the resolved ``_match`` implementation.  Returns a dict or None."""
    res = []
    for node in ast.walk(fi.node):
        if not isinstance(node, ast.If):
            continue
        nt = _norm_threshold(node.test)
        if nt is None:
            continue
        thr, lennode = nt
        call = lennode.args[0]
        if not (isinstance(call, ast.Call) and isinstance(call.func, ast.Attribute) and call.func.attr == "catalyse"):
            continue
        recv = call.func.value
        recv_src = fi.module.segment(recv)
        arg = call.args[0] if call.args else None
        raises = bool(node.body) and isinstance(node.body[-1], ast.Raise)
        res.append(dict(node=node, threshold=thr, receiver=recv_src, arg=arg, raises=raises, lineno=node.lineno,
                        kwargs=[k.arg for k in call.keywords], nargs=len(call.args)))
    return res


def screen_obligation(ctx, kc: KitClass, rule: str, informational: bool = False, threshold: bool = True) -> bool:
    """module-role classes whose sites flank the target: the resolved _match
    digests the matched region with the class's own cutter and raises above
    T = sites + 1 fragments."""
    r = ctx.report
    p = ctx.program
    from .roles import match_slot

    owner, raw = p.class_attr_def(kc.ci, match_slot(p))
    if not isinstance(raw, FuncInfo):
        return r.ob(rule, kc.name, False, "_match does not resolve to a function", kc.ci.where())
    site, n, k = enzyme_geometry(kc.cutter)
    rcsite = _rc(site)
    pat = kc.pattern
    nsites = len(pat.count_literal(site)) + len(pat.count_literal(rcsite))
    where = raw.where()
    info = getattr(ctx, "k21_info", {}).get(kc.name) or getattr(ctx, "k21_info", {}).get(raw.qualname)
    if info is not None:
        # decided from the abstract evaluation of the resolved _match (kernel K21): robust to named intermediates and early returns
        det = []
        dig = info["digests"]
        if not dig:
            if threshold:
                det.append("the matched region is never digested")
        else:
            if not all(d["own_cutter"] for d in dig):
                det.append("the digest does not use the class's own cutter")
            if not all(d["whole_match"] for d in dig):
                det.append("the digested region is not the whole match (group 0)")
            if any(d["extra_args"] for d in dig):
                det.append("catalyse is called with extra arguments")
        rs = [x for x in info["raises"] if x["min_fragments"] is not None]
        if not threshold:
            pass
        elif not rs:
            det.append("no path rejects a record on the number of fragments")
        else:
            thr = min(x["min_fragments"] for x in rs)
            if thr != nsites + 2:
                det.append("the screen fires from %s fragments on, but the pattern carries %d site(s): a digest with one extra cut has %d fragments" % (thr, nsites, nsites + 2))
        return r.ob(rule, kc.name, not det, "; ".join(det) + " [%s]" % raw.qualname, where)
    screens = screen_of(ctx, raw)
    if not screens:
        # the evaluation of _match (K21) gave no verdict and the guard is not spelled out in _match itself: when a digest is
        # within reach of it (a helper, a hook method), what that digest decides is not known here -- undecided, not absent
        from .roles import reach

        within = [raw] + [g for g in reach(p, raw, 3)]
        me = raw.node.args.args[0].arg if raw.node.args.args else "self"
        for n in ast.walk(raw.node):
            if isinstance(n, ast.Attribute) and isinstance(n.value, ast.Name) and n.value.id == me:
                o2, g2 = p.class_attr_def(kc.ci, n.attr)
                if isinstance(g2, FuncInfo):
                    within.append(g2)
                    within += reach(p, g2, 2)
        if any(isinstance(n, ast.Attribute) and n.attr == "catalyse" for g in within for n in ast.walk(g.node)):
            raise AnalysisError("%s: the illegal-site screen of %s is not written in _match itself and its evaluation gave no verdict; "
                                "what the digest within its reach decides is not known" % (where, raw.qualname))
        return r.ob(rule, kc.name, False,
                    "_match resolves to %s which has no illegal-site screen (len(cutter.catalyse(...)) guard raising)" % raw.qualname,
                    where)
    s = screens[0]
    ok = True
    det = []
    if s["receiver"] not in ("self.cutter", "type(self).cutter", "self.__class__.cutter"):
        ok = False
        det.append("digest uses %s, not the class's own cutter" % s["receiver"])
    if not s["raises"]:
        ok = False
        det.append("the guard does not raise")
    if s["nargs"] != 1 or s["kwargs"]:
        ok = False
        det.append("catalyse is called with extra arguments (%s)" % s["kwargs"])
    region = _digest_region(raw, s["arg"])
    if region is None:
        raise AnalysisError("%s: cannot tell which region the screen digests: %s" % (where, raw.module.segment(s["arg"]) if s["arg"] is not None else "?"))
    if region not in ("group0", "record"):
        ok = False
        det.append("the digested region is %s, which does not cover the whole target" % region)
    if s["threshold"] == "other":
        ok = False
        det.append("the guard is not a lower bound on the number of fragments")
    elif s["threshold"] != nsites + 2:
        ok = False
        det.append(
            "the guard fires from %s fragments on, but the pattern carries %d site(s): a digest with one extra cut has %d fragments"
            % (s["threshold"], nsites, nsites + 2)
        )
    # the guard must sit on the path to the return of the match: it is a top-level statement of the function
    if s["node"] not in raw.node.body:
        ok = False
        det.append("the guard is not on every path to the return")
    return r.ob(rule, kc.name, ok, "; ".join(det) + " [%s]" % raw.qualname, where)


def _digest_region(fi: FuncInfo, arg: Optional[ast.expr]) -> Optional[str]:
    """Classify the digested expression: 'group0' (the whole match),
    'record' (whole sequence), 'group<i>'."""
    if arg is None:
        return None
    e = arg
    # strip .seq
    while isinstance(e, ast.Attribute) and e.attr == "seq" and not (isinstance(e.value, ast.Name) and e.value.id == "self"):
        e = e.value
    if isinstance(e, ast.Attribute) and e.attr == "seq" and isinstance(e.value, ast.Name) and e.value.id == "self":
        return "record"
    if isinstance(e, ast.Attribute) and e.attr == "record":
        return "record"
    if isinstance(e, ast.Call) and isinstance(e.func, ast.Attribute) and e.func.attr == "group":
        # receiver must be the match obtained from super()._match / self._match
        if not e.args:
            return "group0"
        a = e.args[0]
        if isinstance(a, ast.Constant) and isinstance(a.value, int):
            return "group%d" % a.value
        return None
    return None


def module_screen_rule(ctx, rule: str, threshold: bool = True):
    """Every module-role class whose sites flank the target screens exactly the
    matched region (group 0) with its own cutter, at the right threshold."""
    r = ctx.report
    for kc in ctx.inventory:
        if not kc.concrete or kc.role != "module" or kc.pattern is None or kc.pattern_error:
            continue
        site, n, k = enzyme_geometry(kc.cutter)
        pat = kc.pattern
        if pat.three_adjacent_groups() is not None:
            continue
        (a1, b1), _, (a3, b3) = pat.groups
        flank = pat.site_before(a1, site, n) and pat.site_after(b3, _rc(site), n)
        if flank:
            screen_obligation(ctx, kc, rule, threshold=threshold)
        else:
            r.note("%s keeps its sites inside the target by design: no screen obligation" % kc.name)
