# coding: utf-8
"""Remaining rules: K19 (_match hands the topology to the search), order
independence of the module list, characterize(), accessor totality (C17c),
case-taint (C18) and read-set (C19) over the walk kernels."""
from __future__ import annotations

import ast
import re
from typing import Dict, List, Optional, Set

from .absdom import Aff, Piece
from .absint import (ACollection, AExc, AList, AMap, AObj, AReMatch, ARec, ASeq, AStruct, BoundMethod, Frame, Interp,
                     RaiseSig, Term, AEnzymeV)
from .kernels import N, ZERO, FRAG_HOOKS, circ_record, emit, run_paths, region_name, _structured_obj, _spans, match_facts
from .kernels2 import NORMALISERS, _entity, _entity_hooks, _is_exc, _mgr_world, strip_norm
from .loader import AnalysisError, ClassInfo, Ext, FuncInfo
from .rules_ast import chain_of


def match_slot(p):
    from .roles import match_slot as _ms

    return _ms(p)


# ---------------------------------------------------------------------------
# K19  StructuredRecord._match


def k19_match(ctx, pid: str):
    from .absint import LibRef as LibRefT

    p = ctx.program
    sr = p.get_class("moclo.core._structured.StructuredRecord")
    from .roles import match_slot

    fi = sr.attrs.get(match_slot(p))
    if not isinstance(fi, FuncInfo):
        raise AnalysisError("anchor vanished: StructuredRecord._match")
    rx_cls = p.get_class("moclo.regex.DNARegex")

    def search_hook(I, f, args, kwargs):
        I.path.effects.append(("search", args[1:], dict(kwargs)))
        if I.path.choose("search", ["found", "none"]) == "none":
            return None
        return Term("the-match")

    def get_regex_hook(I, f, args, kwargs):
        I.path.effects.append(("get-regex", args[0]))
        return AObj(rx_cls, {}, name="rx")

    from .roles import regex_getter

    hooks = {"moclo.regex.DNARegex.search": search_hook, regex_getter(p).qualname: get_regex_hook}
    # the search may be entered through another method of the pattern class (search_with(record, options) -> _scan(...)):
    # every method that takes the target and the `linear` flag stands for the search; arguments are read by name
    for raw_ in rx_cls.attrs.values():
        if isinstance(raw_, FuncInfo) and raw_.qualname not in hooks:
            ps_ = [a.arg for a in raw_.node.args.posonlyargs + raw_.node.args.args]
            if raw_.kind in ("method", "classmethod") and ps_:
                ps_ = ps_[1:]
            if "linear" in ps_ and ps_ and ps_[0] in ("string", "target", "record", "sequence", "seq"):
                def by_name(I, f, args, kwargs, ps=ps_, skip=(raw_.kind in ("method", "classmethod"))):
                    given = dict(zip(ps, list(args)[1:] if skip else list(args)))
                    given.update(kwargs)
                    kw = {k: v for k, v in given.items() if k in ("linear",)}
                    # a window handed on from the public entry point's defaults is no restriction
                    for k in ("pos", "endpos"):
                        v = given.get(k)
                        if v is not None and not (k == "pos" and v == 0) and not (isinstance(v, int) and v >= 2 ** 31) and not isinstance(v, LibRefT) \
                                and "maxsize" not in repr(v).lower():
                            kw[k] = v
                    return search_hook(I, f, [None, given.get(ps[0])], kw)
                hooks[raw_.qualname] = by_name

    for topo in (None, "circular", "Circular", "linear", "<CircularRecord>"):
        def make_args(I, topo=topo):
            # a plain SeqRecord whose annotation says what it is; a CircularRecord is circular by construction (its
            # constructor refuses a linear annotation) and is searched circularly whatever the flag says (K2)
            rec = circ_record() if topo == "<CircularRecord>" else ARec(False, [Piece("W", ZERO, N)], Term("rec"), ctor="input")
            rec.attrs["annotations"] = {} if topo in (None, "<CircularRecord>") else {"topology": topo}
            obj = AObj(sr, {"record": rec, "seq": ASeq("Seq", rec.pieces)}, name="x")
            I.rec = rec
            return (obj,), {}

        def post(I, o, topo=topo):
            name = fi.qualname
            calls = [e for e in o.path.effects if e[0] == "search"]
            if len(calls) != 1:
                return [("K19.search-call", name, False, "the structure must be searched exactly once, found %d searches" % len(calls))]
            args, kw = calls[0][1], calls[0][2]
            out = []
            out.append(("K19.search-call", name, bool(args) and args[0] is I.rec, "the record itself must be searched, got %r" % (args[:1],)))
            lin = kw.get("linear", args[3] if len(args) > 3 else True)
            want = (topo or "circular").lower() != "circular"
            if topo == "<CircularRecord>":
                want = lin  # either flag: the search doubles the text of a CircularRecord regardless (K2)
            out.append(("K19.topology-flag", name, lin is want or lin == want,
                        "linear=%r handed to the search for a record whose topology annotation is %r (expected %r)" % (lin, topo, want)))
            extra = [k for k in kw if k not in ("linear",)] + list(args[1:3])
            out.append(("K19.whole-range", name, not extra, "the search must cover every start position (no pos/endpos restriction): %r %r" % (args[1:], kw)))
            if ("search", "none") in o.path.choices:
                out.append(("K19.no-match", name, o.kind == "raise" and _is_exc(p, o.value, "moclo.errors.InvalidSequence"),
                            "a record without the structure must raise InvalidSequence, got %r" % (o,)))
            else:
                out.append(("K19.match", name, o.kind == "return" and o.value == Term("the-match"), "the match found must be returned as is, got %r" % (o,)))
            return out

        emit(ctx, run_paths(ctx, fi, make_args, [N - 1], hooks=hooks, post=post), fi.where(), "topology=%s:" % topo)
    ctx.report.floor("K19.topology-flag", 4)
    # the per-class pattern is compiled from the class's own structure()
    from .roles import _is_pattern_compiler

    gr = regex_getter(p)
    compiles = [n for n in ast.walk(gr.node) if isinstance(n, ast.Call) and _is_pattern_compiler(p, gr, n.func)]
    srcs = [p.modules[gr.module.name].segment(n) for n in compiles]
    cls_name = gr.node.args.args[0].arg if gr.node.args.args else "cls"
    ok = bool(compiles) and all(
        len(n.args) == 1 and not n.keywords and isinstance(n.args[0], ast.Call) and not n.args[0].args and not n.args[0].keywords
        and isinstance(n.args[0].func, ast.Attribute) and n.args[0].func.attr == "structure"
        and isinstance(n.args[0].func.value, ast.Name) and n.args[0].func.value.id == cls_name for n in compiles)
    ctx.report.ob("K19.own-structure", gr.qualname, ok, "the pattern must be compiled from cls.structure(): %r" % (srcs,), gr.where())


def k21_match_overrides(ctx, pid: str):
    """AbstractModule._match / AbstractVector._match (and any override on the
    MRO of a kit class): the only ways out are the structure search's own
    verdict (super()._match), the illegal-site screen on the digest of the
    match, or returning that very match.  A rejection computed from the linear
    sequence (or anything else) makes acceptance depend on where the origin is."""
    p = ctx.program
    r = ctx.report
    sr = p.get_class("moclo.core._structured.StructuredRecord")
    from .roles import match_slot

    MATCH = match_slot(p)
    base_match = sr.attrs.get(MATCH)
    if not isinstance(base_match, FuncInfo):
        raise AnalysisError("anchor vanished: StructuredRecord._match")
    rx_cls = p.get_class("moclo.regex.DNARegex")

    from .roles import regex_getter as _rg

    getter_name = _rg(p).name

    # which methods take part in the evaluation of _match: _match itself and whatever it reaches through self.<name>
    def reached(ci):
        names, todo, out = set(), [MATCH], []
        while todo:
            nm = todo.pop()
            if nm in names:
                continue
            names.add(nm)
            for c in p.mro(ci):
                if isinstance(c, ClassInfo):
                    raw = c.attrs.get(nm)
                    if isinstance(raw, FuncInfo):
                        out.append(raw)
                        me = raw.node.args.args[0].arg if raw.node.args.args else "self"
                        for n in ast.walk(raw.node):
                            if isinstance(n, ast.Attribute) and isinstance(n.value, ast.Name) and n.value.id == me and n.attr not in names:
                                for c2 in p.mro(ci):
                                    if isinstance(c2, ClassInfo) and isinstance(c2.attrs.get(n.attr), FuncInfo) and n.attr not in (getter_name, "structure"):
                                        todo.append(n.attr)
                                        break
        return sorted(names)

    # one evaluation per distinct resolution of those methods (AbstractModule and AbstractVector on today's tree)
    groups: Dict[tuple, list] = {}
    for kc in ctx.inventory:
        sig = []
        for nm in reached(kc.ci):
            o_, raw = p.class_attr_def(kc.ci, nm)
            if isinstance(raw, FuncInfo):
                sig.append(raw.qualname)
        groups.setdefault(tuple(sig), []).append(kc)
    funcs = []
    for sig, kcs in sorted(groups.items()):
        # the most general class with that resolution that declares a cutter slot
        rep = None
        for c in p.mro(kcs[0].ci):
            if isinstance(c, ClassInfo) and p.is_subclass(c, sr) and p.class_attr_def(c, "cutter")[0] is not None:
                s2 = []
                for nm in reached(c):
                    o_, raw = p.class_attr_def(c, nm)
                    if isinstance(raw, FuncInfo):
                        s2.append(raw.qualname)
                if tuple(s2) == sig:
                    rep = c
        if rep is None:
            rep = kcs[0].ci
        o_, fi = p.class_attr_def(rep, MATCH)
        label = ([q for q in sig if not q.startswith(sr.qualname + ".")] or [fi.qualname + "@" + rep.name])[0]
        funcs.append((rep, fi, label, kcs))
    sm_cls = p.get_class("moclo.regex.SeqMatch")
    if not hasattr(ctx, "k21_info"):
        ctx.k21_info = {}
    from .kernels import S0 as S0_, E3 as E3_
    for owner, fi, label, kcs in funcs:
        def search_hook(I, f, args, kwargs):
            I.path.effects.append(("super-match",))
            if I.path.choose("structure", ["found", "none"]) == "none":
                return None
            rec = args[1]
            rm = AReMatch(ASeq("str", rec.pieces + rec.pieces), _spans())
            from .kernels2 import new_seqmatch

            I.the_match = new_seqmatch(p, rm, rec, name="the-match")
            return I.the_match

        def get_regex_hook(I, f, args, kwargs):
            return AObj(rx_cls, {}, name="rx")

        hooks = dict(FRAG_HOOKS)
        from .roles import search_entries, bind_search_args

        for raw_, ps_, skip_ in search_entries(p):
            # (the stand-in reads the record it is given by name: search(record, ...), _scan(string, pos, endpos, linear))
            hooks[raw_.qualname] = (lambda I, f, args, kwargs, ps=ps_, skip=skip_:
                                    search_hook(I, f, [None, bind_search_args(ps, skip, args, kwargs).get(ps[0])], {}))
        from .roles import regex_getter

        hooks[regex_getter(p).qualname] = get_regex_hook

        def make_args(I, owner=owner):
            rec = circ_record("W:x", ident="x")
            rec.attrs["annotations"] = {}
            obj = AObj(owner, {"record": rec, "seq": ASeq("Seq", rec.pieces), "cutter": AEnzymeV(True)}, name="x")
            return (obj,), {}

        def post(I, o, fi=fi, label=label, kcs=kcs):
            name = label
            found = ("structure", "found") in o.path.choices
            asked = any(e[0] == "super-match" for e in o.path.effects)
            if not asked:
                return [("K21.match-override", name, False, "the verdict does not come from the structure search (super()._match is not consulted): %r" % (o,))]
            if not found:
                return [("K21.match-override", name, o.kind == "raise" and _is_exc(p, o.value, "moclo.errors.InvalidSequence"),
                         "no structure match must surface as the search's InvalidSequence, got %r" % (o,))]
            for e in o.path.effects:
                if e[0] == "text-search" and not e[2]:
                    ctx.report.ob("K21.case-sensitive-search", "%s#%s" % (name, e[1]), False,
                                  "the matched text is searched with %s without case normalisation: a lower-case spelling of the same record is screened differently" % (e[1] if "." in e[1] else "str." + e[1]), fi.where())
            screened = [t for t, v in o.path.choices if t.startswith("arith ") and "len(fragments" in t]
            info = ctx.k21_info.setdefault(name, {"raises": [], "digests": []})
            for kc_ in kcs:
                ctx.k21_info[kc_.name] = info
            for e in o.path.effects:
                if e[0] == "catalyse":
                    recv, cargs, ckw = e[1], e[2], e[3]
                    whole = False
                    if set(ckw) <= {"linear"} and ckw.get("linear", True) is True:
                        ckw = {}  # the library's default, spelled out: the fragment is digested as a linear molecule
                    if len(cargs) == 1 and not ckw and isinstance(cargs[0], (ASeq, ARec)):
                        whole = I.same_pieces(cargs[0].pieces, I.circular_interval("W:x", N, S0_, E3_))
                    info["digests"].append({"own_cutter": recv is I.kernel_args[0].attrs.get("cutter"), "whole_match": whole,
                                            "extra_args": len(cargs) != 1 or bool(ckw)})
            if o.kind == "raise" and screened:
                lens = [s_ for s_ in I.path.cons.facts for s_ in [s_]]
                lb = None
                for sym in {x for f in I.path.cons.facts for x in f.symbols() if x.startswith("len(fragments")}:
                    b = I.path.cons.bounds(Aff.sym(sym))[0]
                    lb = b if lb is None else max(lb, b)
                info["raises"].append({"min_fragments": lb, "moclo_error": _is_exc(p, o.value, "moclo.errors.InvalidSequence")})
            if o.kind == "raise" and screened and not _is_exc(p, o.value, "moclo.errors.InvalidSequence"):
                return [("K21.match-override", name, False,
                         "a record screened out for an illegal site must be refused with IllegalSite (an InvalidSequence): this path ends with %r instead"
                         % (o.value,))]
            if o.kind == "raise" and not screened and any(e[0] == "text-search" and e[1].startswith("compsite.") and e[2] for e in o.path.effects):
                raise AnalysisError("%s: the illegal-site screen counts matches of the enzyme's compiled site pattern on upper-cased text instead of "
                                    "digesting the match; that route is outside the modelled library contract (T4), the screen is not decided" % fi.where())
            if o.kind == "raise":
                ok = bool(screened) and _is_exc(p, o.value, "moclo.errors.InvalidSequence")
                return [("K21.match-override", name, ok,
                         "a record whose structure was found is rejected by something other than the illegal-site screen on the digest of the match (%s): acceptance no longer depends on the circular match only"
                         % ([t for t, v in o.path.choices if not t.startswith("spec ")],))]
            return [("K21.match-override", name, o.kind == "return" and o.value is getattr(I, "the_match", None),
                     "an accepted record must return the match found by the structure search itself, got %r" % (o,))]

        pre = [t for t in []]
        emit(ctx, run_paths(ctx, fi, make_args, match_facts(), hooks=hooks, post=post), fi.where())
    r.floor("K21.match-override", 4)


def helper_rules(ctx, rule: str):
    """Helpers the typing entry points rest on, evaluated on the class table:
    isabstract(cls) is true exactly for the classes that cannot be
    instantiated (no cutter / no signature / abstract structure), and
    cutter_check accepts every cutter the kits declare."""
    from .absint import LibRef, BoundMethod
    from .fold import Enzyme

    p = ctx.program
    r = ctx.report
    fi = p.get_func("moclo._utils.isabstract")
    folder = ctx.folder

    def class_value(ci, name):
        owner, raw = p.class_attr_def(ci, name)
        if owner is None:
            return None
        if isinstance(raw, FuncInfo):
            return Term("function", Term(raw.qualname))
        from .loader import Const
        if isinstance(raw, Const):
            return raw.value
        if isinstance(raw, ast.Constant):
            return raw.value
        if isinstance(raw, ast.Name) and raw.id == "NotImplemented":
            return NotImplemented
        return Term("value", Term("%s.%s" % (owner.qualname, name)))

    def unresolved_abstract(ci) -> bool:
        # inspect.isabstract: some abstractmethod of the MRO is not overridden by a non-abstract definition
        for c in p.mro(ci):
            if isinstance(c, ClassInfo):
                for nm, raw in c.attrs.items():
                    if isinstance(raw, FuncInfo) and "abstractmethod" in raw.decorators:
                        o2, r2 = p.class_attr_def(ci, nm)
                        if r2 is raw:
                            return True
        return False

    def lib_hook(fr, dotted, args, kwargs, node):
        if dotted == "inspect.isabstract" and args and isinstance(args[0], ClassInfo):
            return unresolved_abstract(args[0])
        if dotted == "builtins.dir" and args and isinstance(args[0], ClassInfo):
            names = []
            for c in p.mro(args[0]):
                if isinstance(c, ClassInfo):
                    names += [n for n in c.attrs if n not in names]
            return AList(names)
        if dotted == "inspect.getmro" and args and isinstance(args[0], ClassInfo):
            return AList([c for c in p.mro(args[0])])
        if dotted == "inspect.getattr_static" and len(args) >= 2 and isinstance(args[0], ClassInfo) and isinstance(args[1], str):
            # the attribute as the class keeps it: a method wrapped in a descriptor class of the code base is an instance
            # of that class (its descriptor protocol is not run)
            owner_, raw_ = p.class_attr_def(args[0], args[1])
            if owner_ is None:
                return args[2] if len(args) > 2 else None
            if isinstance(raw_, FuncInfo) and getattr(raw_, "descriptor_kinds", None):
                return AObj(p.get_class(raw_.descriptor_kinds[0][0]), {"__open__": True}, name="descriptor:" + args[1])
            if isinstance(raw_, FuncInfo):
                return AStruct("function", of=raw_.qualname)
            if isinstance(raw_, ast.Call):
                try:
                    c_ = p.resolve_expr(owner_.module, raw_.func)
                except Exception:
                    c_ = None
                if isinstance(c_, ClassInfo):
                    return AObj(c_, {"__open__": True}, name="instance:" + args[1])  # x = Descriptor(...) in the class body
            v_ = class_value(args[0], args[1])
            if isinstance(v_, Term):
                return AStruct("class-data", of="%s.%s" % (owner_.qualname, args[1]))  # plain data, not an object of the code base
            return AStruct("NotImplemented") if v_ is NotImplemented else v_
        if dotted == "builtins.vars" and args and isinstance(args[0], ClassInfo):
            # the class's own namespace
            own = {}
            for nm, raw in args[0].attrs.items():
                if isinstance(raw, FuncInfo):
                    own[nm] = Term("function", Term(raw.qualname))
                elif isinstance(raw, ast.Name) and raw.id == "NotImplemented":
                    own[nm] = AStruct("NotImplemented")
                elif isinstance(raw, ast.Constant):
                    own[nm] = raw.value
                else:
                    from .loader import Const
                    own[nm] = (AStruct("NotImplemented") if raw.value is NotImplemented else raw.value) if isinstance(raw, Const) else Term("value", Term("%s.%s" % (args[0].qualname, nm)))
            return own
        if dotted == "builtins.vars" and args and isinstance(args[0], Ext):
            return {}
        if dotted == "builtins.getattr" and len(args) >= 2 and isinstance(args[0], ClassInfo) and isinstance(args[1], str):
            v = class_value(args[0], args[1])
            if v is NotImplemented:
                return AStruct("NotImplemented")  # (NotImplemented itself means "hook declines")
            return v if v is not None or len(args) < 3 else args[2]
        if dotted in ("builtins.any", "builtins.all") and len(args) == 1 and isinstance(args[0], AList):
            vals = [bool(x) if isinstance(x, bool) else x for x in args[0].items]
            if all(isinstance(x, bool) for x in vals):
                return any(vals) if dotted.endswith("any") else all(vals)
        return NotImplemented

    n = 0
    for kc in ctx.inventory:
        def make_args(I, kc=kc):
            return (kc.ci,), {}

        def post(I, o, kc=kc):
            want = not kc.concrete
            return [(rule + ".isabstract", kc.name, o.kind == "return" and o.value is want,
                     "isabstract(%s) must be %s (%s): got %r" % (kc.ci.name, want, kc.abstract_reason or "cutter, role and structure are all defined", o.value if o.kind == "return" else o))]

        emit(ctx, run_paths(ctx, fi, make_args, [], hooks={"lib_call": lib_hook}, post=post), fi.where())
        n += 1
    r.floor(rule + ".isabstract", 80)
    # cutter_check accepts the declared cutters and is what __new__ consults
    from .roles import cutter_check_function
    cc = cutter_check_function(p)
    lead = ()
    if cc.owner is not None and cc.kind != "staticmethod":
        lead = (cc.owner,) if cc.kind == "classmethod" else (AObj(cc.owner, {}, name="x"),)

    def self_fed_memos():
        """module-level sets that only this function feeds, with the value it was asked about, once every check has
        passed (the `.add(<parameter>)` calls are top-level statements after the last raise): finding a value in such a
        set means an earlier call with the same value ran to the end -- that path repeats that call's verdict"""
        params = [a.arg for a in cc.node.args.posonlyargs + cc.node.args.args]
        names = set()
        last_raise = max([n.lineno for n in ast.walk(cc.node) if isinstance(n, ast.Raise)] or [0])
        for st in cc.node.body:
            if isinstance(st, ast.Expr) and isinstance(st.value, ast.Call) and isinstance(st.value.func, ast.Attribute) and st.value.func.attr == "add" \
                    and isinstance(st.value.func.value, ast.Name) and len(st.value.args) == 1 and isinstance(st.value.args[0], ast.Name) \
                    and st.value.args[0].id in params and st.lineno > last_raise:
                g = st.value.func.value.id
                raw = cc.module.assigns.get(g)
                if isinstance(raw, ast.Call) and isinstance(raw.func, ast.Name) and raw.func.id == "set" and not raw.args:
                    names.add(g)
        for g in list(names):
            for m in p.modules.values():
                for n in ast.walk(m.tree):
                    inside = m is cc.module and cc.node.lineno <= getattr(n, "lineno", 0) <= (cc.node.end_lineno or 0)
                    if isinstance(n, ast.Name) and n.id == g and not inside and not (m is cc.module and isinstance(n.ctx, ast.Store)):
                        names.discard(g)  # somebody else touches it
                    if isinstance(n, ast.alias) and n.name == g:
                        names.discard(g)
            uses = [n for n in ast.walk(cc.node) if isinstance(n, ast.Name) and n.id == g]
            tests = [n for n in ast.walk(cc.node) if isinstance(n, ast.Compare) and len(n.ops) == 1 and isinstance(n.ops[0], (ast.In, ast.NotIn))
                     and isinstance(n.comparators[0], ast.Name) and n.comparators[0].id == g]
            if len(uses) != len(tests) + 1:
                names.discard(g)  # used for something besides the membership test and the one add
        return names

    memos = self_fed_memos()
    all_in_tests = [n for n in ast.walk(cc.node) if isinstance(n, ast.Compare) and any(isinstance(o_, (ast.In, ast.NotIn)) for o_ in n.ops)]
    memo_only = bool(memos) and all(isinstance(n.comparators[0], ast.Name) and n.comparators[0].id in memos for n in all_in_tests)

    def memo_hit(o):
        return memo_only and any(t.startswith("bool in(") and v is True or t.startswith("bool not(in(") and v is False for t, v in o.path.choices)

    def make_args2(I):
        return lead + (AEnzymeV(True), "SomeClass"), {}

    emit(ctx, run_paths(ctx, cc, make_args2, [], post=lambda I, o: [] if memo_hit(o) else [(rule + ".cutter-check", cc.qualname, o.kind == "return" and o.value is None,
                                                                "a 5'-overhang, known, non-blunt cutter must be accepted: %r" % (o,))]), cc.where())

    def make_args3(I):
        return lead + (NotImplemented, "SomeClass"), {}

    emit(ctx, run_paths(ctx, cc, make_args3, [], post=lambda I, o: [] if memo_hit(o) else [(rule + ".cutter-check", cc.qualname + "#undeclared", o.kind == "raise",
                                                                "a class without cutter must be refused: %r" % (o,))]), cc.where())


def _identity_dunder(p, c, name, raw):
    """True when the definition of __eq__ / __ne__ / __hash__ in class c spells out what `object` does (identity), False when
    it compares or hashes by value; AnalysisError when neither can be told.  __eq__ may answer `self is other` or
    NotImplemented (Python then falls back to identity), __ne__ the negation or NotImplemented, __hash__ id(self) or
    object.__hash__(self)."""
    if isinstance(raw, ast.AST) and not isinstance(raw, (ast.FunctionDef, ast.Lambda)):
        return ast.unparse(raw) == "object.%s" % name
    if not isinstance(raw, FuncInfo):
        raise AnalysisError("%s.%s: the definition is not a function or an alias of object's" % (c.qualname, name))
    a = raw.node.args
    params = [x.arg for x in a.posonlyargs + a.args]
    if a.vararg or a.kwarg or a.kwonlyargs or len(params) != (1 if name == "__hash__" else 2):
        raise AnalysisError("%s: unusual signature of %s" % (raw.where(), name))
    me = params[0]
    other = params[1] if len(params) > 1 else None

    def is_obj_call(e, dunder, nargs):
        # object.__x__(self[, other]) / super().__x__([other]) when the next definition in the MRO is object's
        if not (isinstance(e, ast.Call) and isinstance(e.func, ast.Attribute) and e.func.attr == dunder and not e.keywords):
            return False
        f = e.func.value
        if isinstance(f, ast.Name) and f.id == "object" and len(e.args) == nargs and isinstance(e.args[0], ast.Name) and e.args[0].id == me:
            return nargs == 1 or (isinstance(e.args[1], ast.Name) and e.args[1].id == other)
        if isinstance(f, ast.Call) and isinstance(f.func, ast.Name) and f.func.id == "super" and len(e.args) == nargs - 1:
            nxt = p.class_attr_def(c, dunder, after=c)[0]
            return nxt is None and (nargs == 1 or (isinstance(e.args[0], ast.Name) and e.args[0].id == other))
        return False

    def value(e, same):
        """the value of a return expression when `self is other` is `same`: True / False / NotImplemented, or None = by value"""
        if isinstance(e, ast.Constant) and e.value in (True, False) and isinstance(e.value, bool):
            return e.value
        if isinstance(e, ast.Name) and e.id == "NotImplemented":
            return NotImplemented
        if isinstance(e, ast.Compare) and len(e.ops) == 1:
            l, r_ = e.left, e.comparators[0]
            names = sorted(x.id for x in (l, r_) if isinstance(x, ast.Name))
            if names == sorted([me, other]) and isinstance(e.ops[0], (ast.Is, ast.IsNot)):
                return same == isinstance(e.ops[0], ast.Is)
            ids = [x for x in (l, r_) if isinstance(x, ast.Call) and isinstance(x.func, ast.Name) and x.func.id == "id" and len(x.args) == 1
                   and isinstance(x.args[0], ast.Name)]
            if len(ids) == 2 and sorted(x.args[0].id for x in ids) == sorted([me, other]) and isinstance(e.ops[0], (ast.Eq, ast.NotEq, ast.Is, ast.IsNot)):
                if isinstance(e.ops[0], (ast.Is, ast.IsNot)):
                    return None  # identity of two int objects: not what is meant
                return same == isinstance(e.ops[0], ast.Eq)
        if isinstance(e, ast.IfExp):
            t = value(e.test, same)
            if t is True:
                return value(e.body, same)
            if t is False:
                return value(e.orelse, same)
            if t is None and _mentions_state(e.test):
                return None
            b, o = value(e.body, same), value(e.orelse, same)
            return b if b is o else ("either", b, o)
        if isinstance(e, ast.UnaryOp) and isinstance(e.op, ast.Not):
            v = value(e.operand, same)
            return (not v) if isinstance(v, bool) else None
        if is_obj_call(e, "__eq__", 2):
            return True if same else NotImplemented
        if is_obj_call(e, "__ne__", 2):
            return NotImplemented if same else True  # object.__ne__ inverts __eq__'s answer when there is one
        return None

    def _mentions_state(e):
        return any(isinstance(n, ast.Attribute) and isinstance(n.value, ast.Name) and n.value.id in (me, other) for n in ast.walk(e))

    def flat(v):
        if isinstance(v, tuple) and v and v[0] == "either":
            return flat(v[1]) + flat(v[2])
        return [v]

    def returns(body, same):
        """values returned by the statement list; tests that are not about identity fork (both arms are followed)"""
        out, falls = [], True
        for st in body:
            if isinstance(st, ast.Return):
                out += flat(value(st.value, same) if st.value is not None else None)
                return out, False
            if isinstance(st, ast.If):
                t = value(st.test, same)
                if t is None and _mentions_state(st.test):
                    return out + [None], False
                arms = []
                if t is not False:
                    arms.append(st.body)
                if t is not True:
                    arms.append(st.orelse)
                fall_any = False
                for arm in arms:
                    o, f = returns(arm, same)
                    out += o
                    fall_any = fall_any or f
                if not fall_any:
                    return out, False
                continue
            if isinstance(st, ast.Expr) and isinstance(st.value, ast.Constant):
                continue  # docstring
            if isinstance(st, (ast.Pass,)):
                continue
            raise AnalysisError("%s: statement `%s` in %s is not understood by the identity evaluation" % (raw.where(), ast.unparse(st)[:60], name))
        return out, falls

    if name == "__hash__":
        body = [st for st in raw.node.body if not (isinstance(st, ast.Expr) and isinstance(st.value, ast.Constant))]
        if len(body) == 1 and isinstance(body[0], ast.Return) and body[0].value is not None:
            e = body[0].value
            if isinstance(e, ast.Call) and isinstance(e.func, ast.Name) and e.func.id in ("id", "hash") and len(e.args) == 1:
                inner = e.args[0]
                if e.func.id == "id" and isinstance(inner, ast.Name) and inner.id == me:
                    return True
                if e.func.id == "hash" and isinstance(inner, ast.Call) and isinstance(inner.func, ast.Name) and inner.func.id == "id" \
                        and len(inner.args) == 1 and isinstance(inner.args[0], ast.Name) and inner.args[0].id == me:
                    return True
            if is_obj_call(e, "__hash__", 1):
                return True
            if _mentions_state(e):
                return False
        raise AnalysisError("%s: __hash__ is neither id(self) / object.__hash__(self) nor a hash of the instance's state" % raw.where())
    for same in (True, False):
        vals, falls = returns(raw.node.body, same)
        if falls:
            vals.append(None)
        want = same if name == "__eq__" else (not same)
        for v in vals:
            if v is None:
                return False
            if v is not NotImplemented and v is not want:
                return False
    return True


def identity_rule(ctx, rule: str):
    """Modules, vectors and parts compare and hash by identity: the
    per-instance match cache (a WeakKeyDictionary) and the duplicate detection
    of the assembly (`is`, de-duplication of arguments) both rest on it.  A class
    may spell the defaults of `object` out (`__hash__ = object.__hash__`, `__eq__`
    answering `self is other` or NotImplemented): what is refused is a definition
    that compares or hashes by value."""
    p = ctx.program
    r = ctx.report
    seen = set()
    for kc in ctx.inventory:
        for c in p.mro(kc.ci):
            if hasattr(c, "attrs") and id(c) not in seen:
                seen.add(id(c))
                bad, undecided = [], []
                for a in ("__eq__", "__hash__", "__ne__"):
                    if a not in c.attrs:
                        continue
                    try:
                        if not _identity_dunder(p, c, a, c.attrs[a]):
                            bad.append(a)
                    except AnalysisError as exc:
                        undecided.append(str(exc))
                if undecided and not bad:
                    raise AnalysisError(undecided[0])  # (a definition that is by value decides, whatever the others are)
                if "__eq__" in c.attrs and "__hash__" not in c.attrs and "__eq__" not in bad:
                    bad.append("__eq__ without __hash__ (the class becomes unhashable)")
                r.ob(rule, c.qualname, not bad,
                     "%s defines %s by value: two wrappers that compare equal share one cached match and collapse into one module wherever arguments are de-duplicated"
                     % (c.qualname, ", ".join(bad)), c.where())
    r.floor(rule, 80)


def assembly_layering_rule(ctx, rule: str):
    """moclo.core._assembly reaches into a module or vector only through its
    public accessors: no `_match`, no span/group arithmetic, no rotation or
    slicing of an input's record.  Fragment extraction proved by K7/K8 is only
    what the walk uses as long as the walk does not redo it by hand."""
    p = ctx.program
    r = ctx.report
    from .roles import layer_functions, regex_getter

    getter_name = regex_getter(p).name
    n = 0
    layer = layer_functions(p)
    for fi in layer:
        m = fi.module
        mine = []
        for node in ast.walk(fi.node):
            why = None
            if isinstance(node, ast.Attribute) and node.attr in ("_match", match_slot(p), getter_name, "structure"):
                why = "reads the private `%s` of a module or vector" % node.attr
            elif isinstance(node, ast.Call) and isinstance(node.func, ast.Attribute) and node.func.attr in ("span", "group") and not (
                    isinstance(node.func.value, ast.Name) and node.func.value.id in ("match", "m")):
                why = "does span/group arithmetic on a structure match"
            elif isinstance(node, ast.Attribute) and node.attr == "seq" and isinstance(node.ctx, ast.Load) and _is_input_record(p, fi, node.value, layer):
                why = "reads the raw sequence of a record (linear coordinates: where the origin sits then matters)"
            elif isinstance(node, ast.BinOp) and isinstance(node.op, (ast.LShift, ast.RShift)):
                why = "rotates a record itself"
            elif isinstance(node, ast.Subscript) and isinstance(node.slice, ast.Slice):
                root, path = chain_of(node.value)
                if ".record" in "".join(path) or ".seq" in "".join(path):
                    why = "slices an input's record itself"
            if why:
                mine.append((node, why))
        n += 1
        r.ob(rule, fi.qualname, not mine,
             "the assembly %s (`%s`): fragments and overhangs must come from the accessors" % (mine[0][1], re.sub(r"\s+", " ", m.segment(mine[0][0]) or "")[:80]) if mine else "",
             "%s:%d" % (m.relpath, mine[0][0].lineno if mine else fi.node.lineno))
    r.floor(rule, 4)


def _is_input_record(p, fi: FuncInfo, recv: ast.expr, layer, depth: int = 2) -> bool:
    """may `recv` (whose .seq is read in a function of the assembly layer) be the record of a module or of the vector?
    Yes when it is reached through `.record`, or is a local / parameter fed from such an expression; a record the layer
    built itself (a concatenation, the product) and the fields of the layer's own value objects are not inputs."""
    def mentions_record(e) -> bool:
        return any(isinstance(x, ast.Attribute) and x.attr == "record" for x in ast.walk(e))

    if mentions_record(recv):
        return True
    root, _path = chain_of(recv)
    if root is None:
        return False
    params = [a.arg for a in fi.node.args.posonlyargs + fi.node.args.args]
    if root in params:
        if params and root == params[0] and fi.owner is not None and fi.kind not in ("staticmethod",):
            return False  # self of a class of the layer: its own field
        if fi.owner is not None and fi.name in ("__eq__", "__ne__", "__lt__", "__le__", "__gt__", "__ge__") and len(params) == 2 and root == params[1]:
            # the other operand of a comparison of two value objects of the layer: the same field of the same class (a
            # record of an input is no such object -- the classes that wrap records compare by identity, rule C03.identity)
            own_fields = {t.attr for n in ast.walk(fi.owner.node) if isinstance(n, ast.Assign) for t in n.targets
                          if isinstance(t, ast.Attribute) and isinstance(t.value, ast.Name) and t.value.id == "self"}
            if isinstance(recv, ast.Attribute) or "seq" in own_fields:
                if "seq" in own_fields and not any(isinstance(b, (ast.Name, ast.Attribute)) and ast.unparse(b).endswith("Record") for b in fi.owner.node.bases):
                    return False
        if depth <= 0:
            return True
        k = params.index(root)
        found_call = False
        for g in layer:
            for c in ast.walk(g.node):
                if not isinstance(c, ast.Call):
                    continue
                f = c.func
                nm = f.attr if isinstance(f, ast.Attribute) else f.id if isinstance(f, ast.Name) else None
                if nm != fi.name:
                    continue
                off = 1 if (fi.owner is not None and fi.kind != "staticmethod" and isinstance(f, ast.Attribute)) else 0
                j = k - off
                arg = c.args[j] if 0 <= j < len(c.args) else next((kw.value for kw in c.keywords if kw.arg == root), None)
                if arg is None:
                    continue
                found_call = True
                if _is_input_record(p, g, arg, layer, depth - 1):
                    return True
        return not found_call  # nobody in the layer calls it: assume the worst
    # a local: bound from something that mentions an input's record?
    for n in ast.walk(fi.node):
        if isinstance(n, ast.Assign) and any(isinstance(x, ast.Name) and x.id == root for t in n.targets for x in ast.walk(t)) and mentions_record(n.value):
            return True
        if isinstance(n, (ast.For, ast.comprehension)) and any(isinstance(x, ast.Name) and x.id == root for x in ast.walk(n.target)) and mentions_record(n.iter):
            return True
    return False


def _returns_record(raw: FuncInfo) -> bool:
    """some return value of the function is built by a record operation (rotation, slice, record constructor,
    add_as_source): a record that callers go on to modify.  A memoised structure match is not."""
    rec_calls = {"add_as_source", "CircularRecord", "SeqRecord", "reverse_complement", "target_sequence", "placeholder_sequence"}
    names = {}
    for n in ast.walk(raw.node):
        if isinstance(n, ast.Assign) and len(n.targets) == 1 and isinstance(n.targets[0], ast.Name):
            names.setdefault(n.targets[0].id, []).append(n.value)

    def recordish(e, depth=3) -> bool:
        for x in ast.walk(e):
            if isinstance(x, ast.BinOp) and isinstance(x.op, (ast.LShift, ast.RShift)):
                return True
            if isinstance(x, ast.Subscript) and isinstance(x.slice, ast.Slice):
                return True
            if isinstance(x, ast.Call):
                f = x.func
                nm = f.attr if isinstance(f, ast.Attribute) else f.id if isinstance(f, ast.Name) else None
                if nm in rec_calls:
                    return True
            if isinstance(x, ast.Name) and depth > 0 and any(recordish(v, depth - 1) for v in names.get(x.id, [])):
                return True
        return False

    return any(isinstance(n, ast.Return) and n.value is not None and recordish(n.value) for n in ast.walk(raw.node))


def fragment_cache_rule(ctx, rule: str):
    """Fragments and overhangs are rebuilt on every call: what target_sequence()
    returns is mutated by its callers (a source feature is appended, citations
    are rewritten), so memoising it -- cached_property, lru_cache, or a store
    on the instance -- shares that mutable state between assemblies."""
    p = ctx.program
    r = ctx.report
    names = ("target_sequence", "placeholder_sequence", "overhang_start", "overhang_end")
    seen = set()
    n = 0
    for kc in list(ctx.inventory) + [None]:
        cis = p.mro(kc.ci) if kc is not None else [p.get_class("moclo.core.modules.AbstractModule"), p.get_class("moclo.core.vectors.AbstractVector")]
        for c in cis:
            if not isinstance(c, ClassInfo) or id(c) in seen:
                continue
            seen.add(id(c))
            for nm, raw in c.attrs.items():
                if not isinstance(raw, FuncInfo):
                    continue
                memo = [d for d in raw.decorators if d in ("cached_property", "lru_cache", "cache", "memoize", "memoized")]
                if nm in names or nm == match_slot(p):
                    n += 1
                if nm != match_slot(p) and memo and (nm in names or _returns_record(raw)):
                    r.ob(rule, raw.qualname, False,
                         "%s is memoised (%s): a record it returns is shared between calls although its callers modify it" % (raw.qualname, ", ".join(memo)), raw.where())
                if nm in names:
                    stores = [x for x in ast.walk(raw.node) if isinstance(x, (ast.Assign, ast.AugAssign)) and any(
                        isinstance(t, ast.Attribute) and isinstance(t.value, ast.Name) and t.value.id == (raw.node.args.args[0].arg if raw.node.args.args else "self")
                        for t in (x.targets if isinstance(x, ast.Assign) else [x.target]))]
                    r.ob(rule, raw.qualname + "#stores", not stores,
                         "%s keeps state on the instance (`%s`): its result is no longer rebuilt from the record on every call"
                         % (raw.qualname, re.sub(r"\s+", " ", raw.module.segment(stores[0]) or "")[:70] if stores else ""), raw.where())
    # ... and by evaluation, wherever a memo may hide (a cached collaborator object, a cached property of such an object): the
    # fragment accessors called twice on one object must hand out two different records (the callers of the first one
    # append a source feature to it and rewrite its citations)
    from .kernels import frag_hooks, match_facts, _spans, pieces_of

    for cname, meths in (("moclo.core.modules.AbstractModule", ("target_sequence",)),
                         ("moclo.core.vectors.AbstractVector", ("target_sequence", "placeholder_sequence"))):
        ci_ = p.get_class(cname)
        for meth in meths:
            raw = p.class_attr_def(ci_, meth)[1]
            if not isinstance(raw, FuncInfo):
                continue

            def make_args(I, ci_=ci_):
                return (_structured_obj(I, ci_, "x", _spans()),), {}

            def post(I, o, raw=raw, meth=meth):
                if o.kind != "return" or pieces_of(o.value) is None:
                    return []  # (what the accessor returns is K7 / K8 / K9's business)
                try:
                    again = I.call_function(raw, [I.kernel_args[0]], {})
                except RaiseSig:
                    return []
                shared = again is o.value or (isinstance(again, ARec) and isinstance(o.value, ARec) and (
                    again.added_features is o.value.added_features or again.attrs is o.value.attrs))
                return [(rule, raw.qualname + "#called-twice", not shared,
                         "%s() called twice on one object hands out the same record both times (it is kept somewhere between the calls): "
                         "the source feature the assembly appends to it, and the citations it rewrites in it, accumulate from one assembly "
                         "to the next" % meth)]

            emit(ctx, run_paths(ctx, raw, make_args, match_facts(), hooks=frag_hooks(p), post=post), raw.where())
    # the accessors of the two base classes, whichever class of moclo.core implements them (each its own, or one shared
    # implementation driven by class attributes): seven (class, accessor) pairs, all judged above through the MRO
    for cname, meths in (("moclo.core.modules.AbstractModule", names[:1] + names[2:]), ("moclo.core.vectors.AbstractVector", names)):
        for meth in meths:
            raw = p.class_attr_def(p.get_class(cname), meth)[1]
            r.ob(rule, "%s.%s#resolves" % (cname, meth), isinstance(raw, FuncInfo),
                 "%s.%s does not resolve to a function" % (cname, meth), raw.where() if isinstance(raw, FuncInfo) else "-")
    r.floor(rule, 7)


def warning_filter_rule(ctx, rule: str):
    """The UnusedModules warning must reach the caller: no warning filter
    between the walk and the caller may ignore a category that covers it."""
    p = ctx.program
    r = ctx.report
    unused = p.get_class("moclo.errors.UnusedModules")
    n = 0
    for qn in ("moclo.core._assembly.AssemblyManager.assemble", "moclo.core._assembly.AssemblyManager._generate_assembly",
               "moclo.core.vectors.AbstractVector.assemble"):
        fi = p.get_func(qn)
        sites = []
        for d in fi.node.decorator_list:
            if isinstance(d, ast.Call) and isinstance(d.func, (ast.Name, ast.Attribute)) and (getattr(d.func, "id", None) == "catch_warnings" or getattr(d.func, "attr", None) == "catch_warnings"):
                sites.append(d)
        for node in ast.walk(fi.node):
            if isinstance(node, ast.Call) and isinstance(node.func, ast.Attribute) and node.func.attr in ("simplefilter", "filterwarnings"):
                sites.append(node)
        for d in sites:
            n += 1
            action = d.args[0].value if d.args and isinstance(d.args[0], ast.Constant) else None
            cat = None
            for kw in d.keywords:
                if kw.arg == "category":
                    cat = kw.value
            if cat is None and len(d.args) > 1:
                cat = d.args[1]
            covers = True  # default category is Warning
            shown = "Warning (default)"
            if cat is not None:
                c = p.resolve_expr(fi.module, cat)
                shown = fi.module.segment(cat)
                if isinstance(c, ClassInfo):
                    covers = p.is_subclass(unused, c)
                elif isinstance(c, Ext):
                    covers = c.dotted in ("builtins.Warning", "builtins.UserWarning", "builtins.Exception", "builtins.BaseException")
                else:
                    covers = True
            ok = not (action in ("ignore", "once", "module", "default", None) and covers) or action in ("always", "error") and False
            if action in ("always",):
                ok = True
            r.ob(rule, "%s@%s" % (qn, re.sub(r"\W+", "", fi.module.segment(d) or "")[:50]), ok,
                 "a warning filter with action %r and category %s covers UnusedModules: the warning naming the modules left out would not reach the caller" % (action, shown),
                 "%s:%d" % (fi.module.relpath, d.lineno))
    # the helper behind the decorator forwards the category it was given
    cw = p.get_func("moclo._utils.catch_warnings")
    calls = [x for x in ast.walk(cw.node) if isinstance(x, ast.Call) and isinstance(x.func, ast.Attribute) and x.func.attr in ("simplefilter", "filterwarnings")]
    ok = len(calls) == 1
    if ok:
        c = calls[0]
        # positional arguments, a *name bound once to a tuple (or to a tuple-like constructor call) spelled out
        pos = []
        for a in c.args:
            if isinstance(a, ast.Starred) and isinstance(a.value, ast.Name):
                defs = [x.value for x in ast.walk(cw.node) if isinstance(x, ast.Assign) and len(x.targets) == 1
                        and isinstance(x.targets[0], ast.Name) and x.targets[0].id == a.value.id]
                if len(defs) == 1 and isinstance(defs[0], (ast.Tuple, ast.List)):
                    pos.extend(defs[0].elts)
                    continue
                if len(defs) == 1 and isinstance(defs[0], ast.Call) and not defs[0].keywords and all(isinstance(z, ast.Name) for z in defs[0].args):
                    pos.extend(defs[0].args)
                    continue
                pos.append(a)
            else:
                pos.append(a)
        a0 = pos[0] if pos else next((k.value for k in c.keywords if k.arg == "action"), None)
        a1 = pos[1] if len(pos) > 1 else next((k.value for k in c.keywords if k.arg == "category"), None)
        params = [x.arg for x in cw.node.args.args]
        ok = isinstance(a0, ast.Name) and a0.id == params[0] and isinstance(a1, ast.Name) and len(params) > 1 and a1.id == params[1]
    r.ob(rule, "moclo._utils.catch_warnings#forwarding", ok,
         "the catch_warnings helper must install exactly the filter it was asked for (action, category): `%s`" % (re.sub(r"\s+", " ", cw.module.segment(calls[0]) or "") if calls else "no filter call"), cw.where())
    r.floor(rule, 1)


def error_carriers_rule(ctx, rule: str):
    """The MoClo exceptions carry what they were given: evaluated abstractly,
    each constructor stores its arguments unchanged in the documented attribute."""
    p = ctx.program
    table = (("DuplicateModules", "duplicates", "all"), ("MissingModule", "start_overhang", 0), ("UnusedModules", "remaining", "all"),
             ("InvalidSequence", "sequence", 0), ("IllegalSite", "sequence", 0))
    for cname, attr, which in table:
        ci = p.get_class("moclo.errors." + cname)
        owner, init = p.class_attr_def(ci, "__init__")
        if not isinstance(init, FuncInfo):
            raise AnalysisError("anchor vanished: moclo.errors.%s.__init__" % cname)
        A, B = Term("arg0"), Term("arg1")
        nargs = 2 if which == "all" else 1

        def make_args(I, ci=ci):
            obj = AObj(ci, {}, name="exc")
            I.exc = obj
            return ((obj, A, B) if nargs == 2 else (obj, A)), {"details": "d"}

        def post(I, o, attr=attr, which=which, cname=cname, init=init):
            got = I.exc.attrs.get(attr)
            if isinstance(got, AList):
                got = tuple(got.items)
            if isinstance(got, list):
                got = tuple(got)
            want = (A, B) if which == "all" else A
            return [(rule, "moclo.errors.%s#%s" % (cname, attr), o.kind == "return" and got == want,
                     "%s(%s) must keep its argument(s) in .%s unchanged, got %r" % (cname, "a, b" if which == "all" else "a", attr, got))]

        emit(ctx, run_paths(ctx, init, make_args, [], post=post), init.where())
    ctx.report.floor(rule, 5)


def text_consumers_rule(ctx, rule: str):
    """DNARegex.search: the text derived from the target is consumed only by
    the compiled pattern (regex.match), len(), doubling and slicing.  Any other
    inspection of it (str.find / in / count / startswith ... used as a
    shortcut) has its own idea of letter case and of IUPAC codes."""
    p = ctx.program
    r = ctx.report
    entry = p.get_func("moclo.regex.DNARegex.search")

    def helper_of(fi, call):
        f = call.func
        g = None
        if isinstance(f, ast.Attribute) and isinstance(f.value, ast.Name) and f.value.id in ("self", "cls") and fi.owner is not None:
            _, g = p.class_attr_def(fi.owner, f.attr)
        elif isinstance(f, ast.Name):
            g = p.resolve_expr(fi.module, f)
        return g if isinstance(g, FuncInfo) else None

    def helpers_of(fi, call):
        """the functions of the code base a call may run: the one helper_of names; for a functools.singledispatch
        dispatcher also the implementations registered on it; for a method called on some other object, the methods of
        that name of the classes of the same module"""
        g = helper_of(fi, call)
        out = [g] if g is not None else []
        if g is not None and g.owner is None and any(ast.unparse(d.func if isinstance(d, ast.Call) else d).endswith("singledispatch") for d in g.node.decorator_list):
            for h in g.module.functions.values():
                if any(isinstance(d, ast.Call) and isinstance(d.func, ast.Attribute) and d.func.attr == "register"
                       and isinstance(d.func.value, ast.Name) and d.func.value.id == g.name for d in h.node.decorator_list):
                    out.append(h)
        f = call.func
        if isinstance(f, ast.Attribute) and isinstance(f.value, ast.Name) and f.value.id in ("self", "cls") and fi.owner is not None:
            # self.method(): what a subclass puts in its place runs as well
            for sub_ in p.subclasses(fi.owner):
                raw = sub_.attrs.get(f.attr)
                if isinstance(raw, FuncInfo) and raw not in out:
                    out.append(raw)
        if g is None and isinstance(f, ast.Attribute) and not (isinstance(f.value, ast.Name) and f.value.id in ("self", "cls")):
            for ci in fi.module.classes.values():
                raw = ci.attrs.get(f.attr)
                if isinstance(raw, FuncInfo) and raw.kind == "method":
                    out.append(raw)
        return out

    memo = {}
    tuple_text: Dict[str, set] = {}

    def text_names(fi, depth=2, seed=frozenset()):
        """names of fi holding text derived from the target: assigned from str(...), from a helper returning such a
        text, parameters that receive it (seed), or derived from one of those by + * slicing upper/lower"""
        mk = (fi.qualname, frozenset(seed))
        if mk in memo:
            return memo[mk]
        memo[mk] = (set(seed), False)
        text = set(seed)

        def texty(v):
            if isinstance(v, ast.Call) and isinstance(v.func, ast.Name) and v.func.id == "str":
                return True
            if isinstance(v, ast.Call) and depth > 0:
                if any(text_names(g, depth - 1)[1] for g in helpers_of(fi, v)):
                    return True
            if isinstance(v, ast.Call) and isinstance(v.func, ast.Attribute) and v.func.attr in ("upper", "lower") and texty(v.func.value):
                return True
            if isinstance(v, ast.Name):
                return v.id in text
            if isinstance(v, ast.BinOp):
                return texty(v.left) or texty(v.right)
            if isinstance(v, ast.Subscript):
                return texty(v.value)
            if isinstance(v, ast.IfExp):
                return texty(v.body) or texty(v.orelse)
            return False

        changed = True
        while changed:
            changed = False
            for n in ast.walk(fi.node):
                if isinstance(n, (ast.Assign, ast.AugAssign)):
                    tg = n.targets if isinstance(n, ast.Assign) else [n.target]
                    pairs = []
                    for t in tg:
                        if isinstance(t, (ast.Tuple, ast.List)) and isinstance(n.value, (ast.Tuple, ast.List)) and len(t.elts) == len(n.value.elts):
                            pairs.extend(zip(t.elts, n.value.elts))  # a, b = x, y
                        elif isinstance(t, (ast.Tuple, ast.List)) and isinstance(n.value, ast.Call) and depth > 0:
                            # data, size = self._target(...): the helper returns a tuple; the positions that hold text
                            for g in helpers_of(fi, n.value):
                                text_names(g, depth - 1)
                                for k_, el in enumerate(t.elts):
                                    if isinstance(el, ast.Name) and el.id not in text and k_ in tuple_text.get(g.qualname, set()):
                                        text.add(el.id)
                                        changed = True
                        else:
                            pairs.append((t, n.value))
                    for t, val in pairs:
                        if isinstance(t, ast.Name) and t.id not in text and texty(val):
                            text.add(t.id)
                            changed = True
        returns_text = any(isinstance(n, ast.Return) and n.value is not None and texty(n.value) for n in ast.walk(fi.node))
        for n in ast.walk(fi.node):
            if isinstance(n, ast.Return) and isinstance(n.value, ast.Tuple):
                pos_ = {k_ for k_, el in enumerate(n.value.elts) if texty(el)}
                if pos_:
                    tuple_text.setdefault(fi.qualname, set()).update(pos_)
                    returns_text = True  # (so that the helper is visited for its own uses of the text)
        memo[mk] = (text, returns_text)
        return memo[mk]

    text_names(entry)
    funcs = [p.get_func(q) if q != entry.qualname else entry for q in []]
    todo = [entry]
    k_ = 0
    while k_ < len(todo) and len(todo) < 12:
        f_ = todo[k_]
        k_ += 1
        for n in ast.walk(f_.node):
            if isinstance(n, ast.Call):
                for g in helpers_of(f_, n):
                    if (text_names(g)[1] or text_names(g)[0]) and g not in todo:
                        todo.append(g)  # returns the text, or derives it from the target itself
    def by_evaluation(why: str):
        """the text leaves the functions this rule can follow by reading (it is handed to an object that keeps it, or the
        whole search is delegated): what happens to it is decided by evaluating the search (kernels2.search_text_effects)"""
        from .kernels2 import search_text_effects

        eff = search_text_effects(ctx)
        r.ob(rule, "%s#evaluated" % entry.qualname, not eff,
             "the searched text is inspected outside the compiled pattern (%s): a shortcut on the raw text has its own letter-case "
             "and IUPAC semantics [%s]" % ("; ".join(eff), why), entry.where())

    if not any(text_names(f)[0] for f in todo):
        by_evaluation("the text is derived from the target outside the functions followed by reading")
        r.floor(rule, 1)
        return
    def normalised_names(fn_node) -> set:
        """locals only ever bound to <something>.upper() / .lower() / .casefold() (possibly doubled / sliced)"""
        def norm(v) -> bool:
            if isinstance(v, ast.Call) and isinstance(v.func, ast.Attribute) and v.func.attr in ("upper", "lower", "casefold") and not v.args:
                return True
            if isinstance(v, ast.BinOp):
                return norm(v.left) or norm(v.right)
            if isinstance(v, ast.Subscript):
                return norm(v.value)
            if isinstance(v, ast.IfExp):
                return norm(v.body) and norm(v.orelse)
            if isinstance(v, ast.Constant) and isinstance(v.value, str) and v.value == v.value.upper():
                return True
            return False
        binds: Dict[str, list] = {}
        for a in ast.walk(fn_node):
            if isinstance(a, ast.Assign) and len(a.targets) == 1 and isinstance(a.targets[0], ast.Name):
                binds.setdefault(a.targets[0].id, []).append(a.value)
        out = set()
        for _ in range(3):
            for nm, vs in binds.items():
                def normed(v):
                    if norm(v):
                        return True
                    if isinstance(v, ast.Name):
                        return v.id in out
                    if isinstance(v, ast.BinOp):
                        return normed(v.left) or normed(v.right)
                    if isinstance(v, ast.Subscript):
                        return normed(v.value)
                    return False
                if vs and all(normed(v) for v in vs):
                    out.add(nm)
        return out

    # the attribute(s) of a DNARegex that hold the pattern compiled from the transcribed structure
    rx_cls = p.get_class("moclo.regex.DNARegex")
    compiled_attrs = set()
    for raw_ in rx_cls.attrs.values():
        if isinstance(raw_, FuncInfo):
            for a_ in ast.walk(raw_.node):
                if isinstance(a_, ast.Assign) and isinstance(a_.value, ast.Call) and ast.unparse(a_.value.func) in ("re.compile", "compile"):
                    compiled_attrs |= {t_.attr for t_ in a_.targets if isinstance(t_, ast.Attribute)}
    if not compiled_attrs:
        raise AnalysisError("anchor vanished: no attribute of DNARegex is bound to re.compile(...)")

    def is_compiled_pattern(recv, fn_node, depth=2) -> bool:
        """the receiver of .match/.search is the structure's own compiled pattern (self.regex, or a local bound to it),
        not some other pattern or the `re` module applied to a pattern of its own"""
        if isinstance(recv, ast.Attribute) and recv.attr in compiled_attrs:
            return True
        if isinstance(recv, ast.Name) and depth > 0:
            binds_ = [a_.value for a_ in ast.walk(fn_node) if isinstance(a_, ast.Assign) and len(a_.targets) == 1
                      and isinstance(a_.targets[0], ast.Name) and a_.targets[0].id == recv.id]
            return bool(binds_) and all(is_compiled_pattern(b_, fn_node, depth - 1) for b_ in binds_)
        return False

    n_uses = 0
    evaluated: List[bool] = []
    seeded: Dict[str, set] = {}
    k_todo = 0
    while k_todo < len(todo):
        fi = todo[k_todo]
        k_todo += 1
        fn = fi.node
        text = set(text_names(fi, 2, frozenset(seeded.get(fi.qualname, set())))[0])
        parents = {}
        for node in ast.walk(fn):
            for ch in ast.iter_child_nodes(node):
                parents[id(ch)] = node
        for n in ast.walk(fn):
            if isinstance(n, ast.Name) and n.id in text and isinstance(n.ctx, ast.Load):
                par = parents.get(id(n))
                ok = False
                # text.upper() / text.lower() handed on: still the text
                if isinstance(par, ast.Attribute) and par.attr in ("upper", "lower"):
                    c1 = parents.get(id(par))
                    c2 = parents.get(id(c1)) if isinstance(c1, ast.Call) and c1.func is par else None
                    if isinstance(c2, ast.Call) and c1 in c2.args:
                        n, par = c1, c2
                if isinstance(par, ast.Call) and n in par.args:
                    f = par.func
                    if isinstance(f, ast.Name):
                        # match_at = self.regex.match, hoisted out of the scan loop
                        binds = [a.value for a in ast.walk(fn) if isinstance(a, ast.Assign) and len(a.targets) == 1
                                 and isinstance(a.targets[0], ast.Name) and a.targets[0].id == f.id]
                        if len(binds) == 1 and isinstance(binds[0], ast.Attribute):
                            f = binds[0]  # (its receiver is judged below like a direct call's)
                    ok = (isinstance(f, ast.Attribute) and f.attr in ("match", "fullmatch", "search", "finditer") and is_compiled_pattern(f.value, fn)) \
                        or (isinstance(f, ast.Name) and f.id in ("len", "str"))
                    if not ok and ast.unparse(f) in ("functools.partial", "partial") and par.args and isinstance(par.args[0], ast.Attribute) \
                            and par.args[0].attr in ("match", "fullmatch") and n in par.args[1:] and is_compiled_pattern(par.args[0].value, fn):
                        ok = True  # the compiled pattern's match, with the text bound in advance
                    g = helper_of(fi, par) if not ok else None
                    if g is not None and not any(isinstance(x, ast.Starred) for x in par.args):
                        # handed to a helper: the helper's uses of that parameter are checked in turn
                        params = [x.arg for x in g.node.args.posonlyargs + g.node.args.args]
                        if g.owner is not None and g.kind in ("method", "classmethod") and isinstance(f, ast.Attribute):
                            params = params[1:]
                        k = par.args.index(n)
                        if k < len(params) and len(todo) < 12:
                            seeded.setdefault(g.qualname, set()).add(params[k])
                            if g not in todo[k_todo:]:
                                todo.append(g)
                            ok = True
                elif isinstance(par, (ast.BinOp, ast.AugAssign, ast.Subscript, ast.Assign, ast.Return)):
                    ok = True
                elif isinstance(par, ast.Tuple) and isinstance(parents.get(id(par)), (ast.Return, ast.Assign)):
                    ok = True  # handed on as an element of a returned / unpacked tuple
                elif isinstance(par, ast.Attribute) and par.attr in ("upper", "lower"):
                    ok = True
                elif isinstance(par, (ast.If, ast.While, ast.IfExp, ast.BoolOp)) or (isinstance(par, ast.UnaryOp) and isinstance(par.op, ast.Not)):
                    ok = True  # emptiness test
                elif isinstance(par, ast.Compare) and all(isinstance(x, ast.Constant) for x in [par.left] + par.comparators if x is not n) \
                        and all(isinstance(o, (ast.Eq, ast.NotEq, ast.Is, ast.IsNot)) for o in par.ops):
                    ok = True  # comparison with a constant
                if not ok and isinstance(par, ast.Call) and n in par.args:
                    # handed to the constructor of a small class of the code base (a scanner that keeps the text), or to a
                    # method of such an object: followed by evaluation instead of by reading
                    tgt_ = None
                    try:
                        tgt_ = p.resolve_expr(fi.module, par.func) if isinstance(par.func, (ast.Name, ast.Attribute)) else None
                    except Exception:
                        tgt_ = None
                    via_object = isinstance(par.func, ast.Attribute) and isinstance(par.func.value, ast.Name) and par.func.value.id not in ("self", "cls") \
                        and any(isinstance(a_, ast.Assign) and len(a_.targets) == 1 and isinstance(a_.targets[0], ast.Name) and a_.targets[0].id == par.func.value.id
                                and isinstance(a_.value, ast.Call) for a_ in ast.walk(fn))
                    if isinstance(tgt_, ClassInfo) or (isinstance(tgt_, FuncInfo) and tgt_.owner is not None) or via_object:
                        if not evaluated:
                            evaluated.append(True)
                            by_evaluation("`%s`" % re.sub(r"\s+", " ", fi.module.segment(par) or "")[:60])
                        ok = True
                n_uses += 1
                if not ok and isinstance(n, ast.Name) and n.id in normalised_names(fn):
                    # a literal pre-test on case-normalised text (`anchor in upper`, `upper.find(prefix, i)`): whether skipping on
                    # its answer is equivalent to running the pattern depends on what the pattern can match -- not decided here
                    raise AnalysisError("%s:%d: the searched text, case-normalised, is inspected outside the compiled pattern (`%s`): "
                                        "whether this shortcut agrees with the pattern is a question about the pattern's language, "
                                        "which the text-consumers rule does not decide"
                                        % (fi.module.relpath, n.lineno, re.sub(r"\s+", " ", fi.module.segment(par) or "")[:80]))
                r.ob(rule, "%s#%s@%s" % (fi.qualname, getattr(n, "id", "text"), re.sub(r"\W+", "", fi.module.segment(par) or "")[:50]), ok,
                     "the searched text is inspected outside the compiled pattern: `%s` (a shortcut on the raw text has its own letter-case and IUPAC semantics)"
                     % re.sub(r"\s+", " ", fi.module.segment(par) or "")[:100], "%s:%d" % (fi.module.relpath, n.lineno))
    r.floor(rule, 1)


# ---------------------------------------------------------------------------
# order independence (C03.4)


def order_independence_rule(ctx, rule: str):
    """self.modules is consumed only by whole-collection iteration,
    concatenation and joins: no positional access, no early exit."""
    p = ctx.program
    r = ctx.report
    m = p.modules["moclo.core._assembly"]

    def parent_map(tree):
        pm: Dict[int, ast.AST] = {}
        for node in ast.walk(tree):
            for ch in ast.iter_child_nodes(node):
                pm[id(ch)] = node
        return pm

    parents = parent_map(m.tree)

    def whole(node, par, mod, depth=2) -> bool:
        """the collection `node` is consumed as a whole by its parent construct"""
        if isinstance(par, ast.For) and par.iter is node:
            return not any(isinstance(x, ast.Break) for x in ast.walk(par)) and not par.orelse
        if isinstance(par, ast.comprehension) and par.iter is node:
            return True
        if isinstance(par, ast.BinOp) and isinstance(par.op, ast.Add):
            return True
        if isinstance(par, ast.Starred):
            return True
        if isinstance(par, ast.Call) and node in par.args and isinstance(par.func, ast.Name) and par.func.id in (
                "list", "tuple", "set", "len", "sorted", "frozenset", "map", "filter", "zip", "enumerate", "reversed", "sum", "any", "all", "min", "max"):
            return True
        if isinstance(par, ast.Call) and node in par.args and ast.unparse(par.func) in ("itertools.chain", "chain", "itertools.zip_longest", "collections.Counter"):
            return True
        if isinstance(par, ast.Call) and node in par.args and isinstance(par.func, ast.Attribute) and par.func.attr == "join" and len(par.args) == 1:
            return True  # sep.join(collection)
        if isinstance(par, ast.Call) and node in par.args and ((isinstance(par.func, ast.Attribute) and par.func.attr == "format")
                                                               or (isinstance(par.func, ast.Name) and par.func.id in ("repr", "str"))):
            return True  # the text of the whole collection (a __repr__, a message)
        if isinstance(par, ast.Call) and node in par.args and depth > 0 and isinstance(par.func, ast.Attribute) and isinstance(par.func.value, ast.Name) \
                and par.func.value.id not in ("self", "cls"):
            # handed to a method of a small object of the code base built in the same function: index = OverhangIndex();
            # index.update(self.modules) -- every use of the parameter in there must consume it as a whole
            fn_ = par
            while fn_ is not None and not isinstance(fn_, (ast.FunctionDef, ast.Lambda)):
                fn_ = parents.get(id(fn_)) if mod is m else None
            if isinstance(fn_, ast.FunctionDef):
                for a_ in ast.walk(fn_):
                    if isinstance(a_, ast.Assign) and len(a_.targets) == 1 and isinstance(a_.targets[0], ast.Name) and a_.targets[0].id == par.func.value.id \
                            and isinstance(a_.value, ast.Call):
                        try:
                            c_ = p.resolve_expr(mod, a_.value.func)
                        except Exception:
                            c_ = None
                        if isinstance(c_, ClassInfo):
                            g_ = p.class_attr_def(c_, par.func.attr)[1]
                            if isinstance(g_, FuncInfo) and g_.kind == "method" and not any(isinstance(x, ast.Starred) for x in par.args):
                                params_ = [x.arg for x in g_.node.args.posonlyargs + g_.node.args.args][1:]
                                k_ = par.args.index(node)
                                if k_ < len(params_):
                                    pm_ = parent_map(g_.node)
                                    uses_ = [x for x in ast.walk(g_.node) if isinstance(x, ast.Name) and x.id == params_[k_] and isinstance(x.ctx, ast.Load)]
                                    stores_ = [x for x in ast.walk(g_.node) if isinstance(x, ast.Name) and x.id == params_[k_] and not isinstance(x.ctx, ast.Load)]
                                    return not stores_ and all(whole(u, pm_.get(id(u)), g_.module, depth - 1) for u in uses_)
        if isinstance(par, ast.Call) and node in par.args and depth > 0:
            # handed to a function of the repository: every use of the parameter in there consumes it as a whole
            g = None
            if isinstance(par.func, ast.Name):
                g = p.resolve_expr(mod, par.func)
            elif isinstance(par.func, ast.Attribute) and isinstance(par.func.value, ast.Name) and par.func.value.id in ("self", "cls"):
                for ci in mod.classes.values():
                    if ci.node.lineno <= par.lineno <= (ci.node.end_lineno or par.lineno):
                        _, g = p.class_attr_def(ci, par.func.attr)
            elif isinstance(par.func, ast.Attribute) and isinstance(par.func.value, ast.Name):
                # _Value.of(...): an alternative constructor / static helper of a class of the repository
                try:
                    c_ = p.resolve_expr(mod, par.func.value)
                except Exception:
                    c_ = None
                if isinstance(c_, ClassInfo):
                    _, g = p.class_attr_def(c_, par.func.attr)
                    if isinstance(g, FuncInfo) and g.kind not in ("classmethod", "staticmethod"):
                        g = None
            if isinstance(g, ClassInfo):
                # handed to the constructor of a helper class of the repository: kept on the object (self.x = param) and
                # consumed as a whole by every method that reads self.x
                ci_, init = g, p.class_attr_def(g, "__init__")[1]
                if not isinstance(init, FuncInfo) or any(isinstance(x, ast.Starred) for x in par.args):
                    return False
                params = [x.arg for x in init.node.args.posonlyargs + init.node.args.args][1:]
                k = par.args.index(node)
                if k >= len(params):
                    return False
                me = init.node.args.args[0].arg
                pm = parent_map(init.node)
                kept = []
                for u in [x for x in ast.walk(init.node) if isinstance(x, ast.Name) and x.id == params[k] and isinstance(x.ctx, ast.Load)]:
                    pu = pm.get(id(u))
                    if isinstance(pu, ast.Assign) and pu.value is u and len(pu.targets) == 1 and isinstance(pu.targets[0], ast.Attribute) \
                            and isinstance(pu.targets[0].value, ast.Name) and pu.targets[0].value.id == me:
                        kept.append(pu.targets[0].attr)
                    elif not whole(u, pu, init.module, depth - 1):
                        return False
                for attr in kept:
                    for m_ in ci_.attrs.values():
                        if not isinstance(m_, FuncInfo) or not m_.node.args.args:
                            continue
                        me2 = m_.node.args.args[0].arg
                        pm2 = parent_map(m_.node)
                        for u in ast.walk(m_.node):
                            if isinstance(u, ast.Attribute) and u.attr == attr and isinstance(u.value, ast.Name) and u.value.id == me2 and isinstance(u.ctx, ast.Load):
                                if not whole(u, pm2.get(id(u)), m_.module, depth - 1):
                                    return False
                return True
            if isinstance(g, FuncInfo) and not any(isinstance(x, ast.Starred) for x in par.args):
                params = [x.arg for x in g.node.args.posonlyargs + g.node.args.args]
                if g.owner is not None and g.kind in ("method", "classmethod") and isinstance(par.func, ast.Attribute):
                    params = params[1:]
                k = par.args.index(node)
                if k < len(params):
                    pm = parent_map(g.node)
                    uses = [x for x in ast.walk(g.node) if isinstance(x, ast.Name) and x.id == params[k] and isinstance(x.ctx, ast.Load)]
                    stores = [x for x in ast.walk(g.node) if isinstance(x, ast.Name) and x.id == params[k] and not isinstance(x.ctx, ast.Load)]
                    return not stores and all(whole(u, pm.get(id(u)), g.module, depth - 1) for u in uses)
        return False

    n = 0
    mgr_ci = p.get_class("moclo.core._assembly.AssemblyManager")
    mgr_node = mgr_ci.node
    inside_mgr = {id(x) for x in ast.walk(mgr_node)}
    ctor_state = {}

    def ctor_attr_is_whole(attr: str) -> bool:
        """the constructor, evaluated on a generic list of modules, leaves in self.<attr> a collection of exactly the
        supplied modules (whatever expression computed it: `(modules + [vector])[:-1]` is `modules` again)"""
        if "attrs" not in ctor_state:
            from .kernels2 import build_manager

            init = p.class_attr_def(mgr_ci, "__init__")[1]
            vals: Dict[str, list] = {}

            def make_args(I):
                _, _, mod_cls, vec_cls = _mgr_world(ctx)
                mods = ACollection("modules", lambda: _entity(mod_cls, "m"))
                return (AObj(mgr_ci, {}, name="mgr"), _entity(vec_cls, "V"), mods), {}

            def post(I, o):
                if o.kind == "return":
                    for k_, v_ in I.kernel_args[0].attrs.items():
                        vals.setdefault(k_, []).append(v_)
                return []

            if isinstance(init, FuncInfo):
                run_paths(ctx, init, make_args, [], hooks=_entity_hooks(p), post=post)
            ctor_state["attrs"] = vals
        got = ctor_state["attrs"].get(attr)
        return bool(got) and all(isinstance(v_, ACollection) and v_.name == "modules" for v_ in got)

    for node in ast.walk(m.tree):
        if isinstance(node, ast.Attribute) and node.attr in ("modules", "elements") and isinstance(node.value, ast.Name) and node.value.id == "self" and isinstance(node.ctx, ast.Load):
            if id(node) not in inside_mgr:
                # `self.modules` of another class (a report object listing the modules *in insertion order*) is not the list
                # of supplied modules; what such an object is given is judged where the manager hands it over
                continue
            par = parents.get(id(node))
            ok = whole(node, par, m)
            if not ok and isinstance(par, ast.Subscript) and par.value is node and isinstance(par.slice, ast.Slice):
                # a slice is positional in general; when it only computes an attribute of the manager in the constructor,
                # what that attribute then holds decides
                up = parents.get(id(par))
                fn_ = up
                while fn_ is not None and not isinstance(fn_, (ast.FunctionDef, ast.Lambda)):
                    fn_ = parents.get(id(fn_))
                if isinstance(up, ast.Assign) and up.value is par and len(up.targets) == 1 and isinstance(up.targets[0], ast.Attribute) \
                        and isinstance(up.targets[0].value, ast.Name) and up.targets[0].value.id == "self" \
                        and isinstance(fn_, ast.FunctionDef) and fn_.name == "__init__":
                    try:
                        ok = ctor_attr_is_whole(up.targets[0].attr)
                    except AnalysisError:
                        ok = False
            n += 1
            r.ob(rule, "moclo.core._assembly#self.%s@%s" % (node.attr, re.sub(r"\W+", "", m.segment(par) or "")[:50]), ok,
                 "the list of supplied modules must be consumed as a whole (iteration, concatenation, join); `%s` depends on the argument order"
                 % re.sub(r"\s+", " ", m.segment(par) or "")[:100], "%s:%d" % (m.relpath, node.lineno))
    r.floor(rule, 2)


# ---------------------------------------------------------------------------
# characterize (C05.3)


def characterize_rule(ctx, rule: str):
    """characterize(), evaluated abstractly: the candidates are two direct
    subclasses and the class itself; isabstract(cls) and each candidate's
    is_valid() fork.  On every path the value returned is the first candidate
    -- subclasses in order, then the class itself when it is concrete -- whose
    is_valid() was true on that path, and RuntimeError is raised exactly when
    no candidate was valid."""
    p = ctx.program
    fi = p.get_func("moclo.core.parts.AbstractPart.characterize")
    root = p.get_class("moclo.core.parts.AbstractPart")
    ap = None
    for c in p.all_classes():
        # a kit's part base (declares the cutter) with at least two direct subclasses
        if root in c.bases and len([d for d in p.all_classes() if c in d.bases]) >= 2:
            ap = c
            break
    if ap is None:
        raise AnalysisError("no kit part base with two direct subclasses: cannot evaluate characterize()")
    S1, S2 = [d for d in p.all_classes() if ap in d.bases][:2]

    def class_getattr(fr, base, a, node):
        if a == "__subclasses__" and base is ap:
            def sub(fr2, args, kwargs, node2):
                return AList([S1, S2])
            return BoundMethod("py", sub, a)
        return NotImplemented

    def instantiate(fr, ci, args, kwargs, node):
        if ci in (S1, S2, ap):
            fr.I.path.effects.append(("candidate", ci.name, args))
            return AObj(ci, {"record": args[0] if args else None}, name=ci.name)
        return NotImplemented

    def isabstract_hook(I, f, args, kwargs):
        return I.path.choose("isabstract", [False, True])

    tolerance = {"seen": 0, "tolerant": 0}

    def is_valid_hook(I, f, args, kwargs):
        v = I.path.choose("valid %s" % args[0].name, [True, False, "abstract"])
        if v == "abstract":
            # the candidate class cannot be typed at all (no signature / no cutter): its structure() raises
            raise RaiseSig(AExc("NotImplementedError", ["no signature defined"], {}))
        return v

    hooks = {"class_getattr": class_getattr, "instantiate": instantiate, "moclo._utils.isabstract": isabstract_hook,
             "moclo.core._structured.StructuredRecord.is_valid": is_valid_hook}

    def make_args(I):
        rec = circ_record("W", ident="rec")
        rec.attrs["id"] = Term("id", Term("rec"))
        I.rec = rec
        return (ap, rec), {}

    def post(I, o):
        name = fi.qualname
        ch = dict(o.path.choices)
        if "abstract" in ch.values():
            # how characterize copes with an abstract candidate is only summarised (used by the class-table obligation below)
            first = [t for t, v in o.path.choices if v == "abstract"][0]
            later = [t for t, v in o.path.choices if t.startswith("valid ")]
            tolerance["seen"] += 1
            if later.index(first) < len(later) - 1 or o.kind == "return":
                tolerance["tolerant"] += 1
            return []
        abstract = ch.get("isabstract")
        order = [S1.name, S2.name] + ([] if abstract else [ap.name])
        out = []
        if "isabstract" not in ch:
            out.append((rule + ".candidates", name, False, "whether the class itself is a candidate (it is when it is concrete) is never asked"))
            order = [S1.name, S2.name]
        expected = None
        for c in order:
            v = ch.get("valid %s" % c)
            if v is None:
                # never asked although no earlier candidate was valid
                expected = ("unasked", c)
                break
            if v:
                expected = ("valid", c)
                break
        tests = [e for e in o.path.effects if e[0] == "text-test"]
        out.append((rule + ".text-test", name, not tests,
                    "which type a record has is decided by the candidates' is_valid() alone; a literal test on the record's text (%s) is "
                    "case-sensitive and reads one strand: the same plasmid spelled in lower case is typed differently"
                    % "; ".join("%r %s record" % (e[2], e[1]) for e in tests)))
        cands = [e for e in o.path.effects if e[0] == "candidate"]
        okrec = all(e[2] and e[2][0] is I.rec for e in cands)
        out.append((rule + ".validated-return", name + "#record", okrec, "every candidate must be built from the record being characterised"))
        if expected is None:
            out.append((rule + ".runtime-error", name, o.kind == "raise" and o.value.name == "RuntimeError",
                        "when no candidate accepts the record characterize must raise RuntimeError: candidates %s, got %r" % (order, o)))
        elif expected[0] == "unasked":
            ok = False
            if o.kind == "return" and isinstance(o.value, AObj) and ch.get("valid %s" % o.value.name) is True and order.index(o.value.name) < order.index(expected[1]):
                ok = True
            out.append((rule + ".candidates", name, ok,
                        "candidate %s is never tried although no earlier candidate accepted the record (candidates must be every direct subclass, then the class itself when concrete): %r" % (expected[1], o)))
        else:
            ok = o.kind == "return" and isinstance(o.value, AObj) and o.value.name == expected[1]
            out.append((rule + ".validated-return", name, ok,
                        "the first candidate whose is_valid() is true (%s) must be returned: got %r" % (expected[1], o)))
        return out

    emit(ctx, run_paths(ctx, fi, make_args, [N - 1], hooks=hooks, post=post), fi.where())
    ctx.report.floor(rule + ".validated-return", 6)
    ctx.report.floor(rule + ".runtime-error", 2)
    # the candidates of every kit part base, from the class table: unless characterize() steps over candidates that cannot
    # be typed, an abstract direct subclass aborts the scan before the candidates listed after it are tried
    skips_abstract = tolerance["seen"] > 0 and tolerance["tolerant"] == tolerance["seen"]
    inv = {k.ci.qualname: k for k in ctx.inventory}
    n = 0
    for base in p.all_classes():
        if base.synthetic or base is root or not p.is_subclass(base, root) or not base.module.name.startswith("moclo.kits."):
            continue
        subs = [c for c in p.all_classes() if not c.synthetic and base in c.bases]
        if not subs:
            continue
        n += 1
        bad = [c for c in subs if not (inv.get(c.qualname) is not None and inv[c.qualname].concrete)]
        ctx.report.ob(rule + ".candidates-typable", base.qualname, skips_abstract or not bad,
                      "%s.characterize() tries its direct subclasses in definition order; %s cannot be typed (%s), so the scan ends with its "
                      "NotImplementedError before the %d candidate(s) defined after it are tried"
                      % (base.name, ", ".join(c.name for c in bad), "; ".join((inv[c.qualname].abstract_reason if inv.get(c.qualname) else "not a structured class") for c in bad),
                         len(subs) - 1 - subs.index(bad[0]) if bad else 0), bad[0].where() if bad else base.where())
    ctx.report.floor(rule + ".candidates-typable", 4)


# ---------------------------------------------------------------------------
# C17 (c): accessors surface an invalid record as InvalidSequence


def accessor_totality(ctx, rule: str):
    p = ctx.program
    inv = p.get_class("moclo.errors.InvalidSequence")
    hooks = dict(FRAG_HOOKS)

    def match_raises(I, f, args, kwargs):
        I.path.effects.append(("match-read",))
        raise RaiseSig(AExc(inv, [Term("record")], {}))

    slot = match_slot(p)
    for cn in ("moclo.core._structured.StructuredRecord", "moclo.core.modules.AbstractModule", "moclo.core.vectors.AbstractVector"):
        hooks["%s.%s" % (cn, slot)] = match_raises
        raw_ = p.class_attr_def(p.get_class(cn), slot)[1]
        if isinstance(raw_, FuncInfo):
            hooks[raw_.qualname] = match_raises  # (wherever the class takes the property from: a shared base class)
    table = [("moclo.core.modules.AbstractModule", m) for m in ("overhang_start", "overhang_end", "target_sequence")] + \
            [("moclo.core.vectors.AbstractVector", m) for m in ("overhang_start", "overhang_end", "target_sequence", "placeholder_sequence")]
    for cname, meth in table:
        ci = p.get_class(cname)
        owner, raw = p.class_attr_def(ci, meth)
        if not isinstance(raw, FuncInfo):
            raise AnalysisError("anchor vanished: %s.%s" % (cname, meth))

        def make_args(I, ci=ci):
            rec = circ_record("W:x", ident="x")
            obj = AObj(ci, {"record": rec, "seq": ASeq("Seq", rec.pieces), "cutter": AEnzymeV(True)}, name="x")
            return (obj,), {}

        def post(I, o, raw=raw):
            ok = o.kind == "raise" and _is_exc(p, o.value, "moclo.errors.InvalidSequence")
            return [(rule, raw.qualname, ok,
                     "on a record that does not match, the accessor must end with the match's InvalidSequence (nothing that can fail differently may precede the read of self._match): got %r" % (o,))]

        emit(ctx, run_paths(ctx, raw, make_args, [N - 1], hooks=hooks, post=post), raw.where())
    ctx.report.floor(rule, 7)


def kernel_raise_classes(ctx, rule: str):
    """(d) every exception the assembly kernels end with is a MoClo error."""
    # the walk kernels record their outcomes' exception classes in ctx.walk_raises
    p = ctx.program
    r = ctx.report
    for fn_name, exc in sorted(getattr(ctx, "walk_raises", set()), key=lambda t: (t[0], getattr(t[1], "qualname", str(t[1])))):
        ok = isinstance(exc, ClassInfo) and p.is_subclass(exc, p.get_class("moclo.errors.MocloError"))
        r.ob(rule, "%s#%s" % (fn_name, exc.name if isinstance(exc, ClassInfo) else exc), ok,
             "an assembly must end with a product or a documented MoClo exception, this path raises %s" % (exc.qualname if isinstance(exc, ClassInfo) else exc), "")
    r.floor(rule, 3)


# ---------------------------------------------------------------------------
# C18 taint / C19 read-set over the walk kernels' recorded effects


def collect_walk_effects(ctx):
    """Run K0, K15, K14 once more with recording hooks and return the list of
    (function, path, outcome) for taint / read-set rules."""
    from . import kernels2

    p, mgr, mod_cls, vec_cls = _mgr_world(ctx)
    records = []

    def grab(name):
        fi = p.get_func("moclo.core._assembly.AssemblyManager.%s" % name)
        return fi

    saved_emit = kernels2.emit

    def spy_emit(c, outs, where, prefix=""):
        for o in outs:
            records.append((where, o))

    kernels2.emit = spy_emit
    try:
        kernels2.k0_vector_check(ctx, "spy")
        kernels2.k15_map(ctx, "spy")
        kernels2.k14_walk(ctx, "spy")
    finally:
        kernels2.emit = saved_emit
    # floors registered by the kernels refer to rules that were not emitted in spy mode
    for k in list(ctx.report.floors):
        if k.startswith(("K0.", "K14.", "K15.")) and not ctx.report.count(k):
            del ctx.report.floors[k]
    ctx.walk_raises = set()
    for where, o in records:
        if o.kind == "raise":
            ctx.walk_raises.add((where, o.value.cls))
    return records


def _raw_overhangs(t, acc=None, normalised=False):
    """occurrences of start(X)/end(X) in a term that are not under a case normaliser"""
    acc = [] if acc is None else acc
    if isinstance(t, Term):
        if t.op in ("start", "end") and len(t.args) == 1:
            if not normalised:
                acc.append(t)
            return acc
        inner_norm = normalised or t.op in NORMALISERS
        if t.op == "kappa":
            return acc
        for a in t.args:
            _raw_overhangs(a, acc, inner_norm)
    return acc


def accessor_normalises(ctx) -> bool:
    """do the accessors themselves return a case-normalised sequence?"""
    p = ctx.program
    res = []
    for cname in ("moclo.core.modules.AbstractModule", "moclo.core.vectors.AbstractVector"):
        ci = p.get_class(cname)
        for meth in ("overhang_start", "overhang_end"):
            owner, raw = p.class_attr_def(ci, meth)

            def make_args(I, ci=ci):
                return (_structured_obj(I, ci, "x", _spans()),), {}

            outs = run_paths(ctx, raw, make_args, match_facts(), hooks=FRAG_HOOKS, post=lambda I, o: [])
            res.append(all(o.kind == "return" and isinstance(o.value, ASeq) and o.value.upper for o in outs))
    return all(res)


def case_taint_rule(ctx, rule: str, records):
    r = ctx.report
    at_accessor = accessor_normalises(ctx)
    r.analysed["accessors_normalise_case"] = at_accessor
    n = 0
    seen = set()
    for where, o in records:
        for e in o.path.effects:
            sink = None
            if e[0] == "compare":
                sink = ("==", [e[1], e[2]])
            elif e[0] in ("map-setdefault", "map-get", "map-pop", "map-haskey", "map-getitem", "map-store"):
                sink = (e[0][4:], [e[2]])
            if not sink:
                continue
            for t in sink[1]:
                raws = _raw_overhangs(t)
                key = (where, sink[0], repr(t))
                if key in seen:
                    continue
                seen.add(key)
                if not isinstance(t, Term) or (not raws and "start(" not in repr(t) and "end(" not in repr(t)):
                    continue
                n += 1
                ok = at_accessor or not raws
                r.ob(rule, "%s#%s:%s" % (where, sink[0], repr(t)), ok,
                     "an overhang read from an input reaches %s without a case normaliser (upper/lower/casefold): Seq equality and hashing are case-sensitive, so mixed-case inputs chain differently: %r"
                     % ("a comparison" if sink[0] == "==" else "a dictionary " + sink[0], t), where)
    # loop-carried keys of the walk: what flows into the current overhang must be normalised as well
    for where, o in records:
        flows = []
        for e in o.path.effects:
            if e[0] == "loop-entry":
                flows += [("walk-entry", v) for v in e[1].values() if isinstance(v, Term)]
        if o.kind == "step" and o.env:
            flows += [("walk-step", v) for k_, v in o.env.items() if isinstance(v, Term) and k_ != "self"]
        for kind, t in flows:
            if "start(" not in repr(t) and "end(" not in repr(t):
                continue
            key = (where, kind, repr(t))
            if key in seen:
                continue
            seen.add(key)
            raws = _raw_overhangs(t)
            r.ob(rule, "%s#%s:%s" % (where, kind, repr(t)), at_accessor or not raws,
                 "the overhang carried to the next lookup of the walk is not case-normalised: %r" % (t,), where)
    r.floor(rule, 4)


def _norm_signature(t):
    """how an overhang term is normalised before it is compared: the chain of normaliser ops directly above start()/end()"""
    sigs = set()

    def walk(x, above):
        if isinstance(x, Term):
            if x.op in ("start", "end") and len(x.args) == 1:
                sigs.add(above)
                return
            for a in x.args:
                walk(a, x.op if x.op in NORMALISERS else (above if x.op in ("reverse_complement",) else ""))

    walk(t, "")
    return sigs


def consistent_equality_rule(ctx, rule: str, records):
    """C03: the outcome is a function of ONE equality on overhangs.  The
    vector check, the duplicate detection and the walk must compare overhangs
    normalised the same way (all raw, or all through the same normaliser);
    otherwise two overhangs are 'different' for one test and 'equal' for
    another."""
    r = ctx.report
    seen = {}
    for where, o in records:
        terms = []
        for e in o.path.effects:
            if e[0] == "compare":
                terms += [("==", e[1]), ("==", e[2])]
            elif e[0] in ("map-setdefault", "map-get", "map-pop", "map-haskey", "map-getitem", "map-store"):
                terms.append((e[0][4:], e[2]))
            elif e[0] == "loop-entry":
                terms += [("walk-entry", v) for v in e[1].values() if isinstance(v, Term)]
        if o.kind == "step" and o.env:
            terms += [("walk-step", v) for k_, v in o.env.items() if isinstance(v, Term) and k_ != "self"]
        for kind, t in terms:
            for sig in _norm_signature(t):
                seen.setdefault(sig, set()).add("%s#%s:%r" % (where, kind, t))
    if not seen:
        raise AnalysisError("no overhang comparison found in the assembly kernels")
    # the majority normalisation is the reference; every other one is reported
    ref = max(seen, key=lambda s: len(seen[s]))
    at_accessor = accessor_normalises(ctx)  # then every overhang is already normalised where it is read
    for sig, sites in sorted(seen.items()):
        for site in sorted(sites):
            r.ob(rule, site, at_accessor or sig == ref,
                 "overhangs are compared %s here but %s elsewhere in the assembly: two overhangs can be equal for one test and different for another (e.g. atgc / ATGC)"
                 % ("through .%s()" % sig if sig else "as raw, case-sensitive Seq objects", "through .%s()" % ref if ref else "raw"), site.split("#")[0])
    r.floor(rule, 4)


def m_funcs(p):
    m = p.modules["moclo.core._assembly"]
    for f in m.functions.values():
        yield f
    for ci in m.classes.values():
        for v in ci.attrs.values():
            if isinstance(v, FuncInfo):
                yield v


def read_set_rule(ctx, rule: str, records):
    """C19: along the walk a module is read only through its overhang
    accessors and its target; no test depends on anything else."""
    p = ctx.program
    r = ctx.report
    allowed = {"overhang_start", "overhang_end", "target_sequence", "record", "name"}
    seen = set()
    for where, o in records:
        for e in o.path.effects:
            if e[0] == "getattr" and (e[1] in ("m", "Mlast", "Mprev") or e[1].startswith("M[")):  # (the module linked last is a module)
                key = (where, e[2])
                if key in seen:
                    continue
                seen.add(key)
                r.ob(rule + ".module-reads", "%s#module.%s" % (where, e[2]), e[2] in allowed,
                     "a module is read through `.%s` on the assembly path; only the overhang accessors, the target and the record (id/citations) may be read" % e[2], where)
        for tag, v in o.path.choices:
            if tag.startswith("arith ") and re.search(r"(?<![A-Za-z:])n:(m\b|M\[|Mlast\b|Mprev\b)|len:F:(m\b|M\[|Mlast\b|Mprev\b)", tag):
                key = (where, tag)
                if key in seen:
                    continue
                seen.add(key)
                r.ob(rule + ".control-flow", "%s#%s" % (where, tag), False,
                     "the walk branches on a property of a module other than its overhangs (%s): replacing the module by a same-signature one could change the outcome" % tag, where)
    r.floor(rule + ".module-reads", 3)
    # .record uses in _assembly.py: .record.id (comment, messages) and .record as argument of the citation rewrite only
    from .roles import citation_functions

    rewrite_names = {f.name for f in citation_functions(p)}
    # helpers / context managers that do nothing with a record but hand it to the rewrite pair
    from .roles import layer_functions, reach, manager_phases

    pair = citation_functions(p)
    phases = set(id(f) for f in manager_phases(p).values())
    orchestration = {f.name for f in layer_functions(p)
                     if f.name != "assemble" and id(f) not in phases and any(g in reach(p, f) for g in pair)}
    # ... and classes of the layer whose methods do (a context manager object built from the records)
    orchestration |= {f.owner.name for f in layer_functions(p)
                      if f.owner is not None and f.owner.name != "AssemblyManager" and f.name in ("__enter__", "__exit__", "__init__", "__call__")
                      and any(any(g in reach(p, m_) for g in pair) for m_ in f.owner.attrs.values() if isinstance(m_, FuncInfo))}
    m = p.modules["moclo.core._assembly"]
    parents: Dict[int, ast.AST] = {}
    for node in ast.walk(m.tree):
        for ch in ast.iter_child_nodes(node):
            parents[id(ch)] = node
    from .roles import citation_private_helpers

    # the class that carries the rewrite pair when it lives on a small object around one record, and the functions of the
    # layer that do nothing but build such an object from a record
    pair_owners = {f.owner for f in pair if f.owner is not None and f.owner.name != "AssemblyManager"}
    pair_owner_factories = {c.name for c in pair_owners}
    for f in layer_functions(p):
        body_ = [st for st in f.node.body if not (isinstance(st, ast.Expr) and isinstance(st.value, ast.Constant))]
        if len(body_) == 1 and isinstance(body_[0], ast.Return) and isinstance(body_[0].value, ast.Call):
            try:
                c_ = p.resolve_expr(f.module, body_[0].value.func)
            except Exception:
                c_ = None
            if c_ in pair_owners:
                pair_owner_factories.add(f.name)

    inside_rewrite = {id(f.node) for f in pair} | {id(f.node) for f in layer_functions(p) if id(f) in citation_private_helpers(p)}
    entry_ = p.get_func("moclo.core._assembly.AssemblyManager.assemble")
    init_ = p.get_func("moclo.core._assembly.AssemblyManager.__init__")
    on_assembly_path = {id(g.node) for e_ in (entry_, init_) for g in reach(p, e_, 8)}
    known_functions = {id(f.node) for f in list(m_funcs(p))}
    for node in ast.walk(m.tree):
        if isinstance(node, ast.Attribute) and node.attr == "record" and isinstance(node.ctx, ast.Load):
            root, path = chain_of(node)
            par = parents.get(id(node))
            ok = False
            val = node
            encl = node
            while encl is not None and not isinstance(encl, (ast.FunctionDef, ast.AsyncFunctionDef)):
                encl = parents.get(id(encl))
            if encl is not None and id(encl) not in on_assembly_path and id(encl) in known_functions:
                # code of the module that assemble() never runs (a dry-run report, a repr): not part of what the property
                # quantifies over
                continue
            if encl is not None and id(encl) in inside_rewrite and root == "self" and not any(
                    f.owner is not None and f.owner.name == "AssemblyManager" for f in pair if f.node is encl):
                # the rewrite pair (or a helper only it runs) living on a small object wrapped around one record: that
                # object's own `record` field *is* the citation rewrite's use of the record
                continue
            if root == "self" and path and path[0] == ".record" and encl is not None:
                # `self.record` of a small class of the layer (a chain that accumulates the product): when every value the
                # class ever stores there is built on the spot (SeqRecord(...), a concatenation), it is the object's own
                # record under construction, not a record of an input
                owner_ = next((ci_ for ci_ in m.classes.values() if any(x is encl for x in ast.walk(ci_.node))), None)
                if owner_ is not None and owner_.name != "AssemblyManager":
                    stores_ = []
                    for x in ast.walk(owner_.node):
                        tg_ = x.targets if isinstance(x, ast.Assign) else ([x.target] if isinstance(x, (ast.AugAssign, ast.AnnAssign)) else [])
                        for t_ in tg_:
                            if isinstance(t_, ast.Attribute) and t_.attr == "record" and isinstance(t_.value, ast.Name) and t_.value.id == "self":
                                stores_.append(x)
                    def fresh_(v_):
                        return (isinstance(v_, ast.Call) and isinstance(v_.func, (ast.Name, ast.Attribute))
                                and (v_.func.id if isinstance(v_.func, ast.Name) else v_.func.attr) in ("SeqRecord", "CircularRecord")) \
                            or (isinstance(v_, ast.BinOp) and isinstance(v_.op, ast.Add))
                    if stores_ and all((isinstance(x, ast.AugAssign) and isinstance(x.op, ast.Add)) or (getattr(x, "value", None) is not None and fresh_(x.value))
                                       for x in stores_):
                        continue
            # the records of the elements collected for a call: (elem.record for elem in self.elements), [..], map(...)
            while isinstance(par, (ast.GeneratorExp, ast.ListComp, ast.SetComp)) and par.elt is val:
                val, par = par, parents.get(id(par))
            def call_ok(call, v):
                if not (isinstance(call, ast.Call) and (v in call.args or any(k.value is v for k in call.keywords)) and isinstance(call.func, (ast.Attribute, ast.Name))):
                    return False
                nm = call.func.attr if isinstance(call.func, ast.Attribute) else call.func.id
                if nm in rewrite_names or nm in orchestration:
                    return True
                # wrapped in the object that carries the rewrite pair, which is asked to rewrite at once:
                # self._citation_table(elem.record).dereference() / CitationTable(elem.record).reference()
                up_ = parents.get(id(call))
                if isinstance(up_, ast.Attribute) and up_.value is call and up_.attr in rewrite_names and isinstance(parents.get(id(up_)), ast.Call):
                    return True
                return nm in pair_owner_factories

            def name_uses_ok(name, fn, depth=2):
                """every use of the local `name` (a record, or the list of the elements' records) hands it to the rewrite"""
                uses = [n for n in ast.walk(fn) if isinstance(n, ast.Name) and n.id == name and isinstance(n.ctx, ast.Load)]
                if not uses:
                    return False
                for u in uses:
                    pu = parents.get(id(u))
                    if call_ok(pu, u):
                        continue
                    if isinstance(pu, ast.For) and pu.iter is u and isinstance(pu.target, ast.Name) and depth > 0 and name_uses_ok(pu.target.id, pu, depth - 1):
                        continue
                    return False
                return True

            if isinstance(par, ast.Attribute) and par.attr == "id":
                ok = True
            elif call_ok(par, val):
                ok = True
            elif isinstance(par, ast.Assign) and par.value is val and len(par.targets) == 1 and isinstance(par.targets[0], ast.Name):
                fn = par
                while fn is not None and not isinstance(fn, (ast.FunctionDef, ast.AsyncFunctionDef)):
                    fn = parents.get(id(fn))
                ok = fn is not None and name_uses_ok(par.targets[0].id, fn)
            r.ob(rule + ".record-uses", "moclo.core._assembly#%s" % re.sub(r"\W+", "", m.segment(par) or "")[:60], ok,
                 "an input's record is used for something other than its id or the citation rewrite: `%s`" % re.sub(r"\s+", " ", m.segment(par) or "")[:100],
                 "%s:%d" % (m.relpath, node.lineno))
