# coding: utf-8
"""E7 -- obligations, known findings, evidence, exit codes."""
from __future__ import annotations

import json
import os
import re
import sys
import time
from collections import Counter, OrderedDict
from typing import Dict, List, Optional

VERIF = os.path.dirname(os.path.dirname(os.path.abspath(__file__)))


def evidence_dir() -> str:
    """/verif/evidence, or a scratch directory when the self-test aims the
    checks at a mutated copy (those runs must not overwrite real evidence)."""
    return os.environ.get("VERIF_EVIDENCE_DIR") or os.path.join(VERIF, "evidence")

TRUSTED_BASE = [
    "T1 CPython semantics of the modelled constructs: slice normalisation, % and // on a positive modulus, dict.setdefault/get/pop, chained comparison, try/except/finally, C3 MRO and attribute lookup",
    "T2 re: Pattern.match(s, pos, endpos) is anchored at pos, never reads at or beyond endpos, spans are in coordinates of s; (?i) is ASCII case-insensitive; character classes are set membership",
    "T3 Biopython 1.88 contracts: SeqRecord.__getitem__(slice) keeps features with start<=f.start and f.end<=stop shifted by -start; SeqRecord.__add__ shifts the right operand's features by len(left); _shift/_flip keep type, id, strand; Seq.__eq__/__hash__ are case-sensitive; reverse_complement is an involution; SeqRecord._from_validated calls the subclass constructor",
    "T4 enzyme constants are read from Bio.Restriction (site, fst5, ovhg, ovhgseq, is_5overhang, elucidate); the elucidate() shape site+N^n+^+N^k+_+N is re-checked on every run",
    "T5 the IUPAC oracle is Bio.Data.IUPACData.ambiguous_dna_values",
]


class Obligation(object):
    __slots__ = ("rule", "construct", "region", "ok", "detail", "where", "info")

    def __init__(self, rule, construct, ok, detail="", where="", region=None, info=False):
        self.rule, self.construct, self.region = rule, construct, region
        self.ok, self.detail, self.where, self.info = ok, detail, where, info

    def key(self) -> str:
        k = "%s|%s" % (self.rule, self.construct)
        if self.region:
            k += "|%s" % self.region
        return k.replace(" ", "_")

    def as_dict(self):
        d = OrderedDict(rule=self.rule, construct=self.construct)
        if self.region:
            d["region"] = self.region
        d["ok"] = self.ok
        if self.where:
            d["where"] = self.where
        if self.detail:
            # for a discharged obligation the text is what would have been reported had it failed
            d["detail" if not self.ok else "report_if_violated"] = self.detail
        return d


class Report(object):
    def __init__(self, pid: str, tier: str):
        self.pid = pid
        self.tier = tier
        self.t0 = time.time()
        self.obs: List[Obligation] = []
        self.notes: List[str] = []
        self.analysed: Dict[str, object] = OrderedDict()
        self.explanation = ""
        self.not_decided: List[str] = []
        self.extra: Dict[str, object] = OrderedDict()
        self.floors: Dict[str, int] = {}
        self.skip = set()  # rule names not part of the property being decided
        self.assumptions: List[str] = []

    # -- recording ----------------------------------------------------------

    def ob(self, rule, construct, ok, detail="", where="", region=None):
        if rule in self.skip:
            return True  # a lemma's side obligation that is not part of this property
        o = Obligation(rule, construct, bool(ok), detail, where, region)
        self.obs.append(o)
        return o.ok

    def note(self, text: str):
        self.notes.append(text)

    def floor(self, rule: str, n: int):
        """instance floor: fewer than n obligations of this rule is an
        analysis error (a rule matching nothing passes vacuously forever)."""
        if rule not in self.skip:
            self.floors[rule] = n

    def count(self, rule: str) -> int:
        return sum(1 for o in self.obs if o.rule == rule)

    # -- finishing ----------------------------------------------------------

    def finish(self) -> int:
        from .loader import AnalysisError

        known = load_known_findings().get(self.pid, {})
        failed = [o for o in self.obs if not o.ok]
        if not failed:
            # a rule matching nothing passes vacuously forever: fail closed.  (When an obligation already failed, the
            # missing instances are usually its consequence -- e.g. no containment obligation after a failed inclusion --
            # and the violation is the more specific report.)
            for rule, n in self.floors.items():
                c = self.count(rule)
                if c < n:
                    raise AnalysisError(
                        "instance floor not met for rule %s: %d obligation(s), at least %d confirmed by hand" % (rule, c, n)
                    )
        unlisted = []
        for o in failed:
            if o.key() in known:
                print("KNOWN-FINDING: property=%s %s %s" % (self.pid, o.key(), known[o.key()]))
            else:
                unlisted.append(o)
        replay = None
        if unlisted:
            rdir = os.path.join(evidence_dir(), "replay")
            os.makedirs(rdir, exist_ok=True)
            replay = os.path.join(rdir, "%s.json" % self.pid)
            with open(replay, "w") as fh:
                json.dump(
                    {
                        "property_id": self.pid,
                        "tier": self.tier,
                        "repo": os.environ.get("VERIF_REPO", "/repo"),
                        "failed_obligations": [o.as_dict() for o in unlisted],
                        "how_to_replay": "cd /verif && ./check %s --tier %s --replay %s" % (self.pid, self.tier, replay),
                    },
                    fh,
                    indent=1,
                )
            for o in unlisted:
                print(
                    "%s  rule=%s  instance=%s%s  %s"
                    % (o.where or "-", o.rule, o.construct, (" region=" + o.region) if o.region else "", o.detail)
                )
        self.write_evidence(len(unlisted))
        ok = len(self.obs) - len(failed)
        print(
            "property=%s tier=%s obligations=%d discharged=%d known=%d violations=%d wall=%.2fs"
            % (self.pid, self.tier, len(self.obs), ok, len(failed) - len(unlisted), len(unlisted), time.time() - self.t0)
        )
        if unlisted:
            print("VIOLATION property=%s replay=%s" % (self.pid, replay))
            return 1
        return 0

    def write_evidence(self, violations: int):
        by_rule = Counter(o.rule for o in self.obs)
        samples = []
        seen = set()
        for o in self.obs:
            if o.rule in seen:
                continue
            seen.add(o.rule)
            samples.append(o.as_dict())
        for o in self.obs:
            if not o.ok and o.as_dict() not in samples:
                samples.append(o.as_dict())
        ok = sum(1 for o in self.obs if o.ok)
        coverage = OrderedDict()
        coverage["explanation"] = self.explanation or "static obligations for %s" % self.pid
        coverage["obligations"] = len(self.obs)
        coverage["discharged"] = ok
        coverage["evaluations"] = len(self.obs)
        coverage["distinct_nontrivial"] = len({o.key() for o in self.obs})
        coverage["rule"] = (
            "one evaluation = one static obligation (rule x construct [x region]) derived from the current source of "
            "/repo; distinct = distinct obligation keys; every obligation is non-trivial in that it is discharged by "
            "analysing a repo construct, never by a constant"
        )
        coverage["exhaustive"] = True
        coverage["obligations_by_rule"] = dict(sorted(by_rule.items()))
        coverage["instance_floors"] = dict(self.floors)
        coverage["analysed"] = self.analysed
        coverage["samples"] = samples[:40]
        coverage["not_decided"] = self.not_decided
        coverage["notes"] = self.notes[:60]
        coverage["trusted_base"] = TRUSTED_BASE
        coverage["checker_cmd"] = "cd /verif && ./check %s --tier %s" % (self.pid, self.tier)
        for k, v in self.extra.items():
            coverage[k] = v
        ev = OrderedDict()
        ev["property_id"] = self.pid
        ev["tier"] = self.tier
        try:
            ev["seed"] = int(os.environ.get("VERIF_SEED", "0"))
        except ValueError:
            ev["seed"] = 0
        ev["level"] = "other"
        ev["coverage"] = coverage
        ev["assumptions"] = TRUSTED_BASE + self.assumptions + ["VERIF_SEED is recorded but unused: no check makes a random choice"]
        ev["wall_s"] = round(time.time() - self.t0, 3)
        ev["violations"] = violations
        edir = evidence_dir()
        os.makedirs(edir, exist_ok=True)
        tmp = os.path.join(edir, ".%s.json.tmp" % self.pid)
        with open(tmp, "w") as fh:
            json.dump(ev, fh, indent=1, default=str)
        os.replace(tmp, os.path.join(edir, "%s.json" % self.pid))


_KF_RX = re.compile(r"^finding:\s+property=(\S+)\s+key=(\S+)\s+(.*)$")


def load_known_findings() -> Dict[str, Dict[str, str]]:
    out: Dict[str, Dict[str, str]] = {}
    path = os.path.join(VERIF, "known_findings.txt")
    if not os.path.exists(path):
        return out
    with open(path) as fh:
        for line in fh:
            m = _KF_RX.match(line.strip())
            if m:
                out.setdefault(m.group(1), {})[m.group(2)] = m.group(3)
    return out
