# coding: utf-8
"""C19 -- parts of the same type are interchangeable."""
from ..kernels import run_kernels
from ..rules_misc import collect_walk_effects, read_set_rule


def run(ctx):
    r = ctx.report
    r.explanation = (
        "Non-interference by read-set: along the assembly path (vector check, map builder, walk, evaluated abstractly "
        "with modules as opaque objects) a module is read only through overhang_start(), overhang_end(), "
        "target_sequence() and .record (.record.id for messages and comments, .record for the citation rewrite); no test "
        "of the walk depends on anything but overhang terms (any arithmetic fork on a module's length or record is the "
        "violation). K7: target_sequence is the circular interval [s1,s3) of the module's own record. K14: one step "
        "appends only the consumed module's fragment. With C01 the product differs only in that module's fragment."
        " overhang-identity: the overhangs that decide the chain are compared and looked up case-normalised (sameness of overhangs is sameness of letters)."
        ' identity: parts compare and hash by identity (the match cache is keyed by the instance). screen-locality: the illegal-site screen digests the matched region only, so validity does not depend on the backbone a replacement is stored in.'
    )
    records = ctx.guard(collect_walk_effects, ctx)
    if records is not None:
        ctx.guard(read_set_rule, ctx, "C19.read-set", records)
        # "the same upstream and downstream overhangs" is sameness of letters, not of spelling (C18): every overhang that
        # decides how the chain goes on is compared / looked up case-normalised, or a replacement spelt in another letter
        # case stalls a chain the original completed
        from ..rules_misc import case_taint_rule
        ctx.guard(case_taint_rule, ctx, "C19.overhang-identity", records)
    run_kernels(ctx, ["K7", "K14", "K15", "K0", "K10"], "C19")
    # a swap succeeds only if typing the replacement does not depend on what was typed before
    from ..rules_ast import persistent_state_rule
    ctx.guard(persistent_state_rule, ctx, "C19.history-free-typing")
    # the match cache is keyed by the instance: parts must compare and hash by identity, or a replacement inherits the
    # cached match of the part it replaces
    from ..rules_misc import identity_rule
    ctx.guard(identity_rule, ctx, "C19.identity")
    from ..rules_misc import assembly_layering_rule
    ctx.guard(assembly_layering_rule, ctx, "C19.assembly-layering")

    # a replacement that is valid by the class's rules must stay valid whatever backbone stores it: the illegal-site
    # screen looks at the matched region only
    from ..rules_misc import k21_match_overrides
    from ..rules_pattern import module_screen_rule
    ctx.guard(k21_match_overrides, ctx, "C19")
    ctx.guard(module_screen_rule, ctx, "C19.screen-locality", threshold=False)
    # "also succeeds": the replacement may carry what the original did not -- citations; the only part of the assembly
    # that reads a module's annotations is the citation rewrite, which must be total on well-formed citations
    # ('[j]' -> references[j-1], written back as '[i+1]')
    run_kernels(ctx, ["K13"], "C19")
