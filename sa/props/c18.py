# coding: utf-8
"""C18 -- letter case never changes the outcome."""
from ..rules_flow import transcription_rule
from ..rules_misc import case_taint_rule, collect_walk_effects


def run(ctx):
    r = ctx.report
    r.explanation = (
        "(a) the case flag: the compiled constant of every IUPAC code matches its nucleotides in both letter cases "
        "(C16's table rule). (b) taint over the walk kernels: every value originating from an overhang accessor of an "
        "input that reaches ==, != or a dictionary key operation in the assembly (vector check, map builder, walk) passes "
        "through a case normaliser (upper/lower/casefold) -- at the call site, inside a helper, or at the accessor itself "
        "(decided by evaluating the accessors abstractly). Seq equality and hashing are case-sensitive (T3), so a raw "
        "overhang at a sink makes mixed-case inputs chain differently."
    )
    r.not_decided = ["case handling inside Bio.Restriction.catalyse"]
    ctx.guard(transcription_rule, ctx, "C18.case-flag")
    from ..kernels import run_kernels
    run_kernels(ctx, ["K0", "K15", "K14"], "C18")
    records = ctx.guard(collect_walk_effects, ctx)
    if records is not None:
        ctx.guard(case_taint_rule, ctx, "C18.case-taint", records)
    from ..rules_misc import k21_match_overrides
    ctx.guard(k21_match_overrides, ctx, "C18")
    # the typing query: the answer is the first candidate whose (case-insensitive) is_valid() accepts, nothing else is asked
    from ..rules_misc import characterize_rule
    ctx.guard(characterize_rule, ctx, "C18.characterize")
    from ..rules_misc import text_consumers_rule
    ctx.guard(text_consumers_rule, ctx, "C18.text-consumers")
