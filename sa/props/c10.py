# coding: utf-8
"""C10 -- literature citations."""
from ..kernels import run_kernels
from ..rules_ast import builtin_method_lint


def run(ctx):
    r = ctx.report
    r.explanation = (
        "K13: the reader maps '[j]' to references[j-1] of the record's own list and raises ValueError on a malformed "
        "string; the writer stores a bracketed 1-based index of the reference in the target list, appending a reference "
        "only when absent; the constant the writer formats is accepted by _CITATION_RX and reads back the same integer "
        "(writer/reader agreement on constants folded from the source). K16: every element -- all modules and the vector "
        "-- is dereferenced before the first fragment is extracted, the product is re-referenced after annotation, the "
        "inputs are re-referenced on all exits. Builtin-method lint over the citation code."
    )
    r.not_decided = ["Reference.__eq__ semantics (library)"]
    run_kernels(ctx, ["K13", "K16"], "C10")
    ctx.guard(builtin_method_lint, ctx, "C10.builtin-method", scope=("moclo.core._assembly", "moclo.core._utils"))
    r.floors["C10.builtin-method"] = 0  # a lint (kept alive by its own fixture): no site is a legitimate state
    from ..rules_misc import fragment_cache_rule
    ctx.guard(fragment_cache_rule, ctx, "C10.no-fragment-cache")
    from ..rules_flow import k17_entry
    ctx.guard(k17_entry, ctx, "C10")
    from ..rules_flow import ctor_rule, getitem_rule
    ctx.guard(getitem_rule, ctx, "C10.freshness.getitem")
    ctx.guard(ctor_rule, ctx, "C10.freshness.ctor")
