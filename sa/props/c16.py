# coding: utf-8
"""C16 -- DNA pattern search semantics."""
from ..kernels import run_kernels
from ..rules_flow import transcription_rule


def run(ctx):
    r = ctx.report
    r.explanation = (
        "Transcription: DNARegex.__init__ is folded on each of the 15 IUPAC codes and the compiled constant is compared "
        "with Bio.Data.IUPACData for 15 codes x 4 nucleotides x 2 letter cases (exhaustive). K2: scan over "
        "range(pos, min(len, endpos)) ascending, first hit returned at once, anchored attempts with a window of exactly "
        "one turn, doubled text exactly for circular targets (CircularRecord, or linear=False), plain text for linear "
        "ones, TypeError for other targets. K1: every group of a reported match is the circular interval of its span in "
        "all regions; start/end/span delegate unchanged. 'Either letter case' is read as the case of the target letters."
        ' letterwise: for an arbitrary pattern what reaches re.compile is a constant prefix followed by lettermap.get(x, x) for each letter in order, each table value being one regex atom -- so the per-letter obligations decide every pattern. K2.every-start: no start position of a non-empty range is left without an anchored attempt. K1 evaluates group() on match objects shaped as search builds them.'
    )
    r.not_decided = ["greedy/lazy choice inside re (T2)", "lower-case ambiguity letters in a pattern are not transcribed by the code; no rule is armed on that"]
    ctx.guard(transcription_rule, ctx, "C16.transcription")
    run_kernels(ctx, ["K2", "K1"], "C16")
    # a group "asked for as a sequence" is a slice of the target: CircularRecord.__getitem__ hands out the library's slice
    from ..rules_flow import getitem_rule
    r.skip.update({"C16.group-slice.no-circular-claim", "C16.group-slice.deepcopy"})
    ctx.guard(getitem_rule, ctx, "C16.group-slice")
    # "any target searched as non-linear": the library's own caller hands linear=False for every circular declaration
    from ..rules_misc import k19_match
    ctx.guard(k19_match, ctx, "C16")
    from ..rules_misc import text_consumers_rule
    ctx.guard(text_consumers_rule, ctx, "C16.text-consumers")
