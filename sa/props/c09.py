# coding: utf-8
"""C09 -- provenance and completeness of the product record."""
from ..kernels import run_kernels
from ..rules_flow import k17_entry, k18_annotate


def run(ctx):
    r = ctx.report
    r.skip.add("K16.references-kept")  # the product's reference list is C10/C11 business
    r.explanation = (
        "K17: the id/name keywords of assemble() reach the manager's id/name unswapped, with every module and the vector. "
        "K18: on every path of _annotate_assembly the product receives that id and name, topology=circular, a "
        "molecule_type and a comment naming the vector and a join over all supplied modules. K7/K8 + K12: each fragment "
        "receives exactly one 'source' feature spanning [0,len(fragment)) labelled with the id of the record it was cut "
        "from; the product being the concatenation of the fragments (K14) these features tile it. K14: the product is "
        "built as CircularRecord."
    )
    r.not_decided = ["GenBank write/read round trip (Biopython I/O)", "nesting of inner provenance features in multi-level assemblies beyond the rotation exemption of K5"]
    ctx.guard(k17_entry, ctx, "C09")
    ctx.guard(k18_annotate, ctx, "C09")
    run_kernels(ctx, ["K7", "K8", "K14", "K16", "K3", "K5"], "C09")
    from ..rules_misc import fragment_cache_rule
    ctx.guard(fragment_cache_rule, ctx, "C09.no-fragment-cache")
    from ..rules_flow import ctor_rule
    ctx.guard(ctor_rule, ctx, "C09.product-copy")
