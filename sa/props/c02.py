# coding: utf-8
"""C02 -- rotation invariance of typing and assembly."""
from ..kernels import run_kernels
from ..rules_misc import k19_match


def run(ctx):
    r = ctx.report
    r.explanation = (
        "Necessary conditions owned by kernels: K2 -- on a circular target the searched text is the doubled word, every "
        "start in [0,n) is tried in ascending order, each with a window of exactly one turn, so the set of (start mod n, "
        "matched text) pairs is the same for every rotation; K1 -- group(i) is the circular interval [a,b) in every "
        "region, including spans that straddle or lie past the end; K3/K6 -- the rotation handed to << may be >= n and is "
        "reduced mod n; K7/K8/K9/K10 -- fragments, placeholder and overhangs are circular intervals of the record whatever "
        "the origin; K19 -- _match searches the record itself with linear = (topology != circular). Regions are created by "
        "forking on every undecided test, so they partition the input space exhaustively."
    )
    r.not_decided = [
        "that the leftmost match is the same occurrence after rotation when the record holds several occurrences (the property restricts to a unique one)",
        "library feature handling (C08)",
    ]
    run_kernels(ctx, ["K2", "K1", "K3", "K7", "K8", "K9", "K10"], "C02")
    ctx.guard(k19_match, ctx, "C02")
    from ..rules_misc import k21_match_overrides
    ctx.guard(k21_match_overrides, ctx, "C02")
    # the illegal-site screen is part of the verdict: what it digests must be cut out of the circle by the match (group 0),
    # not read off the record from wherever its origin happens to be (a site that straddles the origin would be missed)
    from ..rules_pattern import module_screen_rule
    ctx.guard(module_screen_rule, ctx, "C02.screen-rotation", threshold=False)
    from ..rules_misc import text_consumers_rule
    ctx.guard(text_consumers_rule, ctx, "C02.text-consumers")
    # every class must compile the pattern of its own structure(): what the accepted language rests on
    from ..rules_ast import persistent_state_rule
    ctx.guard(persistent_state_rule, ctx, "C02.own-pattern")
    from ..rules_misc import assembly_layering_rule
    ctx.guard(assembly_layering_rule, ctx, "C02.assembly-layering")
    # characterize() is a typing entry point too: it must try every candidate on the record as given (no pre-filter on the
    # linear sequence)
    from ..rules_misc import characterize_rule
    ctx.guard(characterize_rule, ctx, "C02.characterize")
