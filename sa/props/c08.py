# coding: utf-8
"""C08 -- annotations are inherited faithfully."""
from ..kernels import run_kernels
from ..rules_ast import assembly_write_set, feature_writers


def run(ctx):
    r = ctx.report
    r.skip.add("K16.references-kept")  # the product's reference list is C10/C11 business
    r.explanation = (
        "(a) K5: on every region of (part bounds, rotation amount, n) a feature part is relocated by exactly k modulo n "
        "with width, strand, refs, type and qualifiers intact and its start normalised into [0,n); only the single-part "
        "location [0,n) may be exempted. Therefore a feature inside the retained fragment has plain linear coordinates "
        "inside [0,|fragment|) after << start and Biopython's containment test keeps it, while one overlapping a cut is "
        "dropped whole. (b) K7/K8: the fragment is one slice of the rotated record, never a concatenation of pieces. "
        "(c) Along the assembly path the only writer of a feature list is add_as_source's append and the only writer of a "
        "qualifier is the citation rewrite."
    )
    r.not_decided = ["Biopython's shift arithmetic for compound and fuzzy locations", "the 'conversely' direction follows from (c) only"]
    run_kernels(ctx, ["K5", "K7", "K8", "K3", "K14", "K16", "K13"], "C08")  # K13: a citation qualifier keeps designating its reference
    from ..rules_flow import getitem_rule
    ctx.guard(getitem_rule, ctx, "C08.slice")
    eff, sites = assembly_write_set(ctx, "C08.write-set")
    ctx.guard(feature_writers, ctx, "C08", eff, sites)
    from ..rules_misc import assembly_layering_rule
    ctx.guard(assembly_layering_rule, ctx, "C08.assembly-layering")
    # the retained fragment is cut at the spans of the class's own structure (not of a parent matched earlier)
    from ..rules_ast import persistent_state_rule
    ctx.guard(persistent_state_rule, ctx, "C08.own-pattern")
    from ..rules_misc import fragment_cache_rule
    ctx.guard(fragment_cache_rule, ctx, "C08.no-fragment-cache")
