# coding: utf-8
"""C05 -- a part type accepts exactly the records with its signature overhangs."""
from ..kits import describe, enzyme_geometry, synthetic_part
from ..fold import Enzyme
from ..loader import AnalysisError
from ..rules_misc import characterize_rule
from ..rules_pattern import enzymes_for_tier, part_erasure, _delegates_to_super, effective_structure_owner


def run(ctx):
    r = ctx.report
    p = ctx.program
    r.explanation = (
        "For every part class that derives its structure from its signature (structure resolves to AbstractPart.structure, "
        "directly or through an override that only delegates to super), and -- thorough -- for a synthetic user part with a "
        "symbolic signature (U, D) over every enzyme and both roles: with the contents of groups 1 and 3 erased the folded "
        "part pattern equals the folded generic pattern of the same role and cutter (canonical forms), groups 1/3 hold the "
        "signature in the right slots (module: up/down; vector: down/up) and have the overhang's width. Hence the part "
        "language is the generic language restricted to records whose reported overhangs match the signature under the "
        "IUPAC classes of C16. Part classes resolve _match to the same implementation as their generic sibling. "
        "characterize(): the only value returned was valid on its path, every candidate is tried, the fall-through raises "
        "RuntimeError. Depends on C06 (a part compiles its own pattern) and on the transcription table of C16 (every IUPAC code "
        "a signature may carry stands for its class of nucleotides: user signatures are arbitrary)."
        ' The symbolic-signature part is folded for every enzyme in scope in the quick tier too. candidates-typable: characterize() evaluated with a candidate that cannot be typed -- unless it steps over such a candidate, every direct subclass of a kit part base must be concrete (class table).'
    )
    r.not_decided = ["which occurrence the regex engine reports when several exist"]
    ap = p.get_class("moclo.core.parts.AbstractPart")
    n = 0
    for kc in ctx.inventory:
        if not (kc.concrete and kc.is_part):
            continue
        if effective_structure_owner(p, kc) is ap:
            n += 1
            ctx.guard(part_erasure, ctx, kc, "C05.part")
            # same screened _match as the generic sibling
            sib = "moclo.core.modules.AbstractModule" if kc.role == "module" else "moclo.core.vectors.AbstractVector"
            from ..roles import match_slot
            o, raw = p.class_attr_def(kc.ci, match_slot(p))
            so, sraw = p.class_attr_def(p.get_class(sib), match_slot(p))
            r.ob("C05.same-match", kc.name, raw is sraw,
                 "the part resolves _match to %s, its generic sibling to %s" % (getattr(raw, "qualname", raw), getattr(sraw, "qualname", sraw)), kc.ci.where())
        elif kc.structure_owner is kc.ci:
            r.note("%s overrides structure() with a literal: owned by C04" % kc.name)
        else:
            r.ob("C05.part.erasure", kc.name, False,
                 "%s declares the signature %r but its structure() resolves (MRO: %s) to %s, which ignores the signature: the type accepts every %s of its enzyme"
                 % (kc.ci.name, kc.signature, " > ".join(getattr(c, "name", str(c)) for c in p.mro(kc.ci)[:4]), kc.structure_func.qualname if kc.structure_func else "?", kc.role), kc.ci.where())
    r.floor("C05.part.erasure", 55)
    if True:  # every enzyme in scope, in the quick tier too: a structure that is right for the four bundled cutters only is the typical hole
        for e in enzymes_for_tier(ctx):
            site, nn, k = enzyme_geometry(Enzyme.get(e))
            for role in ("module", "vector"):
                ci = synthetic_part(p, role, e, k)
                kc = describe(p, ctx.folder, ctx.lettermap, ci)
                if not kc.concrete:
                    raise AnalysisError("symbolic %s part over %s does not fold: %s" % (role, e, kc.abstract_reason))
                ctx.guard(part_erasure, ctx, kc, "C05.symbolic-part", symbolic=True)
    # "match the signature under IUPAC rules", for arbitrary user-defined signatures: every ambiguity code a signature may
    # carry must be transcribed to its class of nucleotides (the bundled kits use few of them)
    from ..rules_flow import transcription_rule
    ctx.guard(transcription_rule, ctx, "C05.transcription")
    ctx.guard(characterize_rule, ctx, "C05.characterize")
    from ..kernels import run_kernels
    run_kernels(ctx, ["K10", "K1"], "C05")
    from ..rules_misc import k19_match
    ctx.guard(k19_match, ctx, "C05")
    # depends on C06's rule
    from ..rules_ast import persistent_state_rule
    ctx.guard(persistent_state_rule, ctx, "C05.own-pattern")
    # "fails with RuntimeError exactly when no candidate accepts": a candidate that rejects a record must answer False,
    # i.e. whatever its _match raises is an InvalidSequence (what is_valid catches)
    from ..rules_misc import k21_match_overrides
    ctx.guard(k21_match_overrides, ctx, "C05")
    from ..rules_ast import raise_inventory
    ctx.guard(raise_inventory, ctx, "C05.rejection")
    from ..rules_misc import helper_rules
    ctx.guard(helper_rules, ctx, "C05.helpers")
