# coding: utf-8
"""C11 -- products of one level are valid modules of the next level."""
from ..rules_pattern import next_level_inclusion, next_level_instances


def run(ctx):
    r = ctx.report
    r.explanation = (
        "Pure pattern algebra on the folded structure() patterns (no record is ever built): for every vector class "
        "whose structure embeds the next level's sites, the circular product reads Pre.g1.X.g3.Post with |X|>=2 "
        "(C01 closed form); language inclusion L(Pre.g1.N{2,}.g3.Post) <= L(Sigma* P_next Sigma*) is decided by "
        "enumerating the alignments of P_next's fixed head and tail over the product, and in some valid alignment "
        "the next level's group 1 starts no later than the vector's group 1 and its group 3 no earlier than the "
        "vector's group 3 (so the next-level target contains every module target). Holds for all inserts, all "
        "chains, all rotations at once because it is a fact about the patterns. Decides the acceptance clause; the "
        "hypothesis 'no other next-level site' is an input assumption of the property."
    )
    r.not_decided = ["that the leftmost occurrence found by re is the designed one when the product contains further next-level sites (excluded by the property's hypothesis)"]
    inst = next_level_instances(ctx)
    r.analysed["instances"] = ["%s%s -> %s" % (v.ci.name, ("+" + p.ci.name) if p else "", n.ci.name) for v, p, n in inst]
    for v, p, n in inst:
        ctx.guard(next_level_inclusion, ctx, v, p, n, "C11.next-level")
    # "such a product can itself be assembled": the closed form the inclusion is stated on
    from ..kernels import run_kernels
    run_kernels(ctx, ["K7", "K8", "K14"], "C11")
    r.floor("C11.next-level.inclusion", 8)
    r.floor("C11.next-level.containment", 8)
    # every class must compile the pattern of its own structure(): what the accepted language rests on
    from ..rules_ast import persistent_state_rule
    ctx.guard(persistent_state_rule, ctx, "C11.own-pattern")
    # "such a product can itself be assembled at the next level": its two overhangs come from different records (one from
    # a module, one from the vector), spelt in whatever letter case each of them uses -- the next assembly chains it only
    # if overhangs are compared by their letters, not by their spelling
    from ..rules_misc import case_taint_rule, collect_walk_effects
    records_ = ctx.guard(collect_walk_effects, ctx)
    if records_ is not None:
        ctx.guard(case_taint_rule, ctx, "C11.overhang-identity", records_)
    run_kernels(ctx, ["K13", "K16"], "C11")
    run_kernels(ctx, ["K1", "K10", "K2"], "C11")
