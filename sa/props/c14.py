# coding: utf-8
"""C14 -- reverse complement stays circular."""
from ..rules_flow import ctor_rule, revcomp_wrapper_rule


def run(ctx):
    r = ctx.report
    r.explanation = (
        "Thin by nature, stated as such: the override is evaluated abstractly with every parameter symbolic and with "
        "defaults; it must delegate once to SeqRecord.reverse_complement, forwarding every parameter unchanged, and what "
        "it returns must be circular-typed -- the library result as is (T3: born of the subclass constructor) or that "
        "result wrapped in type(self)/CircularRecord. The copy constructor it may go through keeps features and letter "
        "annotations (deep copies of all four containers). These are necessary conditions; the per-feature arithmetic and "
        "commutation with rotation live in Biopython."
        ' no-derived-state as for C13; a hand-written per-feature clone in the copy constructor is judged (provably unfaithful: reported; provably faithful: accepted; otherwise undecided).'
    )
    r.not_decided = ["everything computed by Biopython's reverse_complement/_flip"]
    ctx.guard(revcomp_wrapper_rule, ctx, "C14.revcomp")
    ctx.guard(ctor_rule, ctx, "C14.copy-ctor")
    # commutation with rotation rests on the rotation kernels
    from ..kernels import run_kernels
    run_kernels(ctx, ["K3", "K5"], "C14")
    from ..rules_ast import record_instance_state_rule
    ctx.guard(record_instance_state_rule, ctx, "C14.no-derived-state", ["reverse_complement", "__rshift__", "__lshift__"])
    # records the library itself hands out (assembly products) stay inside the domain on which the above is stated:
    # text id / name (SeqRecord refuses anything else when the record is rebuilt), a DNA molecule type, and no
    # feature location that refers to another entry (Biopython never moves those)
    from ..rules_flow import k17_entry, k18_annotate
    ctx.guard(k17_entry, ctx, "C14")
    ctx.guard(k18_annotate, ctx, "C14")
    from ..rules_ast import location_ref_rule
    ctx.guard(location_ref_rule, ctx, "C14.location-ref")
