# coding: utf-8
"""C04 -- reported overhangs and fragments are true restriction fragments."""
from ..kernels import run_kernels
from ..rules_pattern import enzymes_for_tier, generic_classes, geometry, screen_obligation
from ..fold import _rc
from ..kits import enzyme_geometry


def run(ctx):
    r = ctx.report
    r.explanation = (
        "(1) For each of the concrete kit classes the pattern folded from its structure() has exactly three adjacent "
        "groups, |g1| = |g3| = the cutter's overhang, and for g1 and g3 a cutter site (or its reverse complement) at cut "
        "distance on a side from which the cut lands on the group boundary -- so for every accepted record, at every "
        "rotation, the reported overhangs are sticky ends of two cuts of the declared enzyme and the target lies between "
        "them. (2) For every module-role class whose sites flank the target, _match resolves (C3 MRO) to an implementation "
        "that digests the whole match with the class's own cutter and raises above sites+1 fragments. (3) Kernels K7-K10, "
        "K1: target = [s1,s3), vector target = [s3,s1+n), placeholder = [s1,s3) contiguous, accessors map to the right "
        "groups, group extraction is the circular interval. The vector screen is reported as information only."
    )
    r.not_decided = ["Bio.Restriction.catalyse itself (library)"]
    inv = [k for k in ctx.inventory if k.concrete]
    for kc in inv:
        ctx.guard(geometry, ctx, kc, "C04.geometry")
    r.floor("C04.geometry.groups", 80)
    for kc in generic_classes(ctx, enzymes_for_tier(ctx)):
        ctx.guard(geometry, ctx, kc, "C04.generic-geometry")
    from ..rules_misc import k21_match_overrides
    ctx.guard(k21_match_overrides, ctx, "C04")
    from ..rules_pattern import module_screen_rule
    ctx.guard(module_screen_rule, ctx, "C04.illegal-site-screen")
    r.floor("C04.illegal-site-screen", 60)
    for kc in inv:
        if kc.role == "vector":
            from ..rules_pattern import screen_of
            from ..loader import FuncInfo
            from ..roles import match_slot
            o, raw = ctx.program.class_attr_def(kc.ci, match_slot(ctx.program))
            if isinstance(raw, FuncInfo) and not screen_of(ctx, raw):
                r.note("information only: vector class %s has no illegal-site screen (not required by the property)" % kc.name)
    run_kernels(ctx, ["K7", "K8", "K9", "K10", "K1", "K2", "K3"], "C04")
    from ..rules_misc import k19_match
    ctx.guard(k19_match, ctx, "C04")
    from ..rules_ast import match_slot_rule
    ctx.guard(match_slot_rule, ctx, "C04.match-slot")
    # every class must compile the pattern of its own structure(): what the accepted language rests on
    from ..rules_ast import persistent_state_rule
    ctx.guard(persistent_state_rule, ctx, "C04.own-pattern")
    from ..rules_misc import text_consumers_rule
    ctx.guard(text_consumers_rule, ctx, "C04.text-consumers")
