# coding: utf-8
"""C01 -- assembly yields exactly the ligation product."""
from ..kernels import run_kernels
from ..rules_pattern import enzymes_for_tier, generic_classes, generic_shape, geometry


def run(ctx):
    r = ctx.report
    r.explanation = (
        "Necessary conditions, each decided from the current source: (1) for every enzyme in the quantifier the generic "
        "module and vector patterns, folded from AbstractModule.structure / AbstractVector.structure, have three adjacent "
        "groups, overhang groups of the enzyme's width and the site at cut distance on the right side (holds for every "
        "string the pattern matches); (2) kernels K7/K8: on every region of (match start, group bounds, n) the module "
        "fragment is the circular interval [s1,s3) and the vector fragment [s3,s1+n); (3) kernel K14: one inductive step "
        "of the walk from an arbitrary state maps (P, k, M) to (P.frag(M[k]), end(M[k]), M minus k), it starts from "
        "end(vector), stops at start(vector) and returns Circular(P + frag(vector)) with the vector fragment exactly once; "
        "(4) K15: the map files every module under its own start overhang. By induction this is the documented closed "
        "form for every chain length and every rotation. Decides these structural/arithmetic facts, not the behaviour of "
        "re or Biopython."
        ' The walk loop may sit in a generator consumed by a for loop (the loop-carried state is then split over the frames); private functions of the assembly layer are found by role (sa/roles.py), decorators of inlined functions are classified (sa/decorators.py), and whichever summary of CircularRecord.__getitem__ / << / + the evaluator applied is proved in the same run as a lemma.'
    )
    r.not_decided = [
        "that CPython's re finds the match the pattern denotes (T2)",
        "that Biopython slices and concatenates sequences correctly (T3)",
        "uniqueness of the match on records with more than two sites",
    ]
    names = enzymes_for_tier(ctx)
    for kc in generic_classes(ctx, names):
        if geometry(ctx, kc, "C01.generic-geometry"):
            ctx.guard(generic_shape, ctx, kc, "C01.generic-shape")
    r.floor("C01.generic-geometry.groups", 8)
    r.floor("C01.generic-shape", 8)
    # the same cut geometry for every concrete class of the bundled kits (the fragments the closed form is built from)
    for kc in ctx.inventory:
        if kc.concrete:
            ctx.guard(geometry, ctx, kc, "C01.kit-geometry")
    r.floor("C01.kit-geometry.groups", 80)
    run_kernels(ctx, ["K7", "K8", "K10", "K14", "K15", "K0"], "C01")
    # what the product also rests on: the search window, group extraction, rotation, the topology handed to the search
    run_kernels(ctx, ["K2", "K1", "K3"], "C01")
    from ..rules_misc import k19_match
    ctx.guard(k19_match, ctx, "C01")
    from ..rules_flow import k17_entry
    ctx.guard(k17_entry, ctx, "C01")
    from ..rules_misc import k21_match_overrides
    ctx.guard(k21_match_overrides, ctx, "C01")
    # every class must compile the pattern of its own structure(): what the accepted language rests on
    from ..rules_ast import persistent_state_rule
    ctx.guard(persistent_state_rule, ctx, "C01.own-pattern")
    from ..rules_misc import text_consumers_rule
    ctx.guard(text_consumers_rule, ctx, "C01.text-consumers")
    from ..rules_misc import assembly_layering_rule
    ctx.guard(assembly_layering_rule, ctx, "C01.assembly-layering")
