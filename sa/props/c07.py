# coding: utf-8
"""C07 -- assembly is pure."""
from ..kernels import run_kernels
from ..rules_ast import assembly_write_set
from ..rules_flow import ctor_rule, getitem_rule


def run(ctx):
    r = ctx.report
    r.skip.add("K16.references-kept")  # the product's reference list is C10/C11 business
    r.explanation = (
        "(1) Write-set with provenance from AbstractVector.assemble / AssemblyManager: every attribute or subscript "
        "store, del, augmented assignment and mutating method call reachable through the resolved call graph is listed "
        "with the provenance of the mutated object (fresh in the function, parameter-derived mapped to the caller's "
        "actuals, self-derived); a mutation whose target derives from the vector, the modules or the elements must be one "
        "of the four citation idioms A1-A4. (2) K16: the citation rewrite is an acquire/release pair; every exit after "
        "the first dereference -- return, or an exception escaping any phase -- passes through the re-referencing of all "
        "elements. (3) Freshness barrier: the slice branch of CircularRecord.__getitem__ deep-copies features, dbxrefs and "
        "letter annotations and the CircularRecord copy constructor deep-copies all four containers, so writes to "
        "fragments and to the product cannot reach an input."
        ' Lambdas are closures read at call time, contextlib.ExitStack callbacks run at block exit, and after a loop over the inputs the loop variable is the last element: a clean-up registered per element must bind the element it is for.'
    )
    r.not_decided = ["equality of the restored index when an input's own reference list holds duplicates (data-dependent)"]
    ctx.guard(assembly_write_set, ctx, "C07")
    run_kernels(ctx, ["K16", "K13"], "C07")
    ctx.guard(getitem_rule, ctx, "C07.freshness.getitem")
    ctx.guard(ctor_rule, ctx, "C07.freshness.ctor")
    from ..rules_misc import fragment_cache_rule
    ctx.guard(fragment_cache_rule, ctx, "C07.no-fragment-cache")
    from ..rules_flow import k17_entry
    ctx.guard(k17_entry, ctx, "C07")
