# coding: utf-8
"""C13 -- rotation is a lossless group action."""
from ..kernels import run_kernels


def run(ctx):
    r = ctx.report
    r.explanation = (
        "K3/K6 for an arbitrary integer k (the evaluator introduces the residue k mod n as a symbol in [0,n)): the "
        "code's >> k is rot_{k mod n} -- the last k mod n letters move to the front -- and << k is rot_{-k mod n}; the "
        "result is circular-typed in every region. Additivity, identity on multiples of n and inverse hold for the "
        "specification by arithmetic mod n. K4: per-letter annotation tracks follow the same interval list. K5: every "
        "feature part moves by k mod n with width, strand, refs, type and qualifiers intact. Carry-over: id, name and "
        "annotations reach the rebuilt record (description, dbxrefs and the feature id are reported as information only)."
        ' no-derived-state: no query method of CircularRecord (nor anything it reaches through self, nor a memoising decorator) stores on the receiver.'
    )
    r.not_decided = ["records of length 0", "Seq slicing (T3)"]
    run_kernels(ctx, ["K3", "K4", "K3carry", "K5"], "C13")
    from ..rules_ast import record_instance_state_rule
    ctx.guard(record_instance_state_rule, ctx, "C13.no-derived-state", ["__rshift__", "__lshift__"])
    # records the library itself hands out (assembly products) stay inside the domain on which the above is stated:
    # text id / name (SeqRecord refuses anything else when the record is rebuilt), a DNA molecule type, and no
    # feature location that refers to another entry (Biopython never moves those)
    from ..rules_flow import k17_entry, k18_annotate
    ctx.guard(k17_entry, ctx, "C13")
    ctx.guard(k18_annotate, ctx, "C13")
    from ..rules_ast import location_ref_rule
    ctx.guard(location_ref_rule, ctx, "C13.location-ref")
