# coding: utf-8
"""C17 -- validation is total and failures are MoClo errors."""
import re
from ..fold import Enzyme
from ..rules_ast import builtin_method_lint, raise_inventory
from ..rules_misc import accessor_totality, collect_walk_effects, kernel_raise_classes, k19_match


def run(ctx):
    r = ctx.report
    p = ctx.program
    r.explanation = (
        "Partial by nature: (a) every concrete class resolves cutter to a known, non-blunt enzyme (so __new__ cannot "
        "raise) and its folded pattern transcribes to a regular expression that compiles with three groups; (b) every "
        "explicit raise in the _match implementations on the MRO of the kit classes is an InvalidSequence and is_valid's "
        "handler catches that base and returns False; (c) each public accessor, evaluated abstractly on a record whose "
        "match raises, ends with that InvalidSequence; K19: no match raises InvalidSequence; (d) every exception the "
        "assembly kernels (K0, K15, K14) end with is a documented MoClo error; (e) builtin-method-existence lint over "
        "moclo.core, regex.py, record.py."
        " The constructors of the repo's exceptions are evaluated at every raise site with the abstract argument actually passed; attribute existence on Seq/SeqRecord values comes from the library classes."
    )
    r.not_decided = ["exceptions raised inside Biopython or re on exotic letters", "Bio.Restriction.catalyse on arbitrary letters"]
    lm = ctx.lettermap
    n = 0
    for kc in ctx.inventory:
        if not kc.concrete:
            continue
        n += 1
        e = kc.cutter.obj
        ok = not e.is_blunt() and not e.is_unknown()
        r.ob("C17.cutter", kc.name, ok, "cutter %s is blunt or unknown: the constructor raises ValueError" % kc.cutter.name, kc.ci.where())
        text = "(?i)" + "".join(lm.table and ("[" + "".join(sorted(lm.table[c])) + "]" if c in lm.table else c) for c in kc.pattern_text)
        try:
            rx = re.compile(text)
            ok = rx.groups == 3
            det = "the structure has %d groups; group(1..3) are read by the accessors" % rx.groups
        except re.error as ex:
            ok, det = False, "the transcribed structure does not compile: %s" % ex
        r.ob("C17.pattern-compiles", kc.name, ok, det, kc.structure_func.where() if kc.structure_func else kc.ci.where())
    r.floor("C17.cutter", 80)
    ctx.guard(raise_inventory, ctx, "C17")
    ctx.guard(accessor_totality, ctx, "C17.accessor-totality")
    # ... which only helps if the accessors work from the vetted match (structure found *and* screened): an accessor that
    # searches on its own answers for a record is_valid() rejects
    from ..kernels import run_kernels
    for kid in ("K7", "K8", "K9"):
        r.skip.update({kid + ".fragment", kid + ".slice-of-rotation", kid + ".fragment-plain-record", kid + ".fragment-annotations"})
    r.skip.update({"K12.source-feature", "K10.accessor"})
    run_kernels(ctx, ["K7", "K8", "K9", "K10"], "C17")
    ctx.guard(k19_match, ctx, "C17")
    ctx.guard(collect_walk_effects, ctx)
    ctx.guard(kernel_raise_classes, ctx, "C17.assembly-raises")
    ctx.guard(builtin_method_lint, ctx, "C17.builtin-method")
    from ..rules_misc import k21_match_overrides
    ctx.guard(k21_match_overrides, ctx, "C17")
    from ..rules_ast import match_slot_rule
    ctx.guard(match_slot_rule, ctx, "C17.match-slot")
    from ..rules_ast import call_arity_rule
    ctx.guard(call_arity_rule, ctx, "C17.call-arity")
    # every class must compile the pattern of its own structure(): what the accepted language rests on
    from ..rules_ast import persistent_state_rule
    ctx.guard(persistent_state_rule, ctx, "C17.own-pattern")
    from ..rules_misc import error_carriers_rule
    ctx.guard(error_carriers_rule, ctx, "C17.error-carriers")
    # the citation rewrite / restore pair of assemble() meets every qualifier list once only if fragments and copies own
    # their features (a list shared between an input and the product is rewritten twice and the restore pass then finds
    # text where it expects a reference: AttributeError)
    from ..rules_flow import ctor_rule, getitem_rule
    ctx.guard(getitem_rule, ctx, "C17.citation-pass.getitem")
    ctx.guard(ctor_rule, ctx, "C17.citation-pass.ctor")
    # ... and only if every way out of assemble() restores the citations of every input: a record left dereferenced makes
    # the next assembly it takes part in end with a TypeError (the pattern is matched against a Reference object)
    r.skip.update({"K16.product", "K16.references-kept"})
    run_kernels(ctx, ["K16"], "C17")
    # the regex syntax a structure() may use must survive the transcription (no re.error at validation time)
    from ..rules_flow import transcription_rule
    ctx.guard(transcription_rule, ctx, "C17.transcription", True)
    from ..rules_misc import helper_rules
    ctx.guard(helper_rules, ctx, "C17.helpers")
