# coding: utf-8
"""C06 -- typing verdicts do not depend on what was typed before."""
import ast
from ..loader import FuncInfo
from ..rules_ast import persistent_state_rule
from ..rules_misc import k19_match


def run(ctx):
    r = ctx.report
    p = ctx.program
    r.explanation = (
        "Write-set scan over everything reachable from is_valid, the accessors and characterize (moclo.core, regex.py, "
        "record.py): every store whose target outlives a call is enumerated. Per-instance slots are keyed by the "
        "instance (cached_property). A class-level slot written from a method whose value depends on overridable "
        "members must be read and written in the class's own namespace (cls.__dict__ / vars(cls), a container keyed by "
        "the class object, an __init_subclass__ reset, or no cache at all); a guard reading the slot through the MRO is "
        "the violation. Results computed from an instance must not be stored on the class. Module-level mutable state "
        "written at call time must be keyed by everything its value depends on. A built-in positive fixture keeps the "
        "rule alive. Modulo T1-T3 this settles the property: nothing else survives a call."
    )
    ctx.guard(persistent_state_rule, ctx, "C06.state")
    # per-instance match: cached_property on instance methods only
    n = 0
    for ci in p.all_classes():
        from ..roles import match_slot
        raw = ci.attrs.get(match_slot(p))
        if isinstance(raw, FuncInfo):
            n += 1
            ok = raw.kind == "property" and ("cached_property" in raw.decorators or "property" in raw.decorators or bool(getattr(raw, "descriptor_kinds", None)))
            r.ob("C06.per-instance-match", raw.qualname, ok, "_match must be an instance-level (cached) property, decorators: %s" % raw.decorators, raw.where())
            stores = [x for x in ast.walk(raw.node) if isinstance(x, ast.Assign) and any(isinstance(t, ast.Attribute) for t in x.targets)]
            r.ob("C06.per-instance-match", raw.qualname + "#stores", not stores, "_match stores state besides its own cached value", raw.where())
    r.floor("C06.per-instance-match", 2)  # the base class's _match; overrides may legitimately come and go
    from ..rules_misc import identity_rule
    ctx.guard(identity_rule, ctx, "C06.identity-keyed")
    ctx.guard(k19_match, ctx, "C06")
    from ..rules_misc import k21_match_overrides
    ctx.guard(k21_match_overrides, ctx, "C06")
    from ..rules_ast import match_slot_rule
    ctx.guard(match_slot_rule, ctx, "C06.match-slot")
