# coding: utf-8
"""C12 -- strand symmetry."""
from ..rules_pattern import enzymes_for_tier, generic_classes, revcomp_symmetry


def run(ctx):
    r = ctx.report
    r.explanation = (
        "For every enzyme in the quantifier the generic module and vector patterns are folded from "
        "AbstractModule.structure / AbstractVector.structure and shown to be their own reverse complement with "
        "groups 1 and 3 exchanged (equality of canonical forms: per segment, runs of equal letter sets merged). "
        "Hence a record is accepted iff its reverse complement is, with overhangs exchanged and reverse-"
        "complemented. Together with the accessor mapping (kernel K10), the walk (K14) and the circular-typed "
        "reverse_complement (C14 rule) this gives: assembling reverse complements yields the reverse complement. "
        "Decides the pattern symmetry and the structural conditions; Seq.reverse_complement itself is library code."
        ' K2 and the text-consumers rule (acceptance is decided by the compiled pattern alone) and, for the pattern symmetry, also the enzymes that cut inside their site.'
    )
    r.not_decided = ["Bio.Seq.reverse_complement / SeqRecord.reverse_complement arithmetic (library, T3)"]
    names = enzymes_for_tier(ctx)
    for kc in generic_classes(ctx, names):
        ctx.guard(revcomp_symmetry, ctx, kc, "C12.revcomp-symmetry")
    r.floor("C12.revcomp-symmetry", 8)
    # beyond the ACGT-site quantifier: enzymes with ambiguity letters in their site, which the library also accepts
    from ..kits import ambiguous_site_enzymes
    amb = ambiguous_site_enzymes()
    r.analysed["ambiguous_site_enzymes"] = len(amb)
    for kc in generic_classes(ctx, amb):
        ctx.guard(revcomp_symmetry, ctx, kc, "C12.revcomp-symmetry.ambiguous-site")
    # and enzymes that cut inside their site (accepted by cutter_check too)
    from ..kits import inside_cut_enzymes
    ins = inside_cut_enzymes()
    r.analysed["inside_cut_enzymes"] = len(ins)
    for kc in generic_classes(ctx, ins):
        ctx.guard(revcomp_symmetry, ctx, kc, "C12.revcomp-symmetry.inside-cut")
    # every concrete generic (non-literal, non-part) class of the kits as well
    from ..rules_pattern import has_generic_structure, CONFIRMED_NEXT_LEVEL_VECTORS
    import ast as _ast
    from ..loader import ClassInfo as _ClassInfo

    # classes the bundled registries hand their plasmids to (referenced by name in a module of moclo.registry)
    registry_typed = set()
    for mn, m in ctx.program.modules.items():
        if mn.startswith("moclo.registry."):
            for n in _ast.walk(m.tree):
                if isinstance(n, (_ast.Attribute, _ast.Name)) and isinstance(getattr(n, "ctx", None), _ast.Load):
                    try:
                        v = ctx.program.resolve_expr(m, n)
                    except Exception:
                        continue
                    if isinstance(v, _ClassInfo):
                        registry_typed.add(v)
    for kc in ctx.inventory:
        if kc.concrete and not kc.is_part:
            generic = has_generic_structure(ctx, kc)
            if generic is None:
                generic = kc.structure_owner is not kc.ci
            if generic:
                ctx.guard(revcomp_symmetry, ctx, kc, "C12.revcomp-symmetry.kit")
            elif kc.ci.name in CONFIRMED_NEXT_LEVEL_VECTORS and kc.ci in registry_typed:
                # the vectors that embed the next level's sites are strand-symmetric too (confirmed by hand on the pinned
                # tree); those that type plasmids of the bundled registries are in the quantifier ("the generic-typed
                # plasmids of the bundled registries"), the others are not generic classes and are left alone
                ctx.guard(revcomp_symmetry, ctx, kc, "C12.revcomp-symmetry.kit-nested")
    from ..kernels import run_kernels
    run_kernels(ctx, ["K10", "K7", "K8", "K14", "K15", "K1"], "C12")
    from ..rules_flow import revcomp_wrapper_rule
    ctx.guard(revcomp_wrapper_rule, ctx, "C12.circular-revcomp")
    # every class must compile the pattern of its own structure(): what the accepted language rests on
    from ..rules_ast import persistent_state_rule
    ctx.guard(persistent_state_rule, ctx, "C12.own-pattern")
    # pattern symmetry says which records are accepted only if the search decides acceptance by the compiled pattern alone
    run_kernels(ctx, ["K2"], "C12")
    # ... and only if a circular record is searched as a circle whatever the spelling / absence of its topology annotation
    from ..rules_misc import k19_match
    ctx.guard(k19_match, ctx, "C12")
    from ..rules_misc import text_consumers_rule
    ctx.guard(text_consumers_rule, ctx, "C12.text-consumers")
