# coding: utf-8
"""C20 -- registries."""
from ..kernels3 import k22_combined, k22_embedded, k22_filesystem
from ..rules_registry import known_resistance_rule, registry_data_lint


def run(ctx):
    r = ctx.report
    r.explanation = (
        "The three registry classes are evaluated on a symbolic world (an archive with arbitrary members, a directory with an "
        "arbitrary listing, a member registry with arbitrary items; library calls replaced by stand-ins, T6) and what their "
        "methods do there is compared with the property: __iter__, __len__ and __getitem__ derive their key set from "
        "the same source. Embedded: iteration = archive member names, lookup key = record.id, Item.id = the same "
        "expression as the key, all three read the same archive, no subclass overrides them; the data lint closes the gap "
        "between member name and record id on all tracked GenBank files (stem == the token Biopython turns into "
        "record.id; built archives, when present, contain exactly the stems as regular members). Filesystem: iteration "
        "and length enumerate with the identical filter derived from self._extensions, lookup tries the same extensions, "
        "the id is the stem of the opened file, the fall-through raises KeyError. Combined: the only writer is "
        "insert-if-absent keyed by item.id over every value of the member (first wins). Records are wrapped in "
        "CircularRecord before the entity is built; find_resistance returns only values of the antibiotics table or raises."
        ' Lookup succeeds only if characterisation works: the characterize/isabstract lemmas (C05) run here too. known-resistance is a key-provenance analysis (the key under which the table is read comes from the labels that were matched against the table). filesystem-keyerror#open: a path is opened only behind isfile() or a handler covering both fs.errors.ResourceNotFound and FileExpected.'
    )
    r.not_decided = ["fs.filterdir glob semantics", "GenBank parsing"]
    # the three registry classes, run on a symbolic archive / directory / member registry (kernels3.py)
    ctx.guard(k22_embedded, ctx, "C20")
    ctx.guard(k22_filesystem, ctx, "C20")
    ctx.guard(k22_combined, ctx, "C20")
    ctx.guard(known_resistance_rule, ctx, "C20")
    ctx.guard(registry_data_lint, ctx, "C20.data")
    # every bundled registry builds its entities with <kit part base>.characterize(record): a lookup succeeds only if
    # characterisation tries the concrete part classes (isabstract on the class table) and returns an accepting one
    from ..rules_misc import characterize_rule, helper_rules
    ctx.guard(characterize_rule, ctx, "C20.characterize")
    ctx.guard(helper_rules, ctx, "C20.helpers")
    # ... and each candidate class answers with the pattern of its own structure(), matched whatever the letter case
    from ..rules_ast import persistent_state_rule
    ctx.guard(persistent_state_rule, ctx, "C20.own-pattern")
    from ..rules_flow import transcription_rule
    ctx.guard(transcription_rule, ctx, "C20.case-flag")
