# coding: utf-8
"""C15 -- a circular record behaves as a circle."""
from ..kernels import run_kernels
from ..rules_flow import add_guard_rule, ctor_rule, getitem_rule


def run(ctx):
    r = ctx.report
    r.explanation = (
        "K11: membership is decided in the regions |q| > n (False) and |q| <= n (occurrence in w.w[:m] with m >= |q|-1); "
        "occurrence in the doubled word is equivalent to occurrence in some rotation (a factor of length <= n of w.w "
        "starting at i < n is a prefix of rot_i(w), and conversely), so the answer is rotation-invariant. + : __add__ and "
        "__radd__ resolve, through the _ambiguous decorator, to a function all of whose paths raise TypeError. "
        "Constructor, evaluated on direct and wrapping paths with topology linear/Linear/circular/absent/no annotations: "
        "a linear declaration raises ValueError before the base constructor runs; wrapping deep-copies the four "
        "containers. __getitem__: the slice branch builds a plain SeqRecord carrying the library's sub-sequence, never "
        "claims circular topology, and owns deep copies."
        " The slice rule is also evaluated on a receiver whose topology is 'circular' in any letter case; copy.deepcopy may fail (then the record is refused, never shallow-copied); K11.total: membership is decided on text, not with Bio.Seq's ASCII-only `in`; no-derived-state as for C13."
    )
    run_kernels(ctx, ["K11"], "C15")
    ctx.guard(add_guard_rule, ctx, "C15.add-guard")
    ctx.guard(ctor_rule, ctx, "C15.ctor")
    ctx.guard(getitem_rule, ctx, "C15.getitem")
    from ..rules_ast import topology_gate_rule
    ctx.guard(topology_gate_rule, ctx, "C15.topology-gate")
    # the slices the library itself hands out (target / placeholder fragments) stay linear-declared
    for kid in ("K7", "K8", "K9"):
        r.skip.update({kid + ".fragment", kid + ".slice-of-rotation", kid + ".fragment-plain-record"})
    r.skip.add("K12.source-feature")
    run_kernels(ctx, ["K7", "K8", "K9"], "C15")
    from ..rules_ast import record_instance_state_rule
    ctx.guard(record_instance_state_rule, ctx, "C15.no-derived-state", ["__contains__", "__getitem__", "__add__", "__radd__", "__len__"])
