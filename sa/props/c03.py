# coding: utf-8
"""C03 -- ambiguous or incomplete module sets never produce a plasmid."""
from ..kernels import run_kernels
from ..rules_flow import k17_entry
from ..rules_misc import order_independence_rule


def run(ctx):
    r = ctx.report
    r.explanation = (
        "K0/K17: on every path from AbstractVector.assemble to the product the vector's two overhangs are compared "
        "first and equality raises InvalidSequence. K15, per key scenario (absent / present-same-object / present-other / "
        "reverse complement present): insertion, no error, DuplicateModules naming both, DuplicateModules; no store into "
        "the map bypasses the check. K14: the lookup is consuming (each module at most once), a miss raises MissingModule "
        "naming the key that missed, a non-empty map at exit gives one UnusedModules warning naming exactly the remaining "
        "values, and nothing swallows an exception. Order independence: self.modules is only iterated, concatenated or "
        "joined as a whole. Overhangs and modules are uninterpreted terms, so the verdict depends on the overhang graph only."
        ' A groupby in the assembly layer must run over an iterable sorted by the very key it groups by (rule groupby); K0 also requires that what __init__ stores for the second walk of assemble() is re-iterable.'
    )
    r.not_decided = ["a single module whose start overhang is its own reverse complement (the property text does not settle the expected outcome)",
                     "equality of overhangs differing in case (C18)"]
    run_kernels(ctx, ["K0", "K15", "K14", "K10", "K1"], "C03")
    # the overhang graph is made of what the classes report: for every concrete class of the kits groups 1 and 3 of the
    # structure must be the sticky ends its own cutter leaves (a vector that reports another four letters never closes a
    # chain that is complete, and closes chains that are not)
    from ..rules_pattern import geometry
    for kc in ctx.inventory:
        if kc.concrete:
            ctx.guard(geometry, ctx, kc, "C03.kit-geometry")
    r.floor("C03.kit-geometry.groups", 80)
    ctx.guard(k17_entry, ctx, "C03")
    ctx.guard(order_independence_rule, ctx, "C03.order-independence")
    from ..rules_misc import collect_walk_effects, consistent_equality_rule
    records = ctx.guard(collect_walk_effects, ctx)
    if records is not None:
        ctx.guard(consistent_equality_rule, ctx, "C03.one-equality", records)
    from ..rules_misc import warning_filter_rule, error_carriers_rule
    ctx.guard(warning_filter_rule, ctx, "C03.warning-reaches-caller")
    ctx.guard(error_carriers_rule, ctx, "C03.error-carriers")
    from ..rules_misc import assembly_layering_rule
    ctx.guard(assembly_layering_rule, ctx, "C03.assembly-layering")
    from ..rules_misc import identity_rule
    ctx.guard(identity_rule, ctx, "C03.identity")
    from ..rules_ast import groupby_rule
    ctx.guard(groupby_rule, ctx, "C03.groupby")
