# coding: utf-8
"""E4 (part 4) -- kernels K2 (search), K5 (feature relocation), K11
(membership), K13 (citation index maps), K14/K15/K16 (assembly walk)."""
from __future__ import annotations

import ast
import re
from typing import Dict, List, Optional

from .absdom import Aff, Constraints, Piece, show_pieces
from .absint import (ABoolTerm, ACollection, AEnzymeV, AExc, AFormat, AList, AMap, AMapGen, AObj, AReMatch, ARec, ASeq, AStruct,
                     BoundMethod, Frame, Interp, LibRef, Outcome, RaiseSig, Term, AFeatList)
from .kernels import N, ZERO, circ_record, emit, pieces_of, region_name, run_paths
from .loader import AnalysisError, ClassInfo, FuncInfo, Program

NORMALISERS = ("upper", "lower", "casefold")


def strip_norm(t):
    while isinstance(t, Term) and t.op in NORMALISERS and len(t.args) == 1:
        t = t.args[0]
    return t


def run_kernel(ctx, k: str, pid: str):
    fn = {
        "K2": k2_search, "K5": k5_features, "K11": k11_contains, "K13": k13_citations, "K14": k14_walk,
        "K15": k15_map, "K16": k16_assemble, "K0": k0_vector_check,
    }.get(k)
    if fn is None:
        raise AnalysisError("unknown kernel %s" % k)
    fn(ctx, pid)


# ---------------------------------------------------------------------------
# K2  DNARegex.search


def _search_setup(ctx):
    p = ctx.program
    cls = p.get_class("moclo.regex.DNARegex")
    POS, END = Aff.sym("pos"), Aff.sym("endpos")

    def regex_match(fr, args, kwargs, node):
        if kwargs or len(args) != 3:
            fr.unsupported(node, "regex.match arguments")
        text, pos, endpos = args
        fr.I.path.effects.append(("regex.match", text, pos, endpos))
        if fr.I.path.choose("regex.match", ["found", "none"]) == "none":
            return None
        return AReMatch(text, {}, pos=pos, endpos=endpos)

    def getattr_hook(fr, base, a, node):
        if isinstance(base, Term) and base.op == "compiled-regex" and a == "match":
            return BoundMethod("py", regex_match, a)
        return NotImplemented

    def make_args_for(kind, linear, explicit):
        def make_args(I):
            if kind == "CircularRecord":
                s = circ_record()
            elif kind == "SeqRecord":
                s = ARec(False, [Piece("W", ZERO, N)], Term("rec"))
            elif kind == "Seq":
                s = ASeq("Seq", [Piece("W", ZERO, N)])
            else:
                s = "ACGT"
            obj = AObj(cls, {"regex": Term("compiled-regex"), "pattern": Term("pattern"), "__open__": True})
            kw = {}
            if linear is not None:
                kw["linear"] = linear
            if explicit:
                kw["pos"], kw["endpos"] = POS, END
            I.the_string = s
            return (obj, s), kw

        return make_args

    return POS, END, getattr_hook, make_args_for


def seqmatch_templates(ctx):
    """The match objects the search hands out, per (target kind, linear flag):
    the attributes its constructor call leaves on them besides the library
    match and the target.  K1 evaluates group() on objects built this way."""
    p = ctx if isinstance(ctx, Program) else ctx.program
    cached = getattr(p, "_seqmatch_templates", None)
    if cached is not None:
        return cached

    class _Shim(object):
        program = p

    ctx = _Shim()
    fi = p.get_func("moclo.regex.DNARegex.search")
    sm_cls = p.get_class("moclo.regex.SeqMatch")
    POS, END, getattr_hook, make_args_for = _search_setup(ctx)
    out = {}
    for kind in ("CircularRecord", "SeqRecord", "Seq"):
        for linear in (None, True, False):
            outs = run_paths(ctx, fi, make_args_for(kind, linear, False), [N - 1], hooks={"getattr": getattr_hook})
            found = [o for o in outs if o.kind == "return" and isinstance(o.value, AObj) and o.value.cls is sm_cls]
            if not found:
                raise AnalysisError("DNARegex.search(%s, linear=%s) never returns a SeqMatch" % (kind, linear))
            tmpl = None
            for o in found:
                extra = {k: ("<match>" if isinstance(v, AReMatch) else "<target>" if isinstance(v, (ARec, ASeq)) else v)
                         for k, v in o.value.attrs.items()}
                if tmpl is not None and repr(sorted(tmpl.items())) != repr(sorted(extra.items())):
                    raise AnalysisError("DNARegex.search builds differently shaped matches on different paths: %r / %r" % (tmpl, extra))
                tmpl = extra
            out[(kind, linear)] = tmpl
    p._seqmatch_templates = out
    return out


def search_text_effects(ctx) -> List[str]:
    """DNARegex.search evaluated on every kind of target: the inspections of the searched text made outside the compiled
    pattern (`in`, str.find / count / startswith ..., another regular expression applied to it), wherever in the code
    base the text travels (helpers, small objects that keep it).  Operations of the text the evaluation has no model for
    end as an analysis error, so an empty answer means: the compiled pattern, len(), doubling and slicing only."""
    p = ctx.program
    fi = p.get_func("moclo.regex.DNARegex.search")
    POS, END, getattr_hook, make_args_for = _search_setup(ctx)
    found = []
    for kind in ("CircularRecord", "SeqRecord", "Seq"):
        for linear in (None, True, False):
            for explicit in (False, True):
                outs = run_paths(ctx, fi, make_args_for(kind, linear, explicit), [N - 1], hooks={"getattr": getattr_hook})
                for o in outs:
                    for e in o.path.effects:
                        if e[0] in ("text-test", "text-search"):
                            found.append("%s %s" % (e[0], e[1]))
    return sorted(set(found))


def new_seqmatch(p, rm, rec, key=("CircularRecord", None), name=None):
    """A SeqMatch shaped as DNARegex.search builds it for that kind of target."""
    tmpl = seqmatch_templates(p)[key]
    attrs = {k: (rm if v == "<match>" else rec if v == "<target>" else v) for k, v in tmpl.items()}
    return AObj(p.get_class("moclo.regex.SeqMatch"), attrs, name=name)


def k2_search(ctx, pid: str):
    r = ctx.report
    p = ctx.program
    fi = p.get_func("moclo.regex.DNARegex.search")
    cls = p.get_class("moclo.regex.DNARegex")
    sm_cls = p.get_class("moclo.regex.SeqMatch")
    POS, END, getattr_hook, make_args_for = _search_setup(ctx)
    rule = "K2.search"

    scenarios = []
    for kind in ("CircularRecord", "SeqRecord", "Seq", "str"):
        for linear in (None, True, False):
            for explicit in (False, True):
                scenarios.append((kind, linear, explicit))

    for kind, linear, explicit in scenarios:
        circular = kind == "CircularRecord" or (linear is False)
        facts = [N - 1]
        if explicit:
            facts += [POS, END]

        make_args = make_args_for(kind, linear, explicit)

        def post(I, o, kind=kind, circular=circular, explicit=explicit):
            name = fi.qualname
            if kind == "str":
                ok = o.kind == "raise" and o.value.name == "TypeError"
                return [("K2.type-guard", name, ok, "a target that is neither Seq nor SeqRecord must be refused with TypeError, got %r" % (o,))]
            out = []
            gated = [t for t, v in o.path.choices if t.startswith("bool ") and " upper" in t and ("in(" in t or "find(" in t or "startswith(" in t)]
            if gated:
                # a literal test on the case-normalised text decides whether / where the pattern is tried: whether that
                # agrees with the pattern is a question about the pattern's language (not decided; on raw text the test
                # is case-sensitive and the obligations below apply)
                raise AnalysisError("%s: the scan is gated by a literal test on the case-normalised text (%s); whether skipping on its "
                                    "answer agrees with the compiled pattern is not decided" % (fi.where(), gated[0][:100]))
            calls = [e for e in o.path.effects if e[0] == "regex.match"]
            loops = [e for e in o.path.effects if e[0] == "loop" and e[1] == "range"]
            lo_spec = POS if explicit else ZERO
            if len(loops) != 1:
                desc = [e for e in o.path.effects if e[0] == "loop" and e[1] == "range-desc"]
                return [(rule + ".scan", name, False, "expected one ascending scan over start positions, found %d%s" % (len(loops), " (and a descending one: the leftmost match would not be returned)" if desc else ""))]
            _, _, lo, hi = loops[0]
            hi_spec = I.amin(N, END) if explicit else N
            out.append((rule + ".scan", name, I.aff_eq(Aff.of(lo), lo_spec) and I.aff_eq(Aff.of(hi), hi_spec),
                        "start positions must be range(pos, min(len, endpos)) ascending: got [%r, %r), spec [%r, %r)" % (lo, hi, lo_spec, hi_spec)))
            found = ("regex.match", "found") in o.path.choices
            if not calls:
                if I.path.cons.decide_ge0(Aff.of(hi) - Aff.of(lo) - 1) is True:
                    # the range is not empty, yet this path leaves the iteration without trying the pattern there
                    skips = [t for t, v in o.path.choices if t.startswith("bool ")]
                    out.append((rule + ".every-start", name, False,
                                "a start position of the range is passed over without an anchored match attempt (decided by %s): the "
                                "leftmost match may start exactly there" % (skips or "the loop body",)))
                    return out
                # empty range
                out.append((rule + ".result", name, o.kind == "return" and o.value is None, "an empty scan must return None, got %r" % (o,)))
                return out
            if len(calls) != 1:
                return out + [(rule + ".window", name, False, "expected one anchored match attempt per start position, found %d" % len(calls))]
            _, text, mpos, mend = calls[0]
            i = Aff.sym("i")
            okw = isinstance(mpos, Aff) and I.aff_eq(mpos, i) and isinstance(mend, Aff) and I.aff_eq(mend, i + N)
            out.append((rule + ".window", name, okw,
                        "each attempt must be anchored at i with a window of exactly one turn [i, i+len): got (%r, %r)" % (mpos, mend)))
            if not isinstance(text, ASeq) or text.kind != "str":
                out.append((rule + ".text", name, False, "searched text is %r" % (text,)))
            else:
                ps = I.canon(text.pieces)
                if circular:
                    okt = (len(ps) == 2 and ps[0].base == "W" and I.aff_eq(ps[0].lo, ZERO) and I.aff_eq(ps[0].hi, N)
                           and ps[1].base == "W" and I.aff_eq(ps[1].lo, ZERO)
                           and I.path.cons.decide_ge0(ps[1].hi - (N - 1)) is True)
                    if not okt and I.aff_eq(N, Aff.const(1)) and len(ps) == 1:
                        okt = True
                    det = "a circular target must be searched as w.w[:m] with m >= n-1 (the doubled word): got %s" % show_pieces(ps)
                else:
                    okt = len(ps) == 1 and ps[0].base == "W" and I.aff_eq(ps[0].lo, ZERO) and I.aff_eq(ps[0].hi, N)
                    det = "a linear target must be searched as w itself (a match never continues at the beginning): got %s" % show_pieces(ps)
                out.append((rule + ".text", name, okt, det))
            if found:
                v = o.value
                # (under whatever names the constructor keeps them: K1 evaluates group() on objects shaped as built here)
                okr = (o.kind == "return" and isinstance(v, AObj) and v.cls is sm_cls
                       and any(isinstance(x, AReMatch) for x in v.attrs.values()) and any(x is I.the_string for x in v.attrs.values()))
                out.append((rule + ".result", name, okr,
                            "the first position that matches must be returned at once as SeqMatch(match, target): got %r" % (o,)))
            else:
                out.append((rule + ".result", name, o.kind == "return" and o.value is None,
                            "when no position matches the search must return None, got %r" % (o,)))
            return out

        tag = "%s,linear=%s,%s:" % (kind, {None: "default", True: "True", False: "False"}[linear], "explicit" if explicit else "default")
        outs = run_paths(ctx, fi, make_args, facts, hooks={"getattr": getattr_hook}, post=post)
        emit(ctx, outs, fi.where(), tag)
    r.floor(rule + ".text", 12)
    r.floor(rule + ".window", 12)


# ---------------------------------------------------------------------------
# K11  CircularRecord.__contains__


def k11_contains(ctx, pid: str):
    p = ctx.program
    fi = p.get_func("moclo.record.CircularRecord.__contains__")
    Q = Aff.sym("q")

    def make_args(I):
        return (circ_record(), ASeq("str", [Piece("Q", ZERO, Q)])), {}

    def post(I, o):
        name = fi.qualname
        if o.kind != "return":
            return [("K11.membership", name, False, "membership ends with %r" % (o,))]
        v = o.value
        long_query = I.path.cons.decide_ge0(Q - N - 1)
        if long_query is None:
            long_query = I.ge0(Q - N - 1)
        if long_query:
            return [("K11.membership", name, v is False, "a query longer than the record is never contained: got %r" % (v,))]
        # |q| <= n : the answer must be "q is one of the n windows of length |q| of the circle".  The code may ask several
        # texts T1, T2, ... (`q in T1 or q in T2`, or one after the other): every text must be a stretch of the circle
        # (each of its windows is a window of the circle), and the windows of the texts together must be all n of them.
        if I.path.cons.decide_ge0(-Q) is True:
            ok = v is True or isinstance(v, ABoolTerm)
            return [("K11.membership", name, ok, "the empty query is contained: got %r" % (v,))]

        def in_terms(t):
            if isinstance(t, ABoolTerm) and t.op == "in" and isinstance(t.args[1], ASeq):
                return [t]
            if isinstance(t, ABoolTerm) and t.op == "or":
                out_ = []
                for a in t.args:
                    got = in_terms(a)
                    if got is None:
                        return None
                    out_ += got
                return out_
            return None

        symbolic = in_terms(v) if isinstance(v, ABoolTerm) else []
        det = "for |q| <= n membership must be occurrence in the doubled word (w.w[:m], m >= |q|-1), i.e. in one of the n windows of the circle: got %r" % (v,)
        if symbolic is None or not (isinstance(v, ABoolTerm) or v is True or v is False):
            return [("K11.membership", name, False, det)]
        decided = [(e[1], e[2]) for e in o.path.effects if e[0] == "bool" and in_terms(e[1])]
        if any(isinstance(e[1], ABoolTerm) and e[1].op == "not" and in_terms(e[1].args[0]) for e in o.path.effects if e[0] == "bool"):
            decided += [(e[1].args[0], not e[2]) for e in o.path.effects if e[0] == "bool" and isinstance(e[1], ABoolTerm) and e[1].op == "not" and in_terms(e[1].args[0])]
        out = []

        def stretch(t):
            """(start, length) when the text is a stretch of the circle read clockwise from `start`, else None"""
            item, text = t.args
            if not (isinstance(item, ASeq) and I.same_pieces(item.pieces, [Piece("Q", ZERO, Q)])):
                return None
            if bool(getattr(text, "upper", False)) != bool(getattr(item, "upper", False)):
                return None  # the letters of the circle as they are spelt, not a case-folded copy of them (or of the query)
            ps = I.canon(text.pieces)
            if not ps or any(p_.base != "W" for p_ in ps):
                return None
            for a, b in zip(ps, ps[1:]):
                wraps = I.aff_eq(a.hi, N) and I.aff_eq(b.lo, ZERO)
                if not (wraps or I.aff_eq(a.hi, b.lo)):
                    return None
            length = ZERO
            for p_ in ps:
                length = length + (p_.hi - p_.lo)
            return ps[0].lo, length

        texts = [t for t, _res in decided] + list(symbolic)
        kinds = {t.args[1].kind for t in texts}
        spans = []
        for t in texts:
            st = stretch(t)
            if st is None:
                return [("K11.membership", name, False, det + " (the text %r is not a stretch of the circle)" % (t.args[1],))]
            spans.append(st)
        if v is True:
            # answered by a text that is a stretch of the circle: sound
            return [("K11.membership", name, any(res for _t, res in decided), det)]
        # no (decided) text contains q on this path, or the answer is left to the symbolic ones: all windows must have been asked
        ivs = []
        for a, length in spans:
            # window starts a .. a + length - q ; empty when the text is shorter than the query
            if I.path.cons.decide_ge0(length - Q) is True:
                ivs.append((a, a + length - Q))
        covered = False
        import itertools
        for order in itertools.permutations(ivs):
            if not order:
                continue
            ok_ = I.aff_eq(order[0][0], ZERO) or I.aff_eq(order[0][0], N)
            reach = order[0][1] if I.aff_eq(order[0][0], ZERO) else order[0][1] - N
            for a, b in order[1:]:
                for shift in (ZERO, N):
                    if I.path.cons.decide_ge0(reach + 1 - (a - shift)) is True and I.path.cons.decide_ge0((a - shift)) is True:
                        if I.path.cons.decide_ge0((b - shift) - reach) is True:
                            reach = b - shift
                        break
                else:
                    ok_ = False
            if ok_ and I.path.cons.decide_ge0(reach - (N - 1)) is True:
                covered = True
                break
        out.append(("K11.membership", name, covered,
                    det + " (window starts asked: %s of the n)" % ", ".join("[%r, %r]" % iv for iv in ivs)))
        if covered and kinds - {"str"}:
            out.append(("K11.total", name, False,
                        "the query is looked up with the `in` of a Bio.Seq (%s), not of the text: that operator encodes a str query as ASCII "
                        "and raises UnicodeEncodeError for any other string instead of answering False (T3)" % ", ".join(sorted(kinds - {"str"}))))
        return out

    emit(ctx, run_paths(ctx, fi, make_args, [N - 1, Q], post=post), fi.where())
    ctx.report.floor("K11.membership", 2)


# ---------------------------------------------------------------------------
# K5  feature relocation in __rshift__


def k5_features(ctx, pid: str):
    """where the features go under a rotation: evaluated on `>>` and on `<<` (which need not delegate to one another)"""
    for meth, sign in (("__rshift__", 1), ("__lshift__", -1)):
        _k5_features(ctx, pid, meth, sign)
    ctx.report.floor("K5.relocation", 4)


def _k5_features(ctx, pid: str, meth: str, sign: int):
    r = ctx.report
    p = ctx.program
    fi = p.get_func("moclo.record.CircularRecord.%s" % meth)
    k = Aff.sym("any:k")
    S, E, s, e = Aff.sym("S"), Aff.sym("E"), Aff.sym("s"), Aff.sym("e")
    FT, FID, FQ = Term("ftype"), Term("fid"), Term("fquals")
    STRAND, REF, REFDB = Term("strand"), Term("ref"), Term("ref_db")

    def binop_hook(fr, op, l, rr, node):
        if isinstance(op, ast.Add) and isinstance(l, AStruct) and l.kind == "Location" and isinstance(rr, (Aff, int)):
            off = Aff.of(rr)
            src = l.fields["parts_value"]
            parts = AList([_shift_part(x, off) for x in src.items], origin=src.uid)
            parts.generic, parts.min_len = src.generic, src.min_len
            return AStruct("Location", start=Aff.of(l.fields["start"]) + off, end=Aff.of(l.fields["end"]) + off,
                           parts_value=parts, shifted_by=off)
        if isinstance(op, ast.Add) and isinstance(l, AStruct) and l.kind == "FeatureLocation" and isinstance(rr, (Aff, int)):
            # Bio.SeqFeature (T3): a part plus an integer is the part moved by it, everything else kept
            return _shift_part(l, Aff.of(rr))
        return NotImplemented

    def _shift_part(part, off):
        f = dict(part.fields)
        f["start"] = Aff.of(f["start"]) + off
        f["end"] = Aff.of(f["end"]) + off
        return AStruct("FeatureLocation", **f)

    for scen in ("none", "simple", "compound"):
        facts = [N - 1]
        if scen == "compound":
            # a part [s, e) of a join of >= 2 parts with bounds [S, E): 0 <= S <= s <= e <= E, s < n, e - s <= n
            facts += [S, s - S, e - s, E - e, N - 1 - s, N - (e - s), N - 1 - S]
        elif scen == "simple":
            # one part [s, e) = [S, E), possibly extending past the end after an earlier rotation
            facts += [s, e - s, N - 1 - s, N - (e - s), S - s, s - S, E - e, e - E]

        def make_args(I, scen=scen):
            rec = circ_record()
            rec.attrs["letter_annotations"] = AMapGen("track", ASeq("list", [Piece("V", ZERO, N)]))
            for a in ("id", "name", "description", "dbxrefs", "annotations"):
                rec.attrs[a] = Term(a, Term("rec"))

            def make_feature():
                if scen == "none":
                    loc = None
                else:
                    part = AStruct("FeatureLocation", start=s, end=e, strand=STRAND, ref=REF, ref_db=REFDB)
                    parts = AList([part], origin="parts")
                    if scen == "compound":
                        parts.generic, parts.min_len = True, 2
                    loc = AStruct("Location", start=S, end=E, parts_value=parts)
                return AStruct("SeqFeature", location=loc, type=FT, id=FID, qualifiers=FQ)

            rec.attrs["feature_coll"] = ACollection("features", make_feature)
            return (rec, k), {}

        def post(I, o, scen=scen):
            name = fi.qualname
            if o.kind != "return" or not isinstance(o.value, ARec):
                return [("K5.relocation", name, False, "rotation ends with %r" % (o,))]
            res: ARec = o.value
            if res is I.kernel_args[0]:
                return []  # rotation by a multiple of n returns the record itself
            out = []
            early = [e for e in o.path.effects if e[0] in ("return-in-loop", "break") and e[1] == "features"]
            if early:
                return [("K5.feature-list", name, False,
                         "the walk over the features is left before the last one (%s inside the loop): the features listed after that "
                         "one are missing from the rotated record" % ("a return" if early[0][0] == "return-in-loop" else "a break"))]
            feats = res.attrs.get("features")
            if not (isinstance(feats, AList) and feats.generic and len(feats.items) == 1):
                return [("K5.feature-list", name, False,
                         "the rotated record must carry exactly one image per feature of the source, got %r" % (feats,))]
            f = feats.items[0]
            if not (isinstance(f, AStruct) and f.kind == "SeqFeature"):
                return [("K5.feature-list", name, False, "feature image is %r" % (f,))]
            out.append(("K5.carry-over", name + "#type", f.fields.get("type") == FT, "feature type must be forwarded, got %r" % (f.fields.get("type"),)))
            out.append(("K5.carry-over", name + "#qualifiers", f.fields.get("qualifiers") == FQ, "feature qualifiers must be forwarded, got %r" % (f.fields.get("qualifiers"),)))
            if f.fields.get("id") != FID:
                r.note("information only: feature id is not carried through a rotation (got %r)" % (f.fields.get("id"),))
            loc = f.fields.get("location")
            if scen == "none":
                out.append(("K5.relocation", name, loc is None, "a feature without location must stay without location, got %r" % (loc,)))
                return out
            rr = I.mod(k if sign == 1 else -k, N)
            if isinstance(loc, AStruct) and loc.kind == "Location" and "shifted_by" not in loc.fields:
                # the location was kept as it is: only right for a feature covering the whole circle
                whole = (scen == "simple" and I.aff_eq(S, ZERO) and I.aff_eq(E, N) and I.aff_eq(s, ZERO) and I.aff_eq(e, N))
                out.append(("K5.exemption", name, whole,
                            "a location may be exempted from relocation only when it is proved to be the single part [0, n); on this path bounds [%r, %r), part [%r, %r) are not" % (S, E, s, e)))
                return out
            parts = None
            if isinstance(loc, AStruct) and loc.kind == "Location" and "shifted_by" in loc.fields:
                # the library's `loc + k` handed on as it is (no part needed bringing back on this path)
                pv = loc.fields.get("parts_value")
                parts = list(pv.items) if isinstance(pv, AList) and pv.items else None
            elif isinstance(loc, AStruct) and loc.kind == "FeatureLocation":
                parts = [loc]
            elif isinstance(loc, AStruct) and loc.kind == "CompoundLocation":
                pv = loc.fields.get("parts_value")
                if isinstance(pv, AList) and pv.items:
                    parts = pv.items
            if not parts:
                return out + [("K5.relocation", name, False, "relocated location is %r" % (loc,))]
            for part in parts:
                if not (isinstance(part, AStruct) and part.kind == "FeatureLocation"):
                    out.append(("K5.relocation", name, False, "relocated part is %r" % (part,)))
                    continue
                ps, pe = part.fields.get("start"), part.fields.get("end")
                try:
                    ps, pe = Aff.of(ps), Aff.of(pe)
                except TypeError:
                    out.append(("K5.relocation", name, False, "relocated part has bounds %r, %r" % (ps, pe)))
                    continue
                want = I.mod(s + rr, N)
                ok = I.aff_eq(ps, want) and I.aff_eq(pe - ps, e - s)
                if not ok and I.aff_eq(e - s, N) and I.aff_eq(pe - ps, N) and I.path.cons.decide_ge0(ps) is True and I.path.cons.decide_ge0(N - 1 - ps) is True:
                    ok = True  # a part covering the whole turn denotes every nucleotide wherever it starts
                out.append(("K5.relocation", name, ok,
                            "a part [s, e) must move to [(s+k) mod n, +width): got [%r, %r), spec [%r, %r)" % (ps, pe, want, want + (e - s))))
                for fld, wantv in (("strand", STRAND), ("ref", REF), ("ref_db", REFDB)):
                    out.append(("K5.carry-over", name + "#" + fld, part.fields.get(fld) == wantv,
                                "part %s must be forwarded, got %r" % (fld, part.fields.get(fld))))
            return out

        from .kernels import _inline_shift

        hooks = {"inline_record_methods": True, "binop": binop_hook, "shift": _inline_shift}
        outs = run_paths(ctx, fi, make_args, facts, hooks=hooks, post=post)
        emit(ctx, outs, fi.where(), scen + ":")


# ---------------------------------------------------------------------------
# K13  citation index maps


def k13_citations(ctx, pid: str):
    r = ctx.report
    p = ctx.program
    mgr = p.get_class("moclo.core._assembly.AssemblyManager")
    from .roles import citation_functions, citation_regex

    deref, ref = citation_functions(p)
    rx_pat = citation_regex(p, deref)  # (by shape; when that fails, the pattern object the evaluation meets decides, below)
    used_patterns: List[object] = []

    CIT = Term("cit")

    def make_record(I):
        rec = ARec(True, [Piece("W", ZERO, N)], Term("rec"))
        quals = AStruct("qualifiers-of", owner=Term("feature"))

        def make_feature():
            return AStruct("SeqFeature", qualifiers=Term("quals"), type=Term("ftype"), location=Term("loc"))

        rec.attrs["feature_coll"] = ACollection("features", make_feature)
        return rec

    def citation_match(fr, args, kwargs, node):
        I = fr.I
        I.path.effects.append(("rx.match", args[0]))
        if I.path.choose("citation-rx", ["match", "none"]) == "none":
            return None
        return AStruct("cit-match", subject=args[0])

    def getattr_hook(fr, base, a, node):
        if isinstance(base, AStruct) and base.kind == "regex" and a == "match":
            used_patterns.append(base.fields.get("pattern"))
            return BoundMethod("py", citation_match, a)
        if isinstance(base, AStruct) and base.kind == "cit-match" and a == "group":
            def grp(fr2, args, kwargs, node2):
                g = args[0] if args else 0
                return Term("group%s" % g, base.fields["subject"])
            return BoundMethod("py", grp, a)
        return NotImplemented

    def lib_hook(fr, dotted, args, kwargs, node):
        if dotted == "builtins.enumerate":
            src = args[0]
            lazy = getattr(src, "_lazy", None)
            if lazy and "citation" in repr(lazy[0]):
                # the citation list walked in step with something mapped from it: zip(citations, map(rx.match, citations))
                from .absint import subst_value
                img = subst_value(lazy[2], lazy[1], CIT)
                return ACollection("citations", lambda: (Aff.sym("idx"), img))
            if "citation" not in repr(src):
                return NotImplemented
            return ACollection("citations", lambda: (Aff.sym("idx"), CIT))
        return NotImplemented

    hooks = {"getattr": getattr_hook, "lib_call": lib_hook}

    def self_obj():
        # containers the constructor hangs on the manager live as long as the manager: when a method runs, what an
        # earlier call (for another record) left in them is unknown
        attrs = {}
        owner, init = p.class_attr_def(mgr, "__init__")
        if isinstance(init, FuncInfo) and init.node.args.args:
            me = init.node.args.args[0].arg
            for n in ast.walk(init.node):
                if isinstance(n, ast.Assign) and len(n.targets) == 1 and isinstance(n.targets[0], ast.Attribute) \
                        and isinstance(n.targets[0].value, ast.Name) and n.targets[0].value.id == me:
                    v = n.value
                    fresh_map = (isinstance(v, ast.Dict) and not v.keys) or (
                        isinstance(v, ast.Call) and not v.args and not v.keywords and ast.unparse(v.func) in ("dict", "OrderedDict", "collections.OrderedDict"))
                    if fresh_map:
                        attrs[n.targets[0].attr] = AMap("carried-over:%s.%s" % (me, n.targets[0].attr))
        return AObj(mgr, attrs)

    # -- reader ---------------------------------------------------------
    def post_deref(I, o):
        out = []
        name = deref.qualname
        stores = [e for e in o.path.effects if e[0] == "setitem"]
        matched = ("citation-rx", "match") in o.path.choices
        if o.kind == "raise":
            ok = not matched and o.value.name in ("ValueError",) or False
            if matched:
                return [("K13.reader", name, False, "dereferencing a well-formed citation raises %r" % (o.value,))]
            return [("K13.reader-malformed", name, o.value.name == "ValueError", "a malformed citation string must raise ValueError, got %r" % (o.value,))]
        if not matched:
            if ("citation-rx", "none") in o.path.choices:
                return [("K13.reader-malformed", name, False, "a malformed citation string is silently accepted")]
            return []
        if len(stores) != 1:
            return [("K13.reader", name, False, "expected one qualifier store per citation, found %d" % len(stores))]
        _, obj, key, val = stores[0]
        want_idx = Aff.sym("int(%r)" % (Term("group1", CIT),)) - 1
        ok = (isinstance(val, Term) and val.op == "getitem" and len(val.args) == 2
              and repr(val.args[1]) == repr(Term(repr(want_idx))))
        refs = val.args[0] if isinstance(val, Term) and val.args else None
        okrefs = isinstance(refs, Term) and "references" in repr(refs) and "annotations(rec)" in repr(refs)
        out.append(("K13.reader", name, ok and okrefs,
                    "citation '[j]' must be replaced by references[j-1] of the record's own reference list: stored %r" % (val,)))
        okpos = isinstance(key, Aff) and key == Aff.sym("idx") and "citation" in repr(obj) and "quals" in repr(obj)
        out.append(("K13.reader-slot", name, okpos, "the i-th citation must be written back to slot i of the same qualifier: key %r of %r" % (key, obj)))
        return out

    def args_for(f, I):
        if f.owner is not None and f.kind == "method" and f.owner is not mgr and not p.is_subclass(mgr, f.owner):
            # a method of a small class wrapped around the record (table = _CitationTable(record); table.resolve())
            rec = make_record(I)
            obj = Frame(I, None, {}, module=f.module).instantiate(f.owner, [rec], {}, None)
            return (obj,), {}
        if f.owner is not None and f.kind == "classmethod":
            return (f.owner, make_record(I)), {}
        return ((self_obj(), make_record(I)) if f.owner is not None and f.kind == "method" else (make_record(I),)), {}

    outs = run_paths(ctx, deref, lambda I: args_for(deref, I), [N - 1], hooks=hooks, post=post_deref)
    emit(ctx, outs, deref.where())
    if not isinstance(rx_pat, str):
        # the compiled pattern the dereference really matched with, wherever it is kept (a class attribute of a table
        # object, a constructor default, a module constant)
        seen_pats = {x for x in used_patterns if isinstance(x, str)}
        if len(seen_pats) != 1 or len(seen_pats) != len({repr(x) for x in used_patterns}):
            raise AnalysisError("anchor vanished: the citation pattern of %s is not re.compile(<literal>) (patterns met: %r)"
                                % (deref.qualname, sorted(map(repr, used_patterns))[:3]))
        rx_pat = seen_pats.pop()
    try:
        rx = re.compile(rx_pat)
    except re.error:
        raise AnalysisError("_CITATION_RX does not compile")

    # -- writer ---------------------------------------------------------
    written_formats = []

    def post_ref(I, o):
        name = ref.qualname
        out = []
        if o.kind != "return":
            return [("K13.writer", name, False, "re-referencing ends with %r" % (o,))]
        opaque = [t for t, v in o.path.choices if t.startswith("next-of ") and ("references" in t)]
        if opaque:
            # a hand-written search of the reference list: neither `in` / .index / .count nor a loop the evaluator
            # follows -- what it computes is not decided here (an unrecognised condition is not a wrong one)
            raise AnalysisError("%s: the reference list is searched with next() over a filtered generator (%s); this form of "
                                "membership / position search is not modelled" % (ref.where(), opaque[0][:120]))
        stores = [e for e in o.path.effects if e[0] == "setitem"]
        appends = [e for e in o.path.effects if e[0] == "mutate" and e[2] == "append"]
        absent = any(t.startswith("bool not(in(") and v for t, v in o.path.choices) or any(
            t.startswith("bool in(") and not v for t, v in o.path.choices)
        asked = any(t.startswith("bool ") for t, v in o.path.choices)
        # membership decided concretely (a list created empty a moment ago)
        for e in o.path.effects:
            if e[0] == "contains" and e[2] == CIT:
                asked = True
                absent = absent or (e[3] is False)
        # a hand-written linear search of the list: `for n, known in enumerate(refs, 1): if known == ref: return n`; the
        # iteration that answers is the first one whose element equals the reference (the body leaves the loop there), and a
        # walk that ends without an answer has compared every element
        scan = None
        scan_enum, scan_found, scan_eq_false = None, False, False
        for t, v in o.path.choices:
            m_ = re.match(r"^(equal|identical) (?:item1\(elem-of\((enumerate\(.*\))\)\) cit|cit item1\(elem-of\((enumerate\(.*\))\)\))$", t)
            if m_ and "references" in t:
                scan_enum = m_.group(2) or m_.group(3)
                if v is True:
                    scan_found = True  # the element is, or equals, the reference (`known is ref or known == ref`)
                elif m_.group(1) == "equal":
                    scan_eq_false = True
        if scan_enum is not None and (scan_found or scan_eq_false):
            # (a walk that only tested identity and found nothing has not asked whether an equal reference is listed)
            scan = (scan_enum, scan_found)
            asked = True
            absent = absent or (scan_eq_false and not scan_found)
        if not stores:
            return []
        if len(stores) != 1:
            return [("K13.writer", name, False, "expected one qualifier store per citation, found %d" % len(stores))]
        _, obj, key, val = stores[0]
        if appends:
            lst = appends[0][1]
            attached = (isinstance(lst, Term) and lst.op == "setdefault" and "annotations(rec)" in repr(lst) and "references" in repr(lst)) or (
                # annotations.get("references") without a default: when it is a list at all it is the record's own
                isinstance(lst, Term) and lst.op == "get" and len(lst.args) == 2 and "annotations(rec)" in repr(lst) and "references" in repr(lst)) or any(
                e[0] == "setitem" and "annotations(rec)" in repr(e[1]) and repr(e[2]) == "'references'" for e in o.path.effects)
            out.append(("K13.list-attached", name, attached,
                        "references are appended to %r, which is not (made) the record's own annotations['references']: a record without a reference list keeps its [n] citations but loses the references" % (lst,)))
        if asked:
            okapp = (len(appends) == 1 and appends[0][3] and appends[0][3][0] == CIT) if absent else not appends
            out.append(("K13.append-once", name, okapp,
                        "a cited reference is appended to the product's list exactly when it is not there yet: absent=%s appends=%r" % (absent, appends)))
        elif appends:
            out.append(("K13.append-once", name, False, "references are appended without asking whether they are present"))
        memo_hits = [t for t, v in o.path.choices if t.startswith(("get ", "getitem ", "haskey ")) and "id()(cit)" in t and v in ("hit", True)]
        carried = [e for e in o.path.effects if e[0] in ("map-get", "map-getitem") and str(e[1]).startswith("carried-over:")]
        # ... unless the key names the list as well as the reference (one entry per (list, reference): what the entry holds
        # was computed for this very list, which only grows, by the path that stores it -- judged there)
        carried = [e for e in carried if not ("id()(" in repr(e[2]) and "references" in repr(e[2]) and "annotations(rec)" in repr(e[2]))]
        if memo_hits and carried:
            return out + [("K13.writer", name, False,
                           "the position written for a citation is served from `%s`, a table created with the manager and kept between calls: "
                           "it holds the position the reference had in the list of the record numbered before, not in this record's list"
                           % carried[0][1].split(":", 1)[1])]
        if memo_hits and not asked and not appends:
            # the position comes out of a table filled earlier in the same call (a memo keyed by the reference's identity):
            # what it holds is what the first encounter computed -- the path that computes it is judged, this one adds nothing
            return out
        ok = False
        det = "the citation must be written back as a bracketed 1-based index of the reference in the list: stored %r" % (val,)
        if isinstance(val, AFormat) and len(val.args) == 1 and isinstance(val.args[0], Aff) and not val.kwargs:
            idx = val.args[0]
            want = [s for s in idx.symbols() if s.startswith("index(")]
            ok = len(want) == 1 and idx == Aff.sym(want[0]) + 1 and repr(CIT) in want[0] and "references" in want[0]
            if not ok and absent and len(appends) == 1 and appends[0][3] and appends[0][3][0] == CIT:
                # the reference was appended on this path: its 1-based index is the new length of the list
                lens = [s for s in idx.symbols() if s.startswith("len(") and "references" in s]
                # len() evaluated after the append (the new length) or before it (the old length + 1): the same number
                ok = len(lens) == 1 and idx == Aff.sym(lens[0]) + 1
            written_formats.append(val.fmt)
        elif scan is not None and scan[1] is True and isinstance(val, Term) and val.op == "format" and len(val.args) == 2:
            # the number written is the counter of the answering iteration: 1-based exactly when the count starts at 1
            fmt_, num = val.args
            counter = "item0(elem-of(%s))" % scan[0]
            start_ = 1 if scan[0].endswith(",start=1)") else (0 if ",start=" not in scan[0] else None)
            # counted from 1 and written as is, or counted from 0 and written plus one
            ok = "annotations(rec)" in scan[0] and ((repr(num) == counter and start_ == 1)
                                                     or (repr(num) in ("add(%s,1)" % counter, "add(1,%s)" % counter) and start_ == 0))
            if not ok:
                det += " (position counted by %s)" % scan[0]
            try:
                written_formats.append(ast.literal_eval(fmt_.op))
            except Exception:
                ok = False
        out.append(("K13.writer", name, ok, det))
        okpos = isinstance(key, Aff) and key == Aff.sym("idx") and "citation" in repr(obj)
        out.append(("K13.writer-slot", name, okpos, "the i-th citation must be written back to slot i: key %r of %r" % (key, obj)))
        return out

    outs = run_paths(ctx, ref, lambda I: args_for(ref, I), [N - 1], hooks=hooks, post=post_ref)
    emit(ctx, outs, ref.where())

    # -- writer/reader agreement on the constants ---------------------------
    for fmt in sorted(set(written_formats)) or [None]:
        if fmt is None:
            r.ob("K13.agreement", ref.qualname, False, "no bracketed index is written back", ref.where())
            continue
        ok = True
        for sample in ("1", "7", "12345"):
            try:
                text = fmt.format(sample)
            except Exception:
                ok = False
                break
            m = rx.match(text)
            if m is None or m.lastindex is None or m.group(1) != sample or m.end() != len(text):
                ok = False
        okgb = fmt == "[{}]" or (ok and fmt.format("1") == "[1]")
        r.ob("K13.agreement", ref.qualname, ok and okgb,
             "the string written (%r) must be GenBank's bracketed form and read back by _CITATION_RX (%r) to the same integer" % (fmt, rx_pat),
             ref.where())
    r.floor("K13.reader", 1)
    r.floor("K13.writer", 1)


# ---------------------------------------------------------------------------
# K14/K15/K0/K16  the assembly


def _mgr_world(ctx):
    p = ctx.program
    mgr = p.get_class("moclo.core._assembly.AssemblyManager")
    mod_cls = p.get_class("moclo.core.modules.AbstractModule")
    vec_cls = p.get_class("moclo.core.vectors.AbstractVector")
    return p, mgr, mod_cls, vec_cls


def _entity(cls: ClassInfo, name: str) -> AObj:
    o = AObj(cls, {"cutter": AEnzymeV(True)}, name=name)
    rec = ARec(True, [Piece("W:" + name, ZERO, Aff.sym("n:" + name))], Term(name))
    rec.attrs["id"] = Term("id", Term(name))
    o.attrs["record"] = rec
    return o


def build_manager(I: Interp, mgr: ClassInfo, V, mods, **kw) -> AObj:
    """The manager as its own constructor builds it (so that attributes a
    change adds in __init__ exist); the constructor's vector check forks and
    its refusing path aborts the setup."""
    init = I.p.class_attr_def(mgr, "__init__")[1]
    obj = AObj(mgr, {}, name="mgr")
    if isinstance(init, FuncInfo):
        n0 = len(I.path.effects)
        I.call_function(init, [obj, V, mods], dict(kw))
        del I.path.effects[n0:]  # effects of the setup are K0's business
    else:
        obj.attrs.update({"vector": V, "modules": mods})
    obj.attrs["__open__"] = True  # state another method of the manager may have set is unknown here, not an error
    return obj


def _entity_hooks(p):
    """Summaries of the accessors (proved by K7-K10): uninterpreted overhang
    terms and the fragment as a named word."""
    hooks = {}

    def mk(kind):
        def hook(I, fi, args, kwargs):
            obj = args[0]
            if not isinstance(obj, AObj):
                return NotImplemented
            I.path.effects.append(("read", obj.name, kind))
            if kind == "target":
                rec = ARec(False, [Piece("F:" + obj.name, ZERO, Aff.sym("len:F:" + obj.name))], Term(obj.name),
                           deriv=("fragment", obj.name))
                I.path.cons.add(Aff.sym("len:F:" + obj.name))
                return rec
            return Term(kind, Term(obj.name))
        return hook

    def term_type(t):
        # the overhang accessors return Bio.Seq.Seq objects (K10); upper() / lower() of a Seq is a Seq
        while isinstance(t, Term) and t.op in NORMALISERS and len(t.args) == 1:
            t = t.args[0]
        if isinstance(t, Term) and t.op in ("start", "end") and len(t.args) == 1:
            return {"Seq"}
        return None

    hooks["term_type"] = term_type
    for cname in ("moclo.core.modules.AbstractModule", "moclo.core.vectors.AbstractVector"):
        for meth, kind in (("overhang_start", "start"), ("overhang_end", "end"), ("target_sequence", "target")):
            hooks["%s.%s" % (cname, meth)] = mk(kind)
            # ... under the name of the function that implements it, wherever the class takes it from (a shared base class)
            try:
                raw = p.class_attr_def(p.get_class(cname), meth)[1]
            except AnalysisError:
                raw = None
            if isinstance(raw, FuncInfo):
                hooks[raw.qualname] = mk(kind)
    return hooks


def k0_vector_check(ctx, pid: str):
    """AssemblyManager.__init__: equal vector overhangs are refused."""
    p, mgr, mod_cls, vec_cls = _mgr_world(ctx)
    fi = p.get_func("moclo.core._assembly.AssemblyManager.__init__")
    hooks = _entity_hooks(p)

    def make_args(I):
        V = _entity(vec_cls, "V")
        mods = ACollection("modules", lambda: _entity(mod_cls, "m"))
        return (AObj(mgr, {}), V, mods), {}

    def concat_hook(fr, l, rr, node):
        return ACollection("elements", lambda: Term("elem"))

    hooks["concat"] = concat_hook

    def post(I, o):
        name = fi.qualname
        cmps = [e for e in o.path.effects if e[0] == "compare"]
        vs = [(strip_norm(e[1]), strip_norm(e[2])) for e in cmps]
        want = {repr(Term("start", Term("V"))), repr(Term("end", Term("V")))}
        asked = [c for c in vs if {repr(c[0]), repr(c[1])} == want]
        if not asked:
            return [("K0.vector-overhangs", name, False,
                     "the vector's two overhangs are never compared before the manager is built (comparisons: %r)" % (vs,))]
        eq = [v for t, v in o.path.choices if t.startswith("equal ")]
        if eq and eq[0]:
            ok = o.kind == "raise" and _is_exc(p, o.value, "moclo.errors.InvalidSequence")
            return [("K0.vector-overhangs", name, ok, "a vector whose two overhangs coincide must be refused with InvalidSequence, got %r" % (o,))]
        out = [("K0.vector-overhangs", name, o.kind == "return", "a vector with distinct overhangs must be accepted, got %r" % (o,))]
        from .absint import AIter

        mgr_obj = I.kernel_args[0]
        for attr, v in sorted(mgr_obj.attrs.items()):
            if isinstance(v, AIter):
                out.append(("K0.reiterable", "%s#%s" % (name, attr), False,
                            "self.%s is a one-shot iterator (%s): assemble() walks it once to dereference the citations and once more to "
                            "restore them, and the second walk finds it exhausted" % (attr, v.what)))
        return out

    emit(ctx, run_paths(ctx, fi, make_args, [], hooks=hooks, post=post), fi.where())
    ctx.report.floor("K0.vector-overhangs", 2)


def _is_exc(p, exc, qualname: str) -> bool:
    return isinstance(exc, AExc) and isinstance(exc.cls, ClassInfo) and p.is_subclass(exc.cls, p.get_class(qualname))


def k15_map(ctx, pid: str):
    p, mgr, mod_cls, vec_cls = _mgr_world(ctx)
    fi = p.get_func("moclo.core._assembly.AssemblyManager._generate_modules_map")
    hooks = _entity_hooks(p)
    counter = {"n": 0}

    def map_value(m, key):
        return _entity(mod_cls, "M[%r]" % (key,))

    hooks["map_value"] = map_value

    built_by_ctor = fi.name == "__init__" and fi.owner is not None and fi.owner is not mgr

    def make_args(I):
        mods = ACollection("modules", lambda: _entity(mod_cls, "m"))
        if built_by_ctor:
            # the map is built by the constructor of a small index class: _ModuleIndex(self.modules)
            build_manager(I, mgr, _entity(vec_cls, "V"), mods)  # (the vector check still guards every assembly)
            return (AObj(fi.owner, {}, name="index"), mods), {}
        return (build_manager(I, mgr, _entity(vec_cls, "V"), mods),), {}

    START_M = Term("start", Term("m"))

    def post(I, o):
        name = fi.qualname
        out = []
        ch = {}
        for t, v in o.path.choices:
            ch.setdefault(t.split(" ")[0], v)
        bases = sorted({e[1] for e in o.path.effects if e[0].startswith("map-") and isinstance(e[1], str)})
        if len(bases) > 1:
            # a second table filled alongside the modules map (spellings kept for messages, a side index): that both have
            # the same key set is a relation between two containers this evaluation does not track
            raise AnalysisError("%s: %d tables are filled while the modules are indexed (%s); the agreement of their key sets is "
                                "not tracked, so lookups in the side table are not decided" % (fi.where(), len(bases), ", ".join(bases)))
        sd = [e for e in o.path.effects if e[0] == "map-setdefault"]
        stores = [e for e in o.path.effects if e[0] == "map-store"]
        asked = [e for e in o.path.effects if e[0] in ("map-haskey", "map-getitem") and strip_norm(e[2]) == START_M]
        # how the module's own start overhang relates to the map on this path
        if sd:
            scen = ch.get("setdefault")
            key, val = sd[0][2], sd[0][3]
        elif "haskey" in ch:
            scen = "present-other" if ch["haskey"] else "absent"
            key, val = (stores[0][2], stores[0][3]) if stores else (None, None)
        elif "getitem" in ch and asked:
            scen = "present-other" if ch["getitem"] == "hit" else "absent"
            key, val = (stores[0][2], stores[0][3]) if stores else (None, None)
        else:
            return [("K15.map-writer", name, False,
                     "a module enters the map without its start overhang being looked up first (stores: %r)" % ([e[1:4] for e in stores],))]
        if len(sd) + len(stores) > 1:
            out.append(("K15.map-writer", name, False, "more than one write to the map per module: %r" % ([e[1:4] for e in sd + stores],)))
        unchecked = [e for e in stores if e[4] is not False]
        out.append(("K15.map-writer", name, not unchecked,
                    "the map is written without the key being known absent (an unchecked store overwrites a module filed earlier): %r" % ([e[1:4] for e in unchecked],)))
        if scen == "present-other":
            ok = o.kind == "raise" and _is_exc(p, o.value, "moclo.errors.DuplicateModules")
            named = False
            if ok:
                names = {getattr(a, "name", None) for a in o.value.args}
                named = "m" in names and any(n and n.startswith("M[") for n in names)
            out.append(("K15.duplicate", name, ok and named,
                        "two different modules with the same start overhang must raise DuplicateModules naming both: got %r" % (o,)))
            return out
        if scen == "absent":
            okkey = key is not None and strip_norm(key) == START_M and isinstance(val, AObj) and val.name == "m"
            out.append(("K15.map-key", name, okkey, "a module must be filed under its own start overhang: key %r value %r" % (key, val)))
        # absent / present-same: no error from the first loop
        gets = [e for e in o.path.effects if e[0] in ("map-get", "map-haskey", "map-getitem")]
        keys_loop = [e for e in o.path.effects if e[0] == "loop" and str(e[1]).startswith(("keys:", "items:"))]
        rc_asked = [e for e in gets if isinstance(e[2], Term) and strip_norm(e[2]).op == "reverse_complement"
                    and keys_loop and strip_norm(strip_norm(e[2]).args[0]) == keys_loop[0][2]]
        if o.kind == "raise" and not rc_asked:
            out.append(("K15.duplicate", name, False, "a module whose start overhang is new (or the same object passed twice) is refused: %r" % (o,)))
            return out
        early = [e for e in o.path.effects if e[0] in ("return-in-loop", "break")]
        if early and o.kind == "return":
            # the walk over the keys (or over whatever a helper generator yields for them) is left before the last one
            # without an error: the keys after that one are never checked against their reverse complement
            out.append(("K15.reverse-complement", name, False,
                        "the check of reverse-complementary start overhangs stops at the first key that passes it (%s inside the walk over %s): "
                        "a pair further on is not reported" % ("a return" if early[0][0] == "return-in-loop" else "a break", early[0][1])))
            return out
        out.append(("K15.reverse-complement", name, bool(rc_asked),
                    "after the map is built every key's reverse complement must be looked up in it (lookups: %r)" % ([e[2] for e in gets],)))
        if rc_asked:
            hit = ch.get("get") == "hit" if "get" in ch else any(
                t.split(" ")[0] in ("haskey", "getitem") and "reverse_complement" in t and v in (True, "hit") for t, v in o.path.choices)
            if hit:
                ok = o.kind == "raise" and _is_exc(p, o.value, "moclo.errors.DuplicateModules")
                out.append(("K15.reverse-complement", name, ok,
                            "two modules with reverse-complementary start overhangs must raise DuplicateModules: got %r" % (o,)))
            else:
                # the map itself, or the small object of the code base that keeps it (an index class around one dict)
                res = o.value
                if o.kind == "return" and res is None and built_by_ctor:
                    res = I.kernel_args[0]
                if o.kind == "return" and isinstance(res, AObj):
                    held = [a for a in res.attrs.values() if isinstance(a, AMap)]
                    res = held[0] if len(held) == 1 else res
                ok = o.kind == "return" and isinstance(res, AMap)
                adds = [(strip_norm(k), v) for k, v in (res.adds if ok else [])]
                if scen == "absent":
                    ok = ok and any(k == START_M and isinstance(v, AObj) and v.name == "m" for k, v in adds)
                out.append(("K15.result", name, ok, "without conflict the map (with the new module filed) must be returned: got %r" % (o,)))
        return out

    emit(ctx, run_paths(ctx, fi, make_args, [], hooks=hooks, post=post), fi.where())
    r = ctx.report
    r.floor("K15.duplicate", 1)
    r.floor("K15.reverse-complement", 2)


def _find_loop(fi: FuncInfo, kind):
    for node in ast.walk(fi.node):
        if isinstance(node, kind):
            return node
    return None


def _find_walk_loop(p, fi: FuncInfo):
    """(while loop, {function qualname: names it assigns per iteration}).  The
    walk's while loop sits in the function itself or in a generator of the
    same class/module that one of its for loops consumes; in the second case
    the loop-carried state is split between the two frames."""
    from .absint import _is_generator

    def assigned_in(stmts):
        out = set()
        for b in stmts:
            for node in ast.walk(b):
                if isinstance(node, (ast.Assign, ast.AugAssign)):
                    ts = node.targets if isinstance(node, ast.Assign) else [node.target]
                    for t in ts:
                        for x in ast.walk(t):
                            if isinstance(x, ast.Name):
                                out.add(x.id)
                if isinstance(node, ast.For):
                    for x in ast.walk(node.target):
                        if isinstance(x, ast.Name):
                            out.add(x.id)
        return out

    def callee_of(f, call):
        fn = call.func
        g = None
        if isinstance(fn, ast.Attribute) and isinstance(fn.value, ast.Name) and fn.value.id in ("self", "cls") and f.owner is not None:
            _, g = p.class_attr_def(f.owner, fn.attr)
        elif isinstance(fn, ast.Attribute) and isinstance(fn.value, ast.Name):
            # a method of a small object of the code base built in the function: chain = Chain(...); chain.grow(...)
            for n in ast.walk(f.node):
                if isinstance(n, ast.Assign) and len(n.targets) == 1 and isinstance(n.targets[0], ast.Name) and n.targets[0].id == fn.value.id \
                        and isinstance(n.value, ast.Call):
                    try:
                        c = p.resolve_expr(f.module, n.value.func)
                    except Exception:
                        c = None
                    if not isinstance(c, ClassInfo) and isinstance(n.value.func, ast.Attribute):
                        # an alternative constructor: Chain.for_vector(...)
                        try:
                            c = p.resolve_expr(f.module, n.value.func.value)
                        except Exception:
                            c = None
                    if isinstance(c, ClassInfo):
                        _, g = p.class_attr_def(c, fn.attr)
        elif isinstance(fn, ast.Attribute) and isinstance(fn.value, ast.Call):
            # a method called on a freshly built object: Chain(self.vector).grow(modmap)
            c = None
            for cand in (fn.value.func, fn.value.func.value if isinstance(fn.value.func, ast.Attribute) else None):
                if cand is None or isinstance(c, ClassInfo):
                    continue
                try:
                    c = p.resolve_expr(f.module, cand)
                except Exception:
                    c = None
            if isinstance(c, ClassInfo):
                _, g = p.class_attr_def(c, fn.attr)
        elif isinstance(fn, ast.Name):
            g = p.resolve_expr(f.module, fn)
        return g if isinstance(g, FuncInfo) else None

    def search(f, depth):
        loop = _find_loop(f, (ast.While,))
        if loop is not None:
            names = assigned_in(loop.body)
            # the loop sits in a nested generator of f: what f's own for loop over that generator assigns is loop-carried too
            for nd in ast.walk(f.node):
                if isinstance(nd, ast.FunctionDef) and nd is not f.node and any(x is loop for x in ast.walk(nd)) and _is_generator(nd):
                    for node in ast.walk(f.node):
                        if isinstance(node, ast.For) and isinstance(node.iter, ast.Call) and isinstance(node.iter.func, ast.Name) and node.iter.func.id == nd.name:
                            names |= assigned_in(node.body)
                            for x in ast.walk(node.target):
                                if isinstance(x, ast.Name):
                                    names.add(x.id)
            return loop, {f.qualname: names}
        for node in ast.walk(f.node):
            if isinstance(node, ast.For) and isinstance(node.iter, ast.Call):
                g = callee_of(f, node.iter)
                if g is not None and _is_generator(g.node):
                    inner = _find_loop(g, (ast.While,))
                    if inner is not None:
                        names = assigned_in(node.body)
                        for x in ast.walk(node.target):
                            if isinstance(x, ast.Name):
                                names.add(x.id)
                        return inner, {g.qualname: assigned_in(inner.body), f.qualname: names}
        # the generator folded by sum() / functools.reduce(), directly or through a generator expression or a local name:
        # the accumulator of the fold is the loop-carried state on the consumer's side (the evaluator names it <acc>)
        for node in ast.walk(f.node):
            if isinstance(node, ast.Call) and not isinstance(node.func, ast.Call):
                g = callee_of(f, node)
                if g is not None and _is_generator(g.node):
                    inner = _find_loop(g, (ast.While,))
                    if inner is not None:
                        names = {"<acc>"}
                        for loop_ in ast.walk(f.node):
                            if isinstance(loop_, ast.For):
                                names |= assigned_in(loop_.body)
                                for x in ast.walk(loop_.target):
                                    if isinstance(x, ast.Name):
                                        names.add(x.id)
                        return inner, {g.qualname: assigned_in(inner.body), f.qualname: names, "<lazy>": g.qualname}
        if depth > 0:
            for node in ast.walk(f.node):
                if isinstance(node, ast.Call):
                    g = callee_of(f, node)
                    if g is not None and g is not f and not _is_generator(g.node):
                        found = search(g, depth - 1)
                        if found[0] is not None:
                            return found
        return None, {}

    found = search(fi, 2)
    if found[0] is None:
        # a walk bounded by a number of rounds: `for _ in range(len(modmap) + 1): if kappa == stop: break ...` -- the
        # inductive step is the same; that the rounds suffice is an arithmetic side condition (see k14_walk)
        for node in ast.walk(fi.node):
            if isinstance(node, ast.For) and isinstance(node.iter, ast.Call) and isinstance(node.iter.func, ast.Name) and node.iter.func.id == "range" \
                    and any(isinstance(x, ast.Break) for b in node.body for x in ast.walk(b)) and not node.orelse:
                names = assigned_in(node.body)
                for x in ast.walk(node.target):
                    if isinstance(x, ast.Name):
                        names.add(x.id)
                return node, {fi.qualname: names}
    return found


def _walk_state_attrs(p, cls: ClassInfo) -> Set[str]:
    """attributes of a small object of the code base that its methods (other than the constructor) assign or mutate: the
    state such an object carries from one round of the walk to the next (`chain.overhang`, `chain.insert`)"""
    out: Set[str] = set()
    for c in p.mro(cls):
        if not isinstance(c, ClassInfo):
            continue
        for nm, raw in c.attrs.items():
            if not isinstance(raw, FuncInfo) or nm == "__init__" or not raw.node.args.args:
                continue
            me = raw.node.args.args[0].arg
            for n in ast.walk(raw.node):
                if isinstance(n, ast.Attribute) and isinstance(n.value, ast.Name) and n.value.id == me:
                    if isinstance(n.ctx, (ast.Store, ast.Del)):
                        out.add(n.attr)
                if isinstance(n, ast.Call) and isinstance(n.func, ast.Attribute) and isinstance(n.func.value, ast.Attribute) \
                        and isinstance(n.func.value.value, ast.Name) and n.func.value.value.id == me \
                        and n.func.attr in ("append", "extend", "insert", "pop", "remove", "clear", "update", "add", "setdefault", "popitem", "discard"):
                    out.add(n.func.value.attr)
    return out


def k14_walk(ctx, pid: str):
    p, mgr, mod_cls, vec_cls = _mgr_world(ctx)
    fi = p.get_func("moclo.core._assembly.AssemblyManager._generate_assembly")
    loop, assigned_by = _find_walk_loop(p, fi)
    if loop is None:
        raise AnalysisError("%s: the walk is no longer a while loop; the inductive-step evaluation does not apply" % fi.where())
    hooks = _entity_hooks(p)
    if assigned_by.get("<lazy>"):
        hooks["lazy_gens"] = {assigned_by.pop("<lazy>")}
    KAPPA = Term("kappa")
    P_LEN = Aff.sym("len:P")
    from .roles import manager_phases, map_carrier
    try:
        carrier = map_carrier(p, manager_phases(p)["map"])
    except AnalysisError:
        carrier = None

    def map_value(m, key):
        return _entity(mod_cls, "M[%r]" % (key,))

    hooks["map_value"] = map_value

    entity_root = p.get_class("moclo.core._structured.StructuredRecord")
    entity_vars: Set[str] = set()  # loop-carried names that hold a module (found by a first evaluation, see below)
    # (class, attribute) of a state object that holds the list of the modules linked so far (found by evaluating the first
    # round as it is, see `probe` below).  When the walk keeps no overhang of its own and reads the current one off the last
    # link (`links[-1].overhang_end()`, the vector's overhang while there is none), the current overhang of an arbitrary
    # round *is* the downstream overhang of "the module linked last": that module's end overhang is kappa by definition.
    entity_list_attrs: Set[Tuple[str, str]] = set()
    derived = {"on": False}

    def _wrap_end(h):
        def hook(I, f, args, kwargs):
            res = h(I, f, args, kwargs)
            if derived["on"] and isinstance(res, Term) and res == Term("end", Term("Mlast")):
                return KAPPA
            return res
        return hook

    for k_ in [k_ for k_, h_ in hooks.items() if callable(h_) and k_ not in ("term_type", "map_value")]:
        hooks[k_] = _wrap_end(hooks[k_])

    def is_carrier(v) -> bool:
        return isinstance(v, AObj) and isinstance(v.cls, ClassInfo) and v.cls is not mgr and not p.is_subclass(v.cls, entity_root) \
            and not p.is_subclass(mgr, v.cls) and bool(_walk_state_attrs(p, v.cls)) \
            and not isinstance(p.class_attr_def(v.cls, "__eq__")[1], FuncInfo)

    def havoc(fr: Frame):
        I = fr.I
        seen_carriers: Set[int] = set()
        if entity_list_attrs:
            # does the walk keep the current overhang in a variable / attribute of its own?
            explicit = False
            for f in (I.frames or [fr]):
                names = assigned_by.get(f.fi.qualname if f.fi is not None else "", set())
                for nm in names:
                    v = f.env.get(nm) if nm in f.env else None
                    if isinstance(v, Term) or (isinstance(v, AObj) and isinstance(v.cls, ClassInfo) and not is_carrier(v)
                                               and isinstance(p.class_attr_def(v.cls, "__eq__")[1], FuncInfo)):
                        explicit = True
                for v in f.env.values():
                    if is_carrier(v) and any(isinstance(v.attrs.get(an), Term) for an in _walk_state_attrs(p, v.cls)):
                        explicit = True
            derived["on"] = not explicit
        for f in (I.frames or [fr]):
            names = assigned_by.get(f.fi.qualname if f.fi is not None else "", set())
            from .absint import ChainEnv

            for nm in sorted(names):
                if isinstance(f.env, ChainEnv) and not dict.__contains__(f.env, nm):
                    continue  # a variable of the enclosing function, havocked there
                v = f.env.get(nm)
                if isinstance(v, Term):
                    f.env[nm] = KAPPA
                elif isinstance(v, ARec):
                    I.path.cons.add(P_LEN)
                    f.env[nm] = ARec(v.circular, [Piece("P", ZERO, P_LEN)], Term("P"), deriv=("accumulator",))
                elif nm in entity_vars and (v is None or (isinstance(v, AObj) and p.is_subclass(v.cls, entity_root))):
                    # "the module linked last, if any": nothing before the first round, some module afterwards
                    f.env[nm] = None if I.path.choose("none-so-far %s" % nm) else _entity(mod_cls, "Mprev")
                elif is_carrier(v):
                    pass  # a state object: its attributes are havocked below, whichever name it goes by
                elif isinstance(v, AObj) and isinstance(v.cls, ClassInfo) and isinstance(p.class_attr_def(v.cls, "__eq__")[1], FuncInfo) \
                        and all(isinstance(a, Term) for a in v.attrs.values()):
                    # the current overhang kept in a small value object (spelling + case-folded spelling): any overhang
                    def rewrap(t):
                        return Term(t.op, rewrap(t.args[0])) if (t.op in NORMALISERS and len(t.args) == 1) else KAPPA
                    f.env[nm] = AObj(v.cls, {a: rewrap(t) for a, t in v.attrs.items()}, name=v.name)
                elif nm in f.env:
                    f.env[nm] = Term("havoc:" + nm)
            for nm, v in f.env.items():
                if isinstance(v, AMap):
                    v.adds, v.removes = [], []
                if isinstance(v, AObj):
                    for av in v.attrs.values():
                        if isinstance(av, AMap):
                            av.adds, av.removes = [], []
                if is_carrier(v) and id(v) not in seen_carriers:
                    # the plan / chain object the walk grows: what its methods assign is loop-carried state
                    seen_carriers.add(id(v))
                    for an in sorted(_walk_state_attrs(p, v.cls)):
                        av = v.attrs.get(an)
                        if isinstance(av, Term):
                            v.attrs[an] = KAPPA
                        elif isinstance(av, ARec):
                            I.path.cons.add(P_LEN)
                            v.attrs[an] = ARec(av.circular, [Piece("P", ZERO, P_LEN)], Term("P"), deriv=("accumulator",))
                        elif isinstance(av, AList) and not av.generic and (v.cls.qualname, an) in entity_list_attrs:
                            # the modules linked so far: none before the first round, afterwards some modules the last of
                            # which is "the module linked last"
                            if I.path.choose("none-so-far-list %s.%s" % (v.cls.name, an)):
                                v.attrs[an] = AList([], I.loop_depth, origin="links:%s" % an)
                            else:
                                lst_ = AList([_entity(mod_cls, "Mlast")], I.loop_depth, origin="links:%s" % an)
                                lst_.generic, lst_.generic_from, lst_.min_len = True, 0, 1
                                lst_.unknown_head = True  # (what was linked before the last link is not represented)
                                v.attrs[an] = lst_
                        elif isinstance(av, AList) and not av.generic and all(isinstance(x, ARec) for x in av.items):
                            # the fragments collected so far, to be joined at the end: known through their concatenation
                            from .absint import AFragList

                            I.path.cons.add(P_LEN)
                            v.attrs[an] = AFragList(ARec(False, [Piece("P", ZERO, P_LEN)], Term("P"), deriv=("accumulator",)))
                            v.attrs[an].undetermined = not av.items
                        elif an in v.attrs and not isinstance(av, (AMap, AObj)):
                            v.attrs[an] = Term("havoc:%s.%s" % (nm, an))

    hooks["havoc"] = havoc

    def rounds_invariant(fr, st, rng, j):
        # after j completed rounds the map holds j entries less than when the walk began (every completed round removes
        # exactly one entry and adds none: K14.step-consume), so j never exceeds the length the bound was computed from
        I = fr.I
        for b_ in ("M", "copy-of:M"):
            I.path.cons.add(Aff.sym("len:map:%s" % b_) - j)

    hooks["for_invariant"] = rounds_invariant

    def make_args(I):
        V = _entity(vec_cls, "V")
        mods = ACollection("modules", lambda: _entity(mod_cls, "m"))
        M = AMap("M", make_value=map_value)
        I.the_map = M
        if carrier is not None:
            # the map phase hands on an object that keeps the dict: the walk receives such an object
            return (build_manager(I, mgr, V, mods), AObj(carrier[0], {carrier[1]: M}, name="index")), {}
        return (build_manager(I, mgr, V, mods), M), {}

    START_V, END_V = Term("start", Term("V")), Term("end", Term("V"))
    working = {"step": set(), "exit": set()}  # which map the steps consume / the exit examines (the map handed in, or a copy)

    def post(I, o):
        name = fi.qualname
        out = []
        # the overhang this round starts from: any overhang (kappa) -- or, when it is read off the last link and nothing is
        # linked yet, the vector's downstream overhang (the first round, evaluated as such)
        first_round = derived["on"] and any(t.startswith("none-so-far-list ") and v for t, v in o.path.choices)
        CUR = END_V if first_round else KAPPA
        entry = [e for e in o.path.effects if e[0] == "loop-entry"]
        if len(entry) != 1:
            return [("K14.entry", name, False, "the walk loop is not entered exactly once")]
        def plain(env_):
            # a small value object around the overhang counts as the overhang it stands for
            out_ = {}
            flattened = set()
            for k_, v_ in env_.items():
                if is_carrier(v_):
                    if id(v_) in flattened:
                        continue  # the same object under another name (`chain` in the caller, `self` in its own method)
                    flattened.add(id(v_))
                if isinstance(v_, AObj) and isinstance(v_.cls, ClassInfo) and isinstance(p.class_attr_def(v_.cls, "__eq__")[1], FuncInfo):
                    try:
                        v_ = I.key_of(v_)
                    except AnalysisError:
                        pass
                out_[k_] = v_
                if is_carrier(v_):
                    # the state a chain / plan object carries counts as variables of the walk: chain.overhang, chain.insert
                    from .absint import AFragList

                    for an_, av_ in v_.attrs.items():
                        if isinstance(av_, AFragList) and getattr(av_, "opaque", False):
                            continue
                        if isinstance(av_, AFragList):
                            av_ = av_.rec
                        elif isinstance(av_, AList) and not av_.generic and all(isinstance(x, ARec) for x in av_.items) and an_ in _walk_state_attrs(p, v_.cls):
                            # a list of fragments stands for their concatenation (an empty list for the empty record)
                            pieces_ = [pc for x in av_.items for pc in x.pieces]
                            av_ = ARec(False, pieces_, Term("fragments"), deriv=("fragments",))
                        if isinstance(av_, (Term, ARec)):
                            out_["%s.%s" % (k_, an_)] = av_
                        elif derived["on"] and (v_.cls.qualname, an_) in entity_list_attrs and isinstance(av_, AList) and av_.items \
                                and isinstance(av_.items[-1], AObj):
                            # the current overhang is read off the last link (see above): what the next round starts from
                            out_["%s.%s[-1].end" % (k_, an_)] = Term("end", Term(av_.items[-1].name))
            return out_

        env0 = plain(entry[0][1])
        k0 = [v for v in env0.values() if isinstance(v, Term) and strip_norm(v) == END_V]
        acc0 = [v for v in env0.values() if isinstance(v, ARec)]
        # (an object that carries the state may hold several empty lists when the walk begins -- fragments, modules used --
        # of which only the first record appended tells which is which: every candidate accumulator must be empty and linear)
        ok0 = bool(k0) and len(acc0) >= 1 and all(not I.canon(a_.pieces) and not a_.circular for a_ in acc0) and (
            len(acc0) == 1 or sum(1 for a_ in acc0 if a_.deriv != ("fragments",)) <= 1)
        out.append(("K14.entry", name, ok0,
                    "the walk must start from the vector's downstream overhang with an empty linear accumulator: entry state %r"
                    % ({k: v for k, v in env0.items() if k != "self"},)))
        rewrites = sorted({e[2] for e in o.path.effects if e[0] == "setattr" and isinstance(e[1], AObj) and e[1] is I.kernel_args[0]})
        out.append(("K14.manager-state", name, not rewrites,
                    "the walk rewrites the manager's own %s: what assemble() does next (annotation naming every supplied module, the citation "
                    "rewrite over every element) reads it" % ", ".join("self." + a for a in rewrites)))
        if dict(o.path.choices).get("loop-exhausted"):
            return out + [("K14.stop", name, False,
                           "the walk is bounded by a number of rounds that can run out before the chain is closed (after as many "
                           "completed rounds as the bound allows, the current overhang need not be the vector's upstream overhang): "
                           "the product is then returned for an incomplete chain")]
        cmps = [(strip_norm(e[1]), strip_norm(e[2])) for e in o.path.effects if e[0] == "compare"]
        stop = [c for c in cmps if {repr(c[0]), repr(c[1])} == {repr(CUR), repr(START_V)}]
        # (the first round of a walk that reads its overhang off the last link compares the vector's two overhangs with each
        # other, which the constructor's own check has already done: nothing new is asked on that path; the arbitrary round
        # -- the other branch -- shows the comparison)
        out.append(("K14.stop", name, (len(stop) >= 1 or first_round) and len(cmps) == len(stop),
                    "the loop must stop exactly when the current overhang equals the vector's upstream overhang: comparisons %r" % (cmps,)))
        cond = dict(o.path.choices).get("loop-cond") and not dict(o.path.choices).get("loop-break")
        pops = [e for e in o.path.effects if e[0] in ("map-pop", "map-getitem")]
        if cond:
            # one inductive step
            asked = [e for e in o.path.effects if e[0] == "map-haskey" and strip_norm(e[2]) == CUR]
            absent = [v for t, v in o.path.choices if t.startswith("haskey ") and v is False]
            if not pops and asked and absent:
                # the step tests `kappa in map` first and found nothing filed under the current overhang
                ok = o.kind == "raise" and _is_exc(p, o.value, "moclo.errors.MissingModule")
                okarg = ok and o.value.args and strip_norm(o.value.args[0]) == CUR
                out.append(("K14.missing", name, bool(ok and okarg),
                            "a missing module must raise MissingModule naming the overhang at which the chain stalls: got %r" % (o,)))
                return out
            if not pops or any(strip_norm(e[2]) != CUR for e in pops):
                lookups = [e for e in o.path.effects if e[0] in ("map-get", "map-pop")]
                return out + [("K14.step-consume", name, False,
                               "each step must remove the module filed under the current overhang from the map (consuming lookup): %r" % (lookups,))]
            hit = any((t.startswith("pop ") or t.startswith("getitem ")) and v == "hit" for t, v in o.path.choices)
            mname = "M[%r]" % (pops[0][2],)
            pop_bases = {e[1] for e in pops}
            working["step"] |= pop_bases
            if not hit:
                ok = o.kind == "raise" and _is_exc(p, o.value, "moclo.errors.MissingModule")
                okarg = ok and o.value.args and strip_norm(o.value.args[0]) == CUR
                out.append(("K14.missing", name, bool(ok and okarg),
                            "a missing module must raise MissingModule naming the overhang at which the chain stalls: got %r" % (o,)))
                return out
            if o.kind != "step":
                return out + [("K14.step", name, False, "a step with the module present ends with %r" % (o,))]
            env = plain(o.env)
            acc = [v for v in env.values() if isinstance(v, ARec)]
            okacc = len(acc) == 1 and I.same_pieces(acc[0].pieces, [Piece("P", ZERO, P_LEN), Piece("F:" + mname, ZERO, Aff.sym("len:F:" + mname))])
            out.append(("K14.step-append", name, okacc,
                        "the step must append the consumed module's target fragment to the accumulator: got %r" % (acc,)))
            nxt = [v for v in env.values() if isinstance(v, Term) and strip_norm(v) == Term("end", Term(mname))]
            # (a variable that still holds the overhang the step started from matters when the walk goes on from it: the
            # names the loop's own test reads; a throw-away target of an unpacking that happens to keep it does not)
            carried = {x.id for x in ast.walk(loop.test) if isinstance(x, ast.Name)} if isinstance(loop, ast.While) else None
            stale = [v for k_, v in env.items() if isinstance(v, Term) and v == CUR and (carried is None or k_.lstrip("^").split(".")[0] in carried)]
            out.append(("K14.step-next", name, bool(nxt) and not stale,
                        "the next overhang must be the consumed module's downstream overhang: state %r"
                        % ({k_: v for k_, v in env.items() if isinstance(v, Term)},)))
            # the map the walk consumes: the one it was handed, or a copy of it taken before the walk (`remaining = dict(modmap)`)
            wmap = I.the_map
            if pop_bases == {"copy-of:" + I.the_map.base}:
                for v_ in env.values():
                    cands_ = [v_] + (list(v_.attrs.values()) if isinstance(v_, AObj) else [])
                    for c_ in cands_:
                        if isinstance(c_, AMap) and c_.base == "copy-of:" + I.the_map.base:
                            wmap = c_
            okmap = [repr(strip_norm(x)) for x in wmap.removes] == [repr(CUR)] and not wmap.adds and len(pop_bases) == 1 \
                and (wmap is I.the_map or (not I.the_map.removes and not I.the_map.adds))
            out.append(("K14.step-consume", name, okmap, "the consumed entry (and only it) must leave the map: %r" % (wmap,)))
            reads = {(e[1], e[2]) for e in o.path.effects if e[0] == "read" and e[1].startswith("M[")}
            out.append(("K14.step-reads", name, reads <= {(mname, "target"), (mname, "end"), (mname, "start")},
                        "a step may read only the consumed module: %r" % (sorted(reads),)))
            return out
        # loop exit
        if pops:
            return out + [("K14.exit", name, False, "the map is consumed after the walk has ended")]
        nonempty = [v for t, v in o.path.choices if t.startswith("nonempty ")]
        looked = {t[len("nonempty "):] for t, v in o.path.choices if t.startswith("nonempty ")}
        if not nonempty:
            # leftovers examined through len(modmap)
            for b_ in ("M", "copy-of:M"):
                ne_ = [v for t, v in o.path.choices if t.startswith("arith len:map:%s-1>=0" % b_)]
                ne_ += [not v for t, v in o.path.choices if t.startswith("arith -len:map:%s>=0" % b_)]
                if ne_:
                    looked.add(b_)
                nonempty += ne_
        working["exit"] |= {x for x in looked if x in ("M", "copy-of:M")}
        the_looked = Term(sorted(looked)[0]) if len(looked) == 1 and sorted(looked)[0] in ("M", "copy-of:M") else Term(repr(I.the_map))
        warns = [e for e in o.path.effects if e[0] == "warn"]
        if not nonempty:
            out.append(("K14.unused", name, False, "left-over modules are never looked at when the walk ends"))
        elif nonempty[0]:
            okw = (len(warns) == 1 and _is_exc(p, warns[0][1], "moclo.errors.UnusedModules")
                   and len(warns[0][1].args) == 1 and isinstance(warns[0][1].args[0], tuple)
                   and warns[0][1].args[0][0] == "starred" and repr(warns[0][1].args[0][1]) == repr(Term("values", the_looked)))
            out.append(("K14.unused", name, okw, "left-over modules must be reported by one UnusedModules warning naming exactly the values left in the map: %r" % (warns,)))
        else:
            out.append(("K14.unused", name, not warns, "no warning when every module was used: %r" % (warns,)))
        if o.kind != "return" or not isinstance(o.value, ARec):
            return out + [("K14.exit", name, False, "the walk ends with %r" % (o,))]
        v = o.value
        fv = Piece("F:V", ZERO, Aff.sym("len:F:V"))
        acc = Piece("P", ZERO, P_LEN)
        okp = I.same_pieces(v.pieces, [acc, fv]) or I.same_pieces(v.pieces, [fv, acc])
        out.append(("K14.exit", name, okp and v.circular,
                    "the product must be the circular record of the accumulator and the vector fragment, once each: got %r" % (v,)))
        return out

    def probe():
        """the first round evaluated as it is (no arbitrary state): which attributes of the state objects come out of it
        as lists of modules"""
        learned: Set[Tuple[str, str]] = set()

        def post_probe(I, o):
            if o.kind == "step":
                for v_ in o.env.values():
                    if is_carrier(v_):
                        for an_, av_ in v_.attrs.items():
                            if isinstance(av_, AList) and not av_.generic and av_.items and an_ in _walk_state_attrs(p, v_.cls) \
                                    and all(isinstance(x, AObj) and isinstance(x.cls, ClassInfo) and p.is_subclass(x.cls, entity_root) for x in av_.items):
                                learned.add((v_.cls.qualname, an_))
            return []

        h2 = dict(hooks)
        h2["havoc"] = lambda fr: None
        try:
            run_paths(ctx, fi, make_args, [], hooks=h2, step_loop=loop, post=post_probe)
        except AnalysisError:
            pass
        return learned

    try:
        outs = run_paths(ctx, fi, make_args, [], hooks=hooks, step_loop=loop, post=post)
    except AnalysisError:
        # a state object may keep the modules linked so far in a list that is empty when the walk begins: what an empty
        # list will hold is not known from the entry state -- learn it from the first round, then evaluate again
        entity_list_attrs.update(probe())
        if not entity_list_attrs:
            raise
        outs = run_paths(ctx, fi, make_args, [], hooks=hooks, step_loop=loop, post=post)
    # a name that is None when the walk begins and holds the module consumed when a round ends ("previous", "last link"):
    # on an arbitrary round it is None or some module -- evaluated again with that, so that what is done with it (an error
    # message naming the module the chain stalls after) is run on a module, not on an opaque value
    all_assigned = set().union(*[v for k_, v in assigned_by.items() if isinstance(v, set)]) if assigned_by else set()
    for o_ in outs:
        if o_.kind == "step":
            entry_ = [e for e in o_.path.effects if e[0] == "loop-entry"]
            for k_, v_ in o_.env.items():
                if isinstance(v_, AObj) and v_.name.startswith("M[") and k_.lstrip("^") in all_assigned and entry_ and entry_[0][1].get(k_, 0) is None:
                    entity_vars.add(k_.lstrip("^"))
    if entity_vars:
        working["step"].clear()
        working["exit"].clear()
        outs = run_paths(ctx, fi, make_args, [], hooks=hooks, step_loop=loop, post=post)
    emit(ctx, outs, fi.where())
    r = ctx.report
    if working["step"] and working["exit"]:
        r.ob("K14.unused", fi.qualname + "#working-map", working["step"] == working["exit"],
             "the walk consumes %s but the left-over modules are looked for in %s: the warning then names modules that were used"
             % (sorted(working["step"]), sorted(working["exit"])), fi.where())
    for rule in ("K14.entry", "K14.stop", "K14.missing", "K14.step-append", "K14.step-next", "K14.step-consume", "K14.unused", "K14.exit"):
        r.floor(rule, 1)


def k16_assemble(ctx, pid: str):
    """AssemblyManager.assemble: ordering of the phases and pairing of the
    citation rewrite on all exits."""
    p, mgr, mod_cls, vec_cls = _mgr_world(ctx)
    fi = p.get_func("moclo.core._assembly.AssemblyManager.assemble")
    hooks = _entity_hooks(p)
    base = "moclo.core._assembly.AssemblyManager."

    def stub(nm, may_raise=False, ret=None):
        def hook(I, f, args, kwargs):
            I.path.effects.append(("phase", nm, args[1:]))
            if may_raise and I.path.choose("phase %s" % nm, ["ok", "raises"]) == "raises":
                raise RaiseSig(AExc("SomeError:" + nm, [], {}))
            return ret() if callable(ret) else ret
        return hook

    product = lambda: ARec(True, [Piece("PRODUCT", ZERO, Aff.sym("len:product"))], Term("product"))
    from .roles import manager_phases

    ph_ = manager_phases(p)
    hooks[ph_["map"].qualname] = stub("map", True, lambda: AMap("M"))
    from .roles import citation_functions

    deref_f, ref_f = citation_functions(p)

    def unbound(h, f):
        # module-level functions receive the record first; methods receive self first: present both to the stub alike
        if f.owner is not None and f.kind == "method" and f.owner is not mgr and not p.is_subclass(mgr, f.owner):
            # a method of a small object wrapped around one record: the record is what that object keeps
            def of_wrapper(I, f_, args, kwargs):
                kept = [v for v in getattr(args[0], "attrs", {}).values() if isinstance(v, ARec)] if args else []
                return h(I, f_, [None] + kept[:1] + list(args[1:]), kwargs)
            return of_wrapper
        if f.owner is not None and f.kind in ("method", "classmethod"):
            return h
        return lambda I, f_, args, kwargs: h(I, f_, [None] + list(args), kwargs)

    hooks[deref_f.qualname] = unbound(stub("deref", False), deref_f)
    hooks[ph_["walk"].qualname] = stub("walk", True, product)
    hooks[ph_["annotate"].qualname] = stub("annotate", True)
    hooks[ref_f.qualname] = unbound(stub("ref", False), ref_f)

    def make_args(I):
        V = _entity(vec_cls, "V")
        elements = ACollection("elements", lambda: _entity(mod_cls, "elem"))
        mods = ACollection("modules", lambda: _entity(mod_cls, "m"))
        obj = build_manager(I, mgr, V, mods)
        from .absint import AIter

        built = obj.attrs.get("elements")
        # (named "elements" for the report; a one-shot iterator stays one-shot)
        obj.attrs["elements"] = AIter(elements, built.what) if isinstance(built, AIter) else elements
        return (obj,), {}

    def post(I, o):
        name = fi.qualname
        out = []
        ph = [(e[1], e[2]) for e in o.path.effects if e[0] == "phase"]
        names = [x[0] for x in ph]

        def is_elem_rec(a):
            return bool(a) and isinstance(a[0], ARec) and repr(a[0].ident) == "elem"

        derefs = [i for i, x in enumerate(ph) if x[0] == "deref" and is_elem_rec(x[1])]
        refs_in = [i for i, x in enumerate(ph) if x[0] == "ref" and is_elem_rec(x[1])]
        refs_prod = [i for i, x in enumerate(ph) if x[0] == "ref" and x[1] and isinstance(x[1][0], ARec) and repr(x[1][0].ident) == "product"]
        walk = [i for i, x in enumerate(ph) if x[0] == "walk"]
        if "map" in names and ("phase map", "raises") in o.path.choices:
            ok = not derefs or bool(refs_in)
            out.append(("K16.pairing", name, ok, "duplicate detection fails after the inputs were dereferenced and they are not restored: %r" % (names,)))
            return out
        if walk:
            out.append(("K16.order", name, bool(derefs) and derefs[0] < walk[0],
                        "every input must be dereferenced before the first fragment is extracted: phases %r" % (names,)))
        # fragments cut by assemble() itself (not through the walk) are extractions too
        first_cut = next((i for i, e in enumerate(o.path.effects) if e[0] == "read" and e[2] == "target"), None)
        first_deref = next((i for i, e in enumerate(o.path.effects) if e[0] == "phase" and e[1] == "deref"), None)
        if first_cut is not None:
            out.append(("K16.order", name + "#early-extraction", first_deref is not None and first_deref < first_cut,
                        "a fragment is extracted before the inputs' citations are dereferenced: it keeps raw '[n]' strings that are later taken for references"))
        # pairing on all exits: once an input was dereferenced, every exit re-references the inputs
        if derefs:
            out.append(("K16.pairing", name, bool(refs_in) and refs_in[-1] > derefs[-1],
                        "after the inputs' citations were dereferenced, %s leaves without re-referencing them: phases %r"
                        % ("a failing assembly" if o.kind == "raise" else "the assembly", names)))
        if o.kind == "return":
            ann = [i for i, x in enumerate(ph) if x[0] == "annotate" and x[1] and isinstance(x[1][0], ARec) and repr(x[1][0].ident) == "product"]
            ok = bool(walk) and bool(ann) and bool(refs_prod) and walk[0] < refs_prod[0] and isinstance(o.value, ARec) and repr(o.value.ident) == "product"
            out.append(("K16.product", name, ok, "the product must be generated, annotated, re-referenced and returned: phases %r, value %r" % (names, o.value)))
            if ann and refs_prod and refs_prod[-1] < ann[-1]:
                # the reference list is created by the re-referencing of the product: what runs afterwards must keep it
                from .rules_flow import annotate_summary

                sm = annotate_summary(ctx)
                lost = sm["replaces_annotations"] or sm["drops_references"]
                out.append(("K16.references-kept", name, not lost,
                            "the product's citations are numbered into annotations['references'] before %s runs, and that function %s: the "
                            "product keeps '[n]' citations without the reference list they index" % (
                                "_annotate_assembly", "replaces the annotations wholesale" if sm["replaces_annotations"] else "rewrites the references entry")))
            loops = [e for e in o.path.effects if e[0] == "loop"]
            # both halves of the rewrite range over every element: two loops over self.elements, or one loop that also
            # registers the re-referencing of each element for the exit of a with block
            deferred = any(e[0] == "exit-stack" and e[1] >= 1 for e in o.path.effects)
            okl = all(e[1] == "elements" for e in loops) and (len(loops) >= 2 or (len(loops) == 1 and deferred and bool(refs_in)))
            out.append(("K16.all-inputs", name, okl, "the citation rewrite must cover every element (all modules and the vector): loops over %r" % ([e[1] for e in loops],)))
        return out

    outs = run_paths(ctx, fi, make_args, [], hooks=hooks, post=post)
    emit(ctx, outs, fi.where())
    r = ctx.report
    r.floor("K16.pairing", 3)
    r.floor("K16.order", 1)
