# coding: utf-8
"""E4 (part 1) -- the abstract domain: affine integer terms, constraint sets
(order chains), abstract sequences as interval lists, region enumeration.

No constraint solver is involved.  A *region* is one abstract state: a set of
linear facts ``e >= 0`` over named symbols (all pairwise order relations of a
finite term set -- an order chain -- plus facts added at forks).  A comparison
is decided only when it follows from one fact (or the sum of two facts) by a
constant offset; otherwise the evaluator forks and both sides carry the
obligation.
"""
from __future__ import annotations

import itertools
from typing import Dict, Iterable, List, Optional, Sequence, Tuple

from .loader import AnalysisError


class Aff(object):
    """c0 + sum(ci * symbol_i), integers."""

    __slots__ = ("co", "c")

    def __init__(self, co: Optional[Dict[str, int]] = None, c: int = 0):
        self.co = {k: v for k, v in (co or {}).items() if v != 0}
        self.c = c

    @staticmethod
    def sym(name: str) -> "Aff":
        return Aff({name: 1}, 0)

    @staticmethod
    def const(c: int) -> "Aff":
        return Aff({}, c)

    @staticmethod
    def of(x) -> "Aff":
        if isinstance(x, Aff):
            return x
        if isinstance(x, bool):
            raise TypeError("bool is not an integer term")
        if isinstance(x, int):
            return Aff({}, x)
        raise TypeError("not an integer term: %r" % (x,))

    def __add__(self, o):
        o = Aff.of(o)
        co = dict(self.co)
        for k, v in o.co.items():
            co[k] = co.get(k, 0) + v
        return Aff(co, self.c + o.c)

    __radd__ = __add__

    def __neg__(self):
        return Aff({k: -v for k, v in self.co.items()}, -self.c)

    def __sub__(self, o):
        return self + (-Aff.of(o))

    def __rsub__(self, o):
        return Aff.of(o) - self

    def scale(self, k: int) -> "Aff":
        return Aff({s: v * k for s, v in self.co.items()}, self.c * k)

    @property
    def is_const(self) -> bool:
        return not self.co

    def key(self):
        return (tuple(sorted(self.co.items())), self.c)

    def __eq__(self, o):
        return isinstance(o, Aff) and self.key() == o.key()

    def __hash__(self):
        return hash(self.key())

    def evaluate(self, env: Dict[str, int]) -> int:
        return self.c + sum(v * env[k] for k, v in self.co.items())

    def symbols(self):
        return set(self.co)

    def __repr__(self):
        parts = []
        for k, v in sorted(self.co.items()):
            if v == 1:
                parts.append("+" + k)
            elif v == -1:
                parts.append("-" + k)
            else:
                parts.append("%+d%s" % (v, k))
        if self.c or not parts:
            parts.append("%+d" % self.c)
        s = "".join(parts)
        return s[1:] if s.startswith("+") else s


class NeedFork(Exception):
    def __init__(self, what):
        Exception.__init__(self, what)
        self.what = what


class Constraints(object):
    """A conjunction of facts e >= 0."""

    def __init__(self, facts: Iterable[Aff] = ()):
        self.facts: List[Aff] = []
        self._keys = set()
        for f in facts:
            self.add(f)

    def clone(self) -> "Constraints":
        c = Constraints()
        c.facts = list(self.facts)
        c._keys = set(self._keys)
        return c

    def add(self, e: Aff):
        if e.is_const:
            return
        k = e.key()
        if k not in self._keys:
            self._keys.add(k)
            self.facts.append(e)

    def add_eq(self, e: Aff):
        self.add(e)
        self.add(-e)

    def bounds(self, e: Aff) -> Tuple[Optional[int], Optional[int]]:
        """(lower, upper) bounds of e that follow from one fact, or from the
        sum of two facts, by a constant offset."""
        if e.is_const:
            return e.c, e.c
        lb = ub = None
        for f in self.facts:
            d = e - f
            if d.is_const:
                lb = d.c if lb is None else max(lb, d.c)
            d = e + f
            if d.is_const:
                ub = d.c if ub is None else min(ub, d.c)
        if lb is not None and ub is not None:
            return lb, ub
        # two-fact combinations
        n = len(self.facts)
        syms = e.symbols()
        cand = [f for f in self.facts if f.symbols() & syms]
        for f1, f2 in itertools.combinations_with_replacement(cand, 2):
            s = f1 + f2
            d = e - s
            if d.is_const:
                lb = d.c if lb is None else max(lb, d.c)
            d = e + s
            if d.is_const:
                ub = d.c if ub is None else min(ub, d.c)
        return lb, ub

    def decide_ge0(self, e: Aff) -> Optional[bool]:
        """True / False when ``e >= 0`` / ``e <= -1`` is entailed by the facts,
        None otherwise.  Fast path: constant offset from one or two facts;
        fallback: emptiness of the polyhedron facts + negation (Fourier-
        Motzkin elimination with integer tightening -- the entailment test of
        the polyhedral abstract domain, not an external solver)."""
        lb, ub = self.bounds(e)
        if lb is not None and lb >= 0:
            return True
        if ub is not None and ub < 0:
            return False
        if not fm_feasible(self.facts + [-e - 1]):
            return True
        if not fm_feasible(self.facts + [e]):
            return False
        return None

    def feasible(self) -> bool:
        return fm_feasible(self.facts)

    def satisfiable_small(self, bound: int = 7) -> Optional[Dict[str, int]]:
        """A small integer witness (emptiness check of the abstract state,
        used only to prune branches created by forks)."""
        syms = sorted(set().union(*[f.symbols() for f in self.facts])) if self.facts else []
        if not syms:
            return {}
        if len(syms) > 5:
            return {}  # too many symbols to enumerate: assume feasible
        if not fm_feasible(self.facts):
            return None  # empty already over the rationals (with integer tightening): no need to enumerate
        rng = range(-1, 3 * bound + 1)
        nrange = range(1, bound + 1)
        doms = [nrange if s == "n" else rng for s in syms]
        # the same search space as a plain product (same order), with a fact checked as soon as all its symbols have a value
        ready: List[List[Aff]] = [[] for _ in syms]
        for f in self.facts:
            fs = f.symbols()
            last = max((syms.index(x) for x in fs), default=-1)
            if last < 0:
                if f.evaluate({}) < 0:
                    return None
                continue
            ready[last].append(f)
        env: Dict[str, int] = {}

        def place(i: int) -> bool:
            if i == len(syms):
                return True
            for v in doms[i]:
                env[syms[i]] = v
                if all(f.evaluate(env) >= 0 for f in ready[i]) and place(i + 1):
                    return True
            env.pop(syms[i], None)
            return False

        return dict(env) if place(0) else None


def _normalise(co: Dict[str, int], c: int):
    from math import gcd

    g = 0
    for v in co.values():
        g = gcd(g, abs(v))
    if g > 1:
        co = {k: v // g for k, v in co.items()}
        c = c // g  # floor: integer tightening (all symbols are integers)
    return co, c


def fm_feasible(facts: Sequence[Aff], limit: int = 4000) -> bool:
    """Is {x integer : f(x) >= 0 for all f} possibly non-empty?  Exact over
    the rationals, tightened for integers; on blow-up answers True (unknown),
    which only ever causes an extra fork."""
    cons = {}
    for f in facts:
        co, c = _normalise(dict(f.co), f.c)
        if not co:
            if c < 0:
                return False
            continue
        k = tuple(sorted(co.items()))
        if k not in cons or cons[k] > c:
            cons[k] = c
    while True:
        syms = set()
        for k in cons:
            for s, _ in k:
                syms.add(s)
        if not syms:
            return True
        best = None
        for s in syms:
            pos = sum(1 for k in cons if dict(k).get(s, 0) > 0)
            neg = sum(1 for k in cons if dict(k).get(s, 0) < 0)
            cost = pos * neg - pos - neg
            if best is None or cost < best[0]:
                best = (cost, s)
        s = best[1]
        pos, neg, rest = [], [], {}
        for k, c in cons.items():
            v = dict(k).get(s, 0)
            if v > 0:
                pos.append((dict(k), c, v))
            elif v < 0:
                neg.append((dict(k), c, -v))
            else:
                rest[k] = c
        for pc, pcst, pv in pos:
            for nc, ncst, nv in neg:
                co = {}
                for kk, vv in pc.items():
                    co[kk] = co.get(kk, 0) + vv * nv
                for kk, vv in nc.items():
                    co[kk] = co.get(kk, 0) + vv * pv
                co = {kk: vv for kk, vv in co.items() if vv != 0}
                c = pcst * nv + ncst * pv
                co, c = _normalise(co, c)
                if not co:
                    if c < 0:
                        return False
                    continue
                k = tuple(sorted(co.items()))
                if k not in rest or rest[k] > c:
                    rest[k] = c
        if len(rest) > limit:
            return True
        cons = rest


# ---------------------------------------------------------------------------
# regions = order types of a term set


class Region(object):
    def __init__(self, name: str, facts: List[Aff], witness: Dict[str, int]):
        self.name = name
        self.facts = facts
        self.witness = witness

    def constraints(self) -> Constraints:
        return Constraints(self.facts)


def order_regions(terms: Dict[str, Aff], invariants: List[Aff], symbols: Sequence[str], bound: int = 7,
                  sym_range=None, max_points: int = 2000000) -> List[Region]:
    """Partition {integer points satisfying the invariants} by the weak order
    of ``terms`` (order type).  The order types are found by enumerating small
    points; each becomes one abstract region whose facts are *all* pairwise
    relations of the terms plus the invariants.  Soundness of the partition:
    every order type of these small term sets is realised by a point with
    n <= bound (checked by the caller's coverage test with a larger bound)."""
    names = list(terms)
    regions: Dict[tuple, Region] = {}
    doms = []
    for s in symbols:
        if sym_range and s in sym_range:
            doms.append(sym_range[s](bound))
        elif s == "n":
            doms.append(range(1, bound + 1))
        else:
            doms.append(range(-1, 3 * bound + 1))
    count = 0
    for vals in itertools.product(*doms):
        count += 1
        if count > max_points:
            raise AnalysisError("region enumeration too large")
        env = dict(zip(symbols, vals))
        if not all(f.evaluate(env) >= 0 for f in invariants):
            continue
        tv = [terms[t].evaluate(env) for t in names]
        sig = tuple((tv[i] > tv[j]) - (tv[i] < tv[j]) for i in range(len(names)) for j in range(i + 1, len(names)))
        if sig in regions:
            continue
        facts = list(invariants)
        idx = 0
        for i in range(len(names)):
            for j in range(i + 1, len(names)):
                s = sig[idx]
                idx += 1
                ti, tj = terms[names[i]], terms[names[j]]
                if s < 0:
                    facts.append(tj - ti - 1)
                elif s > 0:
                    facts.append(ti - tj - 1)
                else:
                    facts.append(tj - ti)
                    facts.append(ti - tj)
        regions[sig] = Region(_chain_name(names, tv), facts, env)
    return sorted(regions.values(), key=lambda r: r.name)


def _chain_name(names: List[str], vals: List[int]) -> str:
    order = sorted(range(len(names)), key=lambda i: (vals[i], names[i]))
    out = names[order[0]]
    for p, q in zip(order, order[1:]):
        out += ("=" if vals[p] == vals[q] else "<") + names[q]
    return out


# ---------------------------------------------------------------------------
# sequences as interval lists


class Piece(object):
    __slots__ = ("base", "lo", "hi")

    def __init__(self, base: str, lo: Aff, hi: Aff):
        self.base, self.lo, self.hi = base, Aff.of(lo), Aff.of(hi)

    def __repr__(self):
        return "%s[%r,%r)" % (self.base, self.lo, self.hi)

    def key(self):
        return (self.base, self.lo.key(), self.hi.key())

    def length(self) -> Aff:
        return self.hi - self.lo


def show_pieces(ps: Sequence[Piece]) -> str:
    return "++".join(map(repr, ps)) if ps else "<empty>"
